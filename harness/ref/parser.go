package ref

import (
	"errors"
	"regexp"
	"fmt"
	"math/big"
	"strings"
	"unicode/utf16"
	"unicode/utf8"
)

type NodeKind int

const (
	NField     NodeKind = iota // Name
	NIndex                     // Kids[0] = subject (may be NCurrent), Idx
	NSlice                     // Kids[0] = subject, Start/Stop/Step (nil = absent); NOT the projection
	NCurrent                   // @
	NRoot                      // $
	NLiteral                   // Val ; Raw tells raw-string vs JSON literal
	NSub                       // Kids[0].Kids[1]   (a.b)
	NPipe                      // a | b
	NOr                        // a || b
	NAnd                       // a && b
	NNot                       // !a
	NCmp                       // Op: == != < <= > >=
	NArith                     // Op: + - * / // %
	NUnary                     // Op: + -
	NFlatten                   // Kids[0][]   (the flatten itself, not the projection)
	NProj                      // array projection: Kids[0] = source (array), Kids[1] = rhs
	NValProj                   // object value projection: Kids[0] = source, Kids[1] = rhs
	NFilterProj                // Kids[0] = source, Kids[1] = rhs, Kids[2] = condition
	NMultiList                 // [a, b]
	NMultiHash                 // {k: a}  Keys
	NFunc                      // Name(Kids...)
	NExpref                    // &Kids[0]
	NVar                       // $Name (Name includes the '$')
	NLet                       // Keys = variable names, Kids[0..n-1] bindings, Kids[n] body
	NIdentity                  // the implicit right-hand side of a projection
)

type Node struct {
	Kind  NodeKind
	Name  string
	Op    string
	Val   V
	Raw   bool
	Kids  []*Node
	Idx   *big.Int
	Start *big.Int
	Stop  *big.Int
	Step  *big.Int
	Keys  []string
	// Paren: the node was written in parentheses (kept so that the printer
	// and the projection rule can see it; semantics: stops a projection).
	Paren bool
}

var ErrSyntax = errors.New("ref: syntax error")

// ParseStatus classifies a text.
type ParseStatus int

const (
	ParseOK     ParseStatus = iota // member of the grammar under every reading
	ParseGap                       // grammaticality (or meaning) not pinned: abstain
	ParseSyntax                    // not a member under any reading
)

type ParseResult struct {
	Status ParseStatus
	Node   *Node    // set when Status == ParseOK
	Gaps   []string // reasons for ParseGap
	Err    string   // reason for ParseSyntax
	// HasCall: an `identifier (` sequence occurs in the text (so static
	// function faults may be reported instead of a syntax error).
	HasCall bool
	// HasZeroStep: a ":0]" slice step occurs in the text.
	HasZeroStep bool
}

// binding powers (reference implementation's table, plus arithmetic)
func bp(k tokKind) int {
	switch k {
	case tPipe:
		return 1
	case tOr:
		return 2
	case tAnd:
		return 3
	case tEQ, tNE, tLT, tLE, tGT, tGE:
		return 5
	case tPlus, tMinus:
		return 6
	case tMul, tDiv, tIntDiv, tMod:
		return 7
	case tFlatten:
		return 9
	case tStar:
		return 20
	case tFilter:
		return 21
	case tDot:
		return 40
	case tNot:
		return 45
	case tLbrace:
		return 50
	case tLbracket:
		return 55
	case tLparen:
		return 60
	}
	return 0
}

const projectionStop = 10

type parser struct {
	toks []token
	i    int
	gaps []string
}

type syntaxError struct{ msg string }

func (e *syntaxError) Error() string { return e.msg }

func (p *parser) cur() token  { return p.toks[p.i] }
func (p *parser) peek() token { return p.toks[min(p.i+1, len(p.toks)-1)] }
func (p *parser) advance()    { p.i++ }
func (p *parser) fail(format string, a ...any) {
	panic(&syntaxError{fmt.Sprintf(format, a...)})
}
func (p *parser) gap(s string) { p.gaps = append(p.gaps, s) }

func (p *parser) match(k tokKind) token {
	t := p.cur()
	if t.k != k {
		p.fail("unexpected token %q at %d", t.text, t.pos)
	}
	p.advance()
	return t
}

// Parse parses a JMESPath expression.
func Parse(text string) (res ParseResult) {
	if !utf8.ValidString(text) {
		return ParseResult{Status: ParseSyntax, Err: "invalid UTF-8", HasCall: looksLikeCall(text), HasZeroStep: zeroStepRe.MatchString(text)}
	}
	res.HasZeroStep = zeroStepRe.MatchString(text)
	toks, gaps, err := lex(text)
	for i := 0; i+1 < len(toks); i++ {
		if toks[i].k == tUnquoted && toks[i+1].k == tLparen {
			res.HasCall = true
		}
	}
	if err != nil {
		// a lexical error after a call may still be reported as a static
		// function fault by an implementation that checks eagerly
		res.HasCall = looksLikeCall(text)
		res.Status = ParseSyntax
		res.Err = err.Error()
		if len(gaps) > 0 {
			res.Status = ParseGap
			res.Gaps = gaps
		}
		return res
	}
	p := &parser{toks: toks, gaps: gaps}
	defer func() {
		if r := recover(); r != nil {
			se, ok := r.(*syntaxError)
			if !ok {
				panic(r)
			}
			res.Node = nil
			if len(p.gaps) > 0 && !onlyKeywordGaps(p.gaps) {
				// a gap feature was met before the failure: the failure might be
				// an artefact of how the model read the gap feature
				// (not so for let/in: the model read them as identifiers, the most
				// permissive reading; where that fails, the reserved-word reading,
				// which rejects the identifier use itself, fails too)
				res.Status = ParseGap
				res.Gaps = p.gaps
				return
			}
			// spaced bracket tokens: some readings accept them
			if spacedBracketReading(toks) {
				res.Status = ParseGap
				res.Gaps = []string{"whitespace inside bracket token"}
				return
			}
			res.Status = ParseSyntax
			res.Err = se.msg
		}
	}()
	n := p.expression(0)
	if p.cur().k != tEOF {
		p.fail("unexpected token %q at %d", p.cur().text, p.cur().pos)
	}
	if len(p.gaps) > 0 {
		res.Status = ParseGap
		res.Gaps = p.gaps
		return res
	}
	res.Status = ParseOK
	res.Node = n
	return res
}

// spacedBracketReading: true when the token stream contains "[" ws "]",
// "[" ws "?" (impossible: ? is not a token) or "[" "*" "]" with whitespace in
// between - readings differ on those.
func spacedBracketReading(toks []token) bool {
	for i := 0; i+1 < len(toks); i++ {
		if toks[i].k == tLbracket {
			if toks[i+1].k == tRbracket {
				return true
			}
			if toks[i+1].k == tStar && i+2 < len(toks) && toks[i+2].k == tRbracket && (toks[i+1].wsBefore || toks[i+2].wsBefore) {
				return true
			}
		}
	}
	return false
}

func (p *parser) expression(rbp int) *Node {
	left := p.nud()
	for {
		t := p.cur()
		lbp := p.ledBP(t)
		if rbp >= lbp {
			break
		}
		left = p.led(left)
	}
	return left
}

// ledBP: binding power of the current token in infix position.  '*' in infix
// position is multiplication.
func (p *parser) ledBP(t token) int {
	if t.k == tStar {
		return bp(tMul)
	}
	return bp(t.k)
}

func isKeywordish(s string) bool { return s == "let" || s == "in" }

func onlyKeywordGaps(gaps []string) bool {
	for _, g := range gaps {
		if !strings.HasPrefix(g, "let/in used as") {
			return false
		}
	}
	return true
}

func (p *parser) nud() *Node {
	t := p.cur()
	switch t.k {
	case tUnquoted:
		if t.text == "let" && p.peek().k == tVariable {
			p.advance()
			return p.parseLet()
		}
		p.advance()
		if p.cur().k == tLparen {
			if isKeywordish(t.text) {
				p.gap("let/in used as a function name")
			}
			return p.parseCall(t.text)
		}
		if isKeywordish(t.text) {
			p.gap("let/in used as an identifier")
		}
		return &Node{Kind: NField, Name: t.text}
	case tQuoted:
		p.advance()
		s, ok, gap := unquoteIdentifier(t.text)
		if gap != "" {
			p.gap(gap)
		}
		if !ok {
			p.fail("bad quoted identifier %s", t.text)
		}
		if p.cur().k == tLparen {
			p.fail("quoted identifier cannot be a function name")
		}
		return &Node{Kind: NField, Name: s}
	case tRaw:
		p.advance()
		return &Node{Kind: NLiteral, Raw: true, Val: unquoteRaw(t.text)}
	case tLiteral:
		p.advance()
		v, ok, gap := parseLiteral(t.text)
		if gap != "" {
			p.gap(gap)
		}
		if !ok {
			p.fail("bad JSON literal %s", t.text)
		}
		return &Node{Kind: NLiteral, Val: v}
	case tVariable:
		p.advance()
		return &Node{Kind: NVar, Name: t.text}
	case tRoot:
		p.advance()
		return &Node{Kind: NRoot}
	case tCurrent:
		p.advance()
		return &Node{Kind: NCurrent}
	case tNot:
		p.advance()
		e := p.expression(bp(tNot))
		return &Node{Kind: NNot, Kids: []*Node{e}}
	case tPlus, tMinus:
		p.advance()
		// unary sign: binds tighter than every binary operator
		e := p.expression(bp(tMul))
		op := "+"
		if t.k == tMinus {
			op = "-"
		}
		return &Node{Kind: NUnary, Op: op, Kids: []*Node{e}}
	case tLparen:
		p.advance()
		e := p.expression(0)
		p.match(tRparen)
		// copy so that Paren does not leak onto shared nodes
		c := *e
		c.Paren = true
		return &c
	case tStar:
		p.advance()
		rhs := p.projectionRHS()
		return &Node{Kind: NValProj, Kids: []*Node{{Kind: NCurrent}, rhs}}
	case tFlatten:
		p.advance()
		rhs := p.projectionRHS()
		return &Node{Kind: NProj, Kids: []*Node{{Kind: NFlatten, Kids: []*Node{{Kind: NCurrent}}}, rhs}}
	case tFilter:
		p.advance()
		cond := p.expression(0)
		p.match(tRbracket)
		rhs := p.projectionRHS()
		p.checkFilterRHS(rhs)
		return &Node{Kind: NFilterProj, Kids: []*Node{{Kind: NCurrent}, rhs, cond}}
	case tLbrace:
		p.advance()
		return p.parseMultiHash()
	case tLbracket:
		p.advance()
		return p.bracket(&Node{Kind: NCurrent}, true)
	}
	p.fail("unexpected token %q at %d", t.text, t.pos)
	return nil
}

// bracket parses what follows "[" (already consumed).  nudPos: a
// multi-select list is allowed.
func (p *parser) bracket(left *Node, nudPos bool) *Node {
	t := p.cur()
	if t.k == tNumber || t.k == tColon {
		return p.indexOrSlice(left)
	}
	if t.k == tStar && p.peek().k == tRbracket {
		if t.wsBefore || p.peek().wsBefore {
			p.gap("whitespace inside [*]")
		}
		p.advance()
		p.advance()
		rhs := p.projectionRHS()
		return &Node{Kind: NProj, Kids: []*Node{left, rhs}}
	}
	if !nudPos {
		p.fail("unexpected token %q at %d after '['", t.text, t.pos)
	}
	return p.parseMultiList()
}

func parseInt(s string) (*big.Int, bool) {
	v, ok := new(big.Int).SetString(s, 10)
	return v, ok
}

var (
	minInt64 = new(big.Int).SetInt64(-1 << 63)
	maxInt64 = new(big.Int).SetInt64(1<<63 - 1)
)

func (p *parser) number() *big.Int {
	t := p.match(tNumber)
	v, ok := parseInt(t.text)
	if !ok {
		p.fail("bad number %q", t.text)
	}
	if v.Cmp(minInt64) < 0 || v.Cmp(maxInt64) > 0 {
		p.gap("integer literal beyond 64 bits")
	}
	return v
}

func (p *parser) indexOrSlice(left *Node) *Node {
	if p.cur().k == tNumber && p.peek().k == tRbracket {
		idx := p.number()
		p.match(tRbracket)
		return &Node{Kind: NIndex, Kids: []*Node{left}, Idx: idx}
	}
	// slice: [number] ":" [number] [ ":" [number] ]
	var parts [3]*big.Int
	idx := 0
	colons := 0
	for p.cur().k != tRbracket {
		t := p.cur()
		switch t.k {
		case tColon:
			colons++
			idx++
			if idx > 2 {
				p.fail("too many colons in slice")
			}
			p.advance()
		case tNumber:
			if parts[idx] != nil {
				p.fail("unexpected number in slice")
			}
			parts[idx] = p.number()
		default:
			p.fail("unexpected token %q in slice", t.text)
		}
	}
	p.match(tRbracket)
	if colons == 0 {
		p.fail("expected index or slice")
	}
	sl := &Node{Kind: NSlice, Kids: []*Node{left}, Start: parts[0], Stop: parts[1], Step: parts[2]}
	rhs := p.projectionRHS()
	return &Node{Kind: NProj, Kids: []*Node{sl, rhs}}
}

// projectionRHS parses the right-hand side of a projection: all following
// selectors, up to a token that binds less tightly than projectionStop.
func (p *parser) projectionRHS() *Node {
	t := p.cur()
	if p.ledBP(t) < projectionStop {
		return &Node{Kind: NIdentity}
	}
	switch t.k {
	case tLbracket:
		nk := p.peek().k
		star := nk == tStar && p.i+2 < len(p.toks) && p.toks[p.i+2].k == tRbracket
		if nk != tNumber && nk != tColon && !star {
			// "x[*][a, b]": the grammar has no such production, but the
			// reference implementation reads it as a multi-select: not judged
			p.gap("multi-select list directly after a projection")
		}
		return p.expression(projectionStop - 1)
	case tFilter:
		return p.expression(projectionStop - 1)
	case tDot:
		p.advance()
		first := p.dotRHS()
		// continue with the remaining selectors applied to first
		left := first
		for {
			lbp := p.ledBP(p.cur())
			if projectionStop-1 >= lbp {
				break
			}
			left = p.led(left)
		}
		return left
	}
	p.fail("unexpected token %q at %d after projection", t.text, t.pos)
	return nil
}

// dotRHS parses what may follow a ".": identifier, multi-select list/hash,
// function call, "*".
func (p *parser) dotRHS() *Node {
	t := p.cur()
	switch t.k {
	case tUnquoted, tQuoted:
		n := p.nud()
		if n.Kind == NLet {
			p.fail("let after dot")
		}
		return n
	case tStar:
		return p.nud()
	case tLbracket:
		p.advance()
		return p.parseMultiList()
	case tLbrace:
		p.advance()
		return p.parseMultiHash()
	}
	p.fail("unexpected token %q at %d after '.'", t.text, t.pos)
	return nil
}

func (p *parser) led(left *Node) *Node {
	t := p.cur()
	switch t.k {
	case tDot:
		p.advance()
		if p.cur().k == tStar {
			p.advance()
			rhs := p.projectionRHS()
			return &Node{Kind: NValProj, Kids: []*Node{left, rhs}}
		}
		right := p.dotRHS()
		return &Node{Kind: NSub, Kids: []*Node{left, right}}
	case tPipe:
		p.advance()
		right := p.expression(bp(tPipe))
		return &Node{Kind: NPipe, Kids: []*Node{left, right}}
	case tOr:
		p.advance()
		right := p.expression(bp(tOr))
		return &Node{Kind: NOr, Kids: []*Node{left, right}}
	case tAnd:
		p.advance()
		right := p.expression(bp(tAnd))
		return &Node{Kind: NAnd, Kids: []*Node{left, right}}
	case tEQ, tNE, tLT, tLE, tGT, tGE:
		p.advance()
		right := p.expression(bp(t.k))
		return &Node{Kind: NCmp, Op: t.text, Kids: []*Node{left, right}}
	case tPlus, tMinus, tMul, tDiv, tIntDiv, tMod, tStar:
		p.advance()
		k := t.k
		if k == tStar {
			k = tMul
		}
		right := p.expression(bp(k))
		op := t.text
		switch t.text {
		case "×":
			op = "*"
		case "÷":
			op = "/"
		case "−":
			op = "-"
		}
		return &Node{Kind: NArith, Op: op, Kids: []*Node{left, right}}
	case tFlatten:
		p.advance()
		rhs := p.projectionRHS()
		return &Node{Kind: NProj, Kids: []*Node{{Kind: NFlatten, Kids: []*Node{left}}, rhs}}
	case tFilter:
		p.advance()
		cond := p.expression(0)
		p.match(tRbracket)
		rhs := p.projectionRHS()
		p.checkFilterRHS(rhs)
		return &Node{Kind: NFilterProj, Kids: []*Node{left, rhs, cond}}
	case tLbracket:
		p.advance()
		return p.bracket(left, false)
	}
	p.fail("unexpected token %q at %d", t.text, t.pos)
	return nil
}

func (p *parser) parseMultiList() *Node {
	n := &Node{Kind: NMultiList}
	for {
		e := p.expression(0)
		n.Kids = append(n.Kids, e)
		if p.cur().k == tComma {
			p.advance()
			continue
		}
		p.match(tRbracket)
		return n
	}
}

func (p *parser) parseMultiHash() *Node {
	n := &Node{Kind: NMultiHash}
	seen := map[string]bool{}
	for {
		t := p.cur()
		var key string
		switch t.k {
		case tUnquoted:
			key = t.text
			if isKeywordish(key) {
				p.gap("let/in used as a key")
			}
			p.advance()
		case tQuoted:
			s, ok, gap := unquoteIdentifier(t.text)
			if gap != "" {
				p.gap(gap)
			}
			if !ok {
				p.fail("bad quoted identifier %s", t.text)
			}
			key = s
			p.advance()
		default:
			p.fail("unexpected token %q at %d: expected a key", t.text, t.pos)
		}
		p.match(tColon)
		e := p.expression(0)
		if seen[key] {
			p.gap("duplicate key in multi-select hash")
		}
		seen[key] = true
		n.Keys = append(n.Keys, key)
		n.Kids = append(n.Kids, e)
		if p.cur().k == tComma {
			p.advance()
			continue
		}
		p.match(tRbrace)
		return n
	}
}

func (p *parser) parseCall(name string) *Node {
	p.match(tLparen)
	n := &Node{Kind: NFunc, Name: name}
	if p.cur().k == tRparen {
		p.advance()
		return n
	}
	for {
		var arg *Node
		if p.cur().k == tExpref {
			p.advance()
			e := p.expression(0)
			arg = &Node{Kind: NExpref, Kids: []*Node{e}}
		} else {
			arg = p.expression(0)
		}
		n.Kids = append(n.Kids, arg)
		if p.cur().k == tComma {
			p.advance()
			continue
		}
		p.match(tRparen)
		return n
	}
}

func (p *parser) parseLet() *Node {
	n := &Node{Kind: NLet}
	seen := map[string]bool{}
	for {
		v := p.match(tVariable)
		p.match(tAssign)
		e := p.expression(0)
		// a name bound twice in one let: which binding wins is not pinned, but only a
		// reference to that very name depends on it (see EvalNode: such a reference abstains)
		seen[v.text] = true
		n.Keys = append(n.Keys, v.text)
		n.Kids = append(n.Kids, e)
		if p.cur().k == tComma {
			p.advance()
			continue
		}
		break
	}
	t := p.cur()
	if t.k != tUnquoted || t.text != "in" {
		p.fail("expected 'in' at %d", t.pos)
	}
	p.advance()
	body := p.expression(0)
	n.Kids = append(n.Kids, body)
	return n
}

// unquoteRaw decodes a raw string literal token (including quotes).
func unquoteRaw(tok string) string {
	s := tok[1 : len(tok)-1]
	var b strings.Builder
	for i := 0; i < len(s); i++ {
		if s[i] == '\\' && i+1 < len(s) && (s[i+1] == '\'' || s[i+1] == '\\') {
			b.WriteByte(s[i+1])
			i++
			continue
		}
		b.WriteByte(s[i])
	}
	return b.String()
}

// unquoteIdentifier decodes a quoted identifier token per the JSON string
// rules.  gap != "" marks spec-open cases.
func unquoteIdentifier(tok string) (out string, ok bool, gap string) {
	s := tok[1 : len(tok)-1]
	var b strings.Builder
	for i := 0; i < len(s); {
		c := s[i]
		if c != '\\' {
			r, sz := utf8.DecodeRuneInString(s[i:])
			b.WriteRune(r)
			i += sz
			continue
		}
		i++
		if i >= len(s) {
			return "", false, ""
		}
		switch s[i] {
		case '"':
			b.WriteByte('"')
		case '\\':
			b.WriteByte('\\')
		case '/':
			b.WriteByte('/')
		case 'b':
			b.WriteByte('\b')
		case 'f':
			b.WriteByte('\f')
		case 'n':
			b.WriteByte('\n')
		case 'r':
			b.WriteByte('\r')
		case 't':
			b.WriteByte('\t')
		case 'u':
			r, n, good := hex4(s[i+1:])
			if !good {
				return "", false, ""
			}
			i += n
			if utf16.IsSurrogate(r) {
				// needs a following low surrogate escape
				if r >= 0xDC00 {
					return "", true, "lone low surrogate escape"
				}
				if i+2 < len(s) && s[i+1] == '\\' && s[i+2] == 'u' {
					r2, n2, good2 := hex4(s[i+3:])
					if good2 && r2 >= 0xDC00 && r2 <= 0xDFFF {
						b.WriteRune(utf16.DecodeRune(r, r2))
						i += 2 + n2
						i++
						continue
					}
				}
				return "", true, "lone high surrogate escape"
			}
			b.WriteRune(r)
		default:
			return "", false, ""
		}
		i++
	}
	return b.String(), true, ""
}

func hex4(s string) (rune, int, bool) {
	if len(s) < 4 {
		return 0, 0, false
	}
	var r rune
	for i := 0; i < 4; i++ {
		c := s[i]
		switch {
		case c >= '0' && c <= '9':
			r = r*16 + rune(c-'0')
		case c >= 'a' && c <= 'f':
			r = r*16 + rune(c-'a'+10)
		case c >= 'A' && c <= 'F':
			r = r*16 + rune(c-'A'+10)
		default:
			return 0, 0, false
		}
	}
	return r, 4, true
}

// parseLiteral decodes a `...` token: backtick escapes removed, then strict
// JSON (own scanner, RFC 8259).
func parseLiteral(tok string) (V, bool, string) {
	s := tok[1 : len(tok)-1]
	s = strings.ReplaceAll(s, "\\`", "`")
	js := &jsonScanner{s: s}
	js.ws()
	v, ok := js.value(0)
	if !ok {
		return nil, false, js.gap
	}
	js.ws()
	if js.i != len(js.s) {
		return nil, false, js.gap
	}
	return v, true, js.gap
}

// jsonScanner is a strict RFC 8259 parser producing model values.
type jsonScanner struct {
	s   string
	i   int
	gap string
}

func (j *jsonScanner) ws() {
	for j.i < len(j.s) && (j.s[j.i] == ' ' || j.s[j.i] == '\t' || j.s[j.i] == '\n' || j.s[j.i] == '\r') {
		j.i++
	}
}

func (j *jsonScanner) value(depth int) (V, bool) {
	if depth > 5000 {
		j.gap = "literal nesting beyond model bound"
		return nil, false
	}
	if j.i >= len(j.s) {
		return nil, false
	}
	c := j.s[j.i]
	switch {
	case c == '{':
		j.i++
		o := NewObj()
		j.ws()
		if j.i < len(j.s) && j.s[j.i] == '}' {
			j.i++
			return o, true
		}
		for {
			j.ws()
			if j.i >= len(j.s) || j.s[j.i] != '"' {
				return nil, false
			}
			k, ok := j.str()
			if !ok {
				return nil, false
			}
			j.ws()
			if j.i >= len(j.s) || j.s[j.i] != ':' {
				return nil, false
			}
			j.i++
			j.ws()
			v, ok := j.value(depth + 1)
			if !ok {
				return nil, false
			}
			if _, dup := o.M[k]; dup {
				j.gap = "duplicate key in JSON literal"
			}
			o.Set(k, v)
			j.ws()
			if j.i < len(j.s) && j.s[j.i] == ',' {
				j.i++
				continue
			}
			if j.i < len(j.s) && j.s[j.i] == '}' {
				j.i++
				return o, true
			}
			return nil, false
		}
	case c == '[':
		j.i++
		a := &Arr{E: []V{}}
		j.ws()
		if j.i < len(j.s) && j.s[j.i] == ']' {
			j.i++
			return a, true
		}
		for {
			j.ws()
			v, ok := j.value(depth + 1)
			if !ok {
				return nil, false
			}
			a.E = append(a.E, v)
			j.ws()
			if j.i < len(j.s) && j.s[j.i] == ',' {
				j.i++
				continue
			}
			if j.i < len(j.s) && j.s[j.i] == ']' {
				j.i++
				return a, true
			}
			return nil, false
		}
	case c == '"':
		s, ok := j.str()
		if !ok {
			return nil, false
		}
		return s, true
	case c == 't':
		if strings.HasPrefix(j.s[j.i:], "true") {
			j.i += 4
			return true, true
		}
		return nil, false
	case c == 'f':
		if strings.HasPrefix(j.s[j.i:], "false") {
			j.i += 5
			return false, true
		}
		return nil, false
	case c == 'n':
		if strings.HasPrefix(j.s[j.i:], "null") {
			j.i += 4
			return nil, true
		}
		return nil, false
	case c == '-' || c >= '0' && c <= '9':
		st := j.i
		for j.i < len(j.s) && strings.IndexByte("+-0123456789.eE", j.s[j.i]) >= 0 {
			j.i++
		}
		txt := j.s[st:j.i]
		if !IsJSONNumber(txt) {
			return nil, false
		}
		n, ok := ParseNumber(txt)
		if !ok {
			j.gap = "number literal outside the model's range"
			return IntNum(0), true
		}
		return n, true
	}
	return nil, false
}

func (j *jsonScanner) str() (string, bool) {
	// at opening quote
	j.i++
	var b strings.Builder
	for j.i < len(j.s) {
		c := j.s[j.i]
		switch {
		case c == '"':
			j.i++
			return b.String(), true
		case c < 0x20:
			return "", false
		case c == '\\':
			j.i++
			if j.i >= len(j.s) {
				return "", false
			}
			switch j.s[j.i] {
			case '"':
				b.WriteByte('"')
			case '\\':
				b.WriteByte('\\')
			case '/':
				b.WriteByte('/')
			case 'b':
				b.WriteByte('\b')
			case 'f':
				b.WriteByte('\f')
			case 'n':
				b.WriteByte('\n')
			case 'r':
				b.WriteByte('\r')
			case 't':
				b.WriteByte('\t')
			case 'u':
				r, n, ok := hex4(j.s[j.i+1:])
				if !ok {
					return "", false
				}
				j.i += n
				if utf16.IsSurrogate(r) {
					paired := false
					if r < 0xDC00 && j.i+2 < len(j.s) && j.s[j.i+1] == '\\' && j.s[j.i+2] == 'u' {
						r2, n2, ok2 := hex4(j.s[j.i+3:])
						if ok2 && r2 >= 0xDC00 && r2 <= 0xDFFF {
							b.WriteRune(utf16.DecodeRune(r, r2))
							j.i += 2 + n2
							paired = true
						}
					}
					if !paired {
						j.gap = "lone surrogate escape in JSON literal"
						b.WriteRune(utf8.RuneError)
					}
				} else {
					b.WriteRune(r)
				}
			default:
				return "", false
			}
			j.i++
		default:
			r, sz := utf8.DecodeRuneInString(j.s[j.i:])
			b.WriteRune(r)
			j.i += sz
		}
	}
	return "", false
}

// checkFilterRHS: in the right-hand side of a filter projection, a later
// filter at the same level ("a[?x].b[?y]") is read by the reference
// implementation as a filter of the projected result, not of each element.
// The model does not judge such texts.
func (p *parser) checkFilterRHS(rhs *Node) {
	n := rhs
	first := true
	for n != nil {
		if n.Paren {
			return
		}
		switch n.Kind {
		case NFilterProj:
			if !(first && n.Kids[0].Kind == NCurrent) {
				p.gap("filter inside the right-hand side of a filter projection")
				return
			}
			// "[?x][?y]": directly adjacent filters nest in every reading
			if n.Kids[0].Kind != NCurrent {
				p.gap("filter inside the right-hand side of a filter projection")
				return
			}
			return
		case NSub, NIndex, NSlice, NProj, NFlatten, NValProj:
			// walk down the spine: the subject is applied first
			if hasFilterOnSpine(n.Kids[0]) {
				p.gap("filter inside the right-hand side of a filter projection")
			}
			return
		default:
			return
		}
	}
}

func hasFilterOnSpine(n *Node) bool {
	for n != nil && !n.Paren {
		switch n.Kind {
		case NFilterProj:
			return true
		case NSub, NIndex, NSlice, NProj, NFlatten, NValProj:
			n = n.Kids[0]
		default:
			return false
		}
	}
	return false
}

// TokenSpans returns the [start, end) byte spans of the tokens of text (nil
// if it does not lex).
func TokenSpans(text string) [][2]int {
	toks, _, err := lex(text)
	if err != nil {
		return nil
	}
	var out [][2]int
	for _, t := range toks {
		if t.k == tEOF {
			break
		}
		out = append(out, [2]int{t.pos, t.pos + len(t.text)})
	}
	return out
}

// looksLikeCall: an identifier character followed (after whitespace) by '('.
func looksLikeCall(text string) bool {
	for i := 0; i < len(text); i++ {
		if text[i] != '(' {
			continue
		}
		j := i - 1
		for j >= 0 && (text[j] == ' ' || text[j] == '\t' || text[j] == '\n' || text[j] == '\r') {
			j--
		}
		if j >= 0 {
			c := text[j]
			if c == '_' || c >= 'a' && c <= 'z' || c >= 'A' && c <= 'Z' || c >= '0' && c <= '9' {
				return true
			}
		}
	}
	return false
}

var zeroStepRe = regexp.MustCompile(`:\s*-?0+\s*\]`)
