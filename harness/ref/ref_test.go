package ref

import "testing"

func TestCorpus(t *testing.T) {
	cs, err := LoadCorpus("/repo/testdata/compliance")
	if err != nil {
		t.Fatal(err)
	}
	dis, dec, abst := Calibrate(cs)
	t.Logf("cases=%d decided=%d abstained=%d disagreements=%d", len(cs), dec, abst, len(dis))
	for _, d := range dis {
		t.Error(d)
	}
}

func TestAbstained(t *testing.T) {
	cs, _ := LoadCorpus("/repo/testdata/compliance")
	for _, c := range cs {
		o := Search(c.Expr, c.Given)
		if o.Unspec {
			t.Logf("%s %q: %s", c.File, c.Expr, o.Why)
		}
	}
}
