package ref

import (
	"encoding/json"
	"fmt"
	"os"
	"path/filepath"
	"sort"
	"strings"
)

// CorpusCase is one case of the compliance corpus.
type CorpusCase struct {
	File      string
	Expr      string
	GivenText string
	Given     V
	HasResult bool
	Result    V
	Error     string
}

// LoadCorpus reads every *.json under dir (the upstream compliance corpus).
func LoadCorpus(dir string) ([]CorpusCase, error) {
	files, err := filepath.Glob(filepath.Join(dir, "*.json"))
	if err != nil {
		return nil, err
	}
	sort.Strings(files)
	var out []CorpusCase
	for _, f := range files {
		raw, err := os.ReadFile(f)
		if err != nil {
			return nil, err
		}
		var groups []struct {
			Given json.RawMessage `json:"given"`
			Cases []struct {
				Expression string          `json:"expression"`
				Result     json.RawMessage `json:"result"`
				Error      string          `json:"error"`
			} `json:"cases"`
		}
		if err := json.Unmarshal(raw, &groups); err != nil {
			return nil, fmt.Errorf("%s: %v", f, err)
		}
		for _, g := range groups {
			gv, err := FromJSON(string(g.Given))
			if err != nil {
				return nil, fmt.Errorf("%s: given: %v", f, err)
			}
			for _, c := range g.Cases {
				cc := CorpusCase{File: filepath.Base(f), Expr: c.Expression, GivenText: string(g.Given), Given: gv, Error: c.Error}
				if c.Error == "" {
					cc.HasResult = true
					txt := string(c.Result)
					if txt == "" {
						txt = "null"
					}
					rv, err := FromJSON(txt)
					if err != nil {
						return nil, fmt.Errorf("%s: result of %q: %v", f, c.Expression, err)
					}
					cc.Result = rv
				}
				out = append(out, cc)
			}
		}
	}
	return out, nil
}

// CatFromName maps the corpus' error names to categories.
func CatFromName(s string) Cat {
	switch s {
	case "syntax":
		return CatSyntax
	case "invalid-arity":
		return CatArity
	case "unknown-function":
		return CatUnknownFn
	case "invalid-type":
		return CatType
	case "invalid-value":
		return CatValue
	case "undefined-variable":
		return CatUndefVar
	case "not-a-number":
		return CatNaN
	}
	return 0
}

// Calibrate runs the model over the corpus and returns the disagreements
// (the model contradicting a case the corpus determines) plus counts.
func Calibrate(cases []CorpusCase) (disagree []string, decided, abstained int) {
	for _, c := range cases {
		o := Search(c.Expr, c.Given)
		if o.Unspec {
			abstained++
			continue
		}
		decided++
		if c.HasResult {
			if o.Fault != 0 {
				disagree = append(disagree, fmt.Sprintf("%s: %q: corpus=%s model=%s", c.File, c.Expr, Show(c.Result), o))
				continue
			}
			// corpus arrays from object enumeration are listed in some order:
			// compare as the model says (unordered where it says so)
			if !Match(o.Val, c.Result) && !matchLoose(o.Val, c.Result) {
				disagree = append(disagree, fmt.Sprintf("%s: %q: corpus=%s model=%s", c.File, c.Expr, Show(c.Result), o))
			}
		} else {
			want := CatFromName(c.Error)
			if o.Fault == 0 {
				if o.OptFault&want != 0 {
					continue
				}
				disagree = append(disagree, fmt.Sprintf("%s: %q: corpus=error %s model=%s", c.File, c.Expr, c.Error, o))
				continue
			}
			if o.Fault&want == 0 {
				disagree = append(disagree, fmt.Sprintf("%s: %q: corpus=error %s model=%s", c.File, c.Expr, c.Error, o))
			}
		}
	}
	return
}

// matchLoose tolerates the corpus' float spellings of non-terminating
// results (e.g. 0.666...6 with 48 digits for 2/3).
func matchLoose(want, got V) bool {
	w, ok1 := want.(Num)
	g, ok2 := got.(Num)
	if ok1 && ok2 && w.Ulp != nil {
		return Match(w, g)
	}
	return false
}

var _ = strings.Join
