package ref

import (
	"fmt"
	"unicode/utf8"
)

type tokKind int

const (
	tEOF tokKind = iota
	tUnquoted
	tQuoted
	tRaw
	tLiteral
	tNumber
	tVariable
	tRoot
	tCurrent
	tExpref
	tLparen
	tRparen
	tLbrace
	tRbrace
	tLbracket
	tRbracket
	tFlatten
	tFilter
	tStar
	tDot
	tComma
	tColon
	tPipe
	tOr
	tAnd
	tNot
	tEQ
	tNE
	tLT
	tLE
	tGT
	tGE
	tPlus
	tMinus
	tMul // × (and '*' in binary position, resolved by the parser)
	tDiv
	tIntDiv
	tMod
	tAssign
)

type token struct {
	k    tokKind
	text string // raw text
	pos  int
	// wsBefore: whitespace preceded this token
	wsBefore bool
}

// lexError is a lexical error.  gap=true marks inputs whose status the
// specification leaves open (the model abstains).
type lexError struct {
	msg string
	pos int
}

func (e *lexError) Error() string { return fmt.Sprintf("lex error at %d: %s", e.pos, e.msg) }

// lex splits the expression into tokens.  gaps collects "gap features" seen
// (constructs whose grammaticality the model does not judge).
func lex(s string) (toks []token, gaps []string, err error) {
	i := 0
	n := len(s)
	ws := false
	emit := func(k tokKind, start, end int) {
		toks = append(toks, token{k: k, text: s[start:end], pos: start, wsBefore: ws})
		ws = false
	}
	for i < n {
		c := s[i]
		switch {
		case c == ' ' || c == '\t' || c == '\n' || c == '\r':
			i++
			ws = true
			continue
		case c >= 'A' && c <= 'Z' || c >= 'a' && c <= 'z' || c == '_':
			st := i
			for i < n && (s[i] >= 'A' && s[i] <= 'Z' || s[i] >= 'a' && s[i] <= 'z' || s[i] == '_' || s[i] >= '0' && s[i] <= '9') {
				i++
			}
			emit(tUnquoted, st, i)
		case c >= '0' && c <= '9':
			st := i
			for i < n && s[i] >= '0' && s[i] <= '9' {
				i++
			}
			emit(tNumber, st, i)
		case c == '-':
			if i+1 < n && s[i+1] >= '0' && s[i+1] <= '9' {
				st := i
				i++
				for i < n && s[i] >= '0' && s[i] <= '9' {
					i++
				}
				emit(tNumber, st, i)
			} else {
				emit(tMinus, i, i+1)
				i++
			}
		case c == '"':
			st := i
			i++
			closed := false
			for i < n {
				if s[i] == '\\' {
					i++
					if i < n {
						_, sz := utf8.DecodeRuneInString(s[i:])
						i += sz
					}
					continue
				}
				if s[i] == '"' {
					i++
					closed = true
					break
				}
				if s[i] < 0x20 {
					gaps = append(gaps, "raw control character in quoted identifier")
				}
				i++
			}
			if !closed {
				return nil, gaps, &lexError{"unterminated quoted identifier", st}
			}
			emit(tQuoted, st, i)
		case c == '\'':
			st := i
			i++
			closed := false
			for i < n {
				if s[i] == '\\' {
					i++
					if i < n {
						_, sz := utf8.DecodeRuneInString(s[i:])
						i += sz
					}
					continue
				}
				if s[i] == '\'' {
					i++
					closed = true
					break
				}
				i++
			}
			if !closed {
				return nil, gaps, &lexError{"unterminated raw string", st}
			}
			emit(tRaw, st, i)
		case c == '`':
			st := i
			i++
			closed := false
			for i < n {
				if s[i] == '\\' {
					i++
					if i < n {
						_, sz := utf8.DecodeRuneInString(s[i:])
						i += sz
					}
					continue
				}
				if s[i] == '`' {
					i++
					closed = true
					break
				}
				i++
			}
			if !closed {
				return nil, gaps, &lexError{"unterminated literal", st}
			}
			emit(tLiteral, st, i)
		case c == '$':
			st := i
			i++
			if i < n && (s[i] >= 'A' && s[i] <= 'Z' || s[i] >= 'a' && s[i] <= 'z' || s[i] == '_') {
				for i < n && (s[i] >= 'A' && s[i] <= 'Z' || s[i] >= 'a' && s[i] <= 'z' || s[i] == '_' || s[i] >= '0' && s[i] <= '9') {
					i++
				}
				emit(tVariable, st, i)
			} else {
				emit(tRoot, st, i)
			}
		case c == '@':
			emit(tCurrent, i, i+1)
			i++
		case c == '&':
			if i+1 < n && s[i+1] == '&' {
				emit(tAnd, i, i+2)
				i += 2
			} else {
				emit(tExpref, i, i+1)
				i++
			}
		case c == '(':
			emit(tLparen, i, i+1)
			i++
		case c == ')':
			emit(tRparen, i, i+1)
			i++
		case c == '{':
			emit(tLbrace, i, i+1)
			i++
		case c == '}':
			emit(tRbrace, i, i+1)
			i++
		case c == '[':
			if i+1 < n && s[i+1] == ']' {
				emit(tFlatten, i, i+2)
				i += 2
			} else if i+1 < n && s[i+1] == '?' {
				emit(tFilter, i, i+2)
				i += 2
			} else {
				emit(tLbracket, i, i+1)
				i++
			}
		case c == ']':
			emit(tRbracket, i, i+1)
			i++
		case c == '*':
			emit(tStar, i, i+1)
			i++
		case c == '.':
			emit(tDot, i, i+1)
			i++
		case c == ',':
			emit(tComma, i, i+1)
			i++
		case c == ':':
			emit(tColon, i, i+1)
			i++
		case c == '|':
			if i+1 < n && s[i+1] == '|' {
				emit(tOr, i, i+2)
				i += 2
			} else {
				emit(tPipe, i, i+1)
				i++
			}
		case c == '!':
			if i+1 < n && s[i+1] == '=' {
				emit(tNE, i, i+2)
				i += 2
			} else {
				emit(tNot, i, i+1)
				i++
			}
		case c == '=':
			if i+1 < n && s[i+1] == '=' {
				emit(tEQ, i, i+2)
				i += 2
			} else {
				emit(tAssign, i, i+1)
				i++
			}
		case c == '<':
			if i+1 < n && s[i+1] == '=' {
				emit(tLE, i, i+2)
				i += 2
			} else {
				emit(tLT, i, i+1)
				i++
			}
		case c == '>':
			if i+1 < n && s[i+1] == '=' {
				emit(tGE, i, i+2)
				i += 2
			} else {
				emit(tGT, i, i+1)
				i++
			}
		case c == '+':
			emit(tPlus, i, i+1)
			i++
		case c == '/':
			if i+1 < n && s[i+1] == '/' {
				emit(tIntDiv, i, i+2)
				i += 2
			} else {
				emit(tDiv, i, i+1)
				i++
			}
		case c == '%':
			emit(tMod, i, i+1)
			i++
		default:
			r, sz := utf8.DecodeRuneInString(s[i:])
			switch r {
			case '×':
				emit(tMul, i, i+sz)
			case '÷':
				emit(tDiv, i, i+sz)
			case '−':
				emit(tMinus, i, i+sz)
			default:
				return nil, gaps, &lexError{fmt.Sprintf("unexpected character %q", r), i}
			}
			i += sz
		}
	}
	toks = append(toks, token{k: tEOF, pos: n, wsBefore: ws})
	return toks, gaps, nil
}
