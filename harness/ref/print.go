package ref

import (
	"encoding/json"
	"fmt"
	"strings"
	"unicode/utf8"
)

// PrintOpts controls spelling variation.  The zero value prints a compact
// canonical form.
// Rander is the randomness the printer needs.
type Rander interface{ Intn(n int) int }

type PrintOpts struct {
	Rand Rander // nil: deterministic canonical spelling
	// WS: probability (0..100) of inserting whitespace at a token gap
	WS int
	// Unicode: probability of using × ÷ − spellings
	Unicode int
	// Quote: probability of quoting an identifier that needs no quotes
	Quote int
	// RawStrings: probability of writing a string literal as a raw string
	RawStrings int
	// Parens: probability of adding redundant parentheses around a non-projection operand
	Parens int
}

type printer struct {
	o PrintOpts
	b strings.Builder
}

// Print renders an AST canonically.
func Print(n *Node) string { return PrintWith(n, PrintOpts{RawStrings: 100}) }

func PrintWith(n *Node, o PrintOpts) string {
	p := &printer{o: o}
	p.expr(n, 0)
	return p.b.String()
}

func (p *printer) chance(pct int) bool {
	if p.o.Rand == nil || pct <= 0 {
		return pct >= 100
	}
	return p.o.Rand.Intn(100) < pct
}

func (p *printer) ws() {
	if p.o.Rand != nil && p.o.WS > 0 && p.o.Rand.Intn(100) < p.o.WS {
		p.b.WriteString([]string{" ", " ", "  ", "\t", "\n", "\r\n"}[p.o.Rand.Intn(6)])
	}
}

func (p *printer) tok(s string) {
	p.ws()
	p.b.WriteString(s)
}

// precedence levels for parenthesisation
func prec(n *Node) int {
	if n.Paren {
		return 100
	}
	switch n.Kind {
	case NLet:
		return 0
	case NPipe:
		return 1
	case NOr:
		return 2
	case NAnd:
		return 3
	case NCmp:
		return 5
	case NArith:
		if n.Op == "+" || n.Op == "-" {
			return 6
		}
		return 7
	case NUnary:
		return 8
	case NNot:
		return 45
	case NProj, NValProj, NFilterProj:
		return 50
	case NSub, NIndex, NSlice, NFlatten:
		return 60
	}
	return 100
}

func isProjection(n *Node) bool {
	if n.Paren {
		return false
	}
	switch n.Kind {
	case NProj, NValProj, NFilterProj:
		return true
	}
	return false
}

// leftmostImplicit reports whether printing n starts with an implicit
// current node (i.e. with '[' or '*' applied to @ rather than an operand).
func leftmostImplicit(n *Node) bool {
	if n.Paren {
		return false
	}
	switch n.Kind {
	case NSub, NIndex, NSlice, NFlatten, NProj, NValProj, NFilterProj:
		k := n.Kids[0]
		if k.Kind == NCurrent && !k.Paren {
			return n.Kind != NSub && n.Kind != NValProj
		}
		return leftmostImplicit(k)
	}
	return false
}

func (p *printer) expr(n *Node, ctx int) {
	need := prec(n) < ctx
	if !need && !isProjection(n) && n.Kind != NIdentity && p.o.Rand != nil && p.chance(p.o.Parens) && p.o.Parens < 100 {
		need = true
	}
	if n.Paren {
		need = true
	}
	if need {
		p.tok("(")
		c := *n
		c.Paren = false
		p.expr1(&c)
		p.tok(")")
		return
	}
	p.expr1(n)
}

func identNeedsQuote(s string) bool {
	if s == "" || s == "let" || s == "in" {
		return true
	}
	for i := 0; i < len(s); i++ {
		c := s[i]
		ok := c >= 'a' && c <= 'z' || c >= 'A' && c <= 'Z' || c == '_' || (i > 0 && c >= '0' && c <= '9')
		if !ok {
			return true
		}
	}
	return false
}

// QuoteIdent renders a quoted identifier for s.
func QuoteIdent(s string) string {
	j, _ := json.Marshal(s)
	// json.Marshal escapes <,>,& as < etc: legal in quoted identifiers
	return string(j)
}

func (p *printer) ident(s string) {
	if identNeedsQuote(s) || (p.o.Rand != nil && p.chance(p.o.Quote)) {
		p.tok(QuoteIdent(s))
	} else {
		p.tok(s)
	}
}

// RawString renders a raw string literal for s.
func RawString(s string) string {
	var b strings.Builder
	b.WriteByte('\'')
	for i := 0; i < len(s); i++ {
		if s[i] == '\'' || s[i] == '\\' {
			b.WriteByte('\\')
		}
		b.WriteByte(s[i])
	}
	b.WriteByte('\'')
	return b.String()
}

// JSONLiteral renders v between backticks.
func JSONLiteral(v V) string {
	return "`" + strings.ReplaceAll(ToJSONText(v), "`", "\\`") + "`"
}

// ToJSONText renders a model value as JSON text (numbers in plain exact
// decimal spelling).
func ToJSONText(v V) string {
	var b strings.Builder
	writeJSON(&b, v)
	return b.String()
}

func writeJSON(b *strings.Builder, v V) {
	switch v := v.(type) {
	case nil:
		b.WriteString("null")
	case bool:
		if v {
			b.WriteString("true")
		} else {
			b.WriteString("false")
		}
	case string:
		b.WriteString(jsonString(v))
	case Num:
		b.WriteString(NumText(v))
	case *Arr:
		b.WriteByte('[')
		for i, e := range v.E {
			if i > 0 {
				b.WriteByte(',')
			}
			writeJSON(b, e)
		}
		b.WriteByte(']')
	case *Obj:
		b.WriteByte('{')
		for i, k := range v.Keys {
			if i > 0 {
				b.WriteByte(',')
			}
			b.WriteString(jsonString(k))
			b.WriteByte(':')
			writeJSON(b, v.M[k])
		}
		b.WriteByte('}')
	default:
		panic(fmt.Sprintf("writeJSON: %T", v))
	}
}

// jsonString: minimal JSON string escaping (only what RFC 8259 requires).
func jsonString(s string) string {
	var b strings.Builder
	b.WriteByte('"')
	for _, r := range s {
		switch {
		case r == '"':
			b.WriteString(`\"`)
		case r == '\\':
			b.WriteString(`\\`)
		case r < 0x20:
			fmt.Fprintf(&b, `\u%04x`, r)
		default:
			b.WriteRune(r)
		}
	}
	b.WriteByte('"')
	return b.String()
}

func (p *printer) literal(n *Node) {
	if s, ok := n.Val.(string); ok && utf8.ValidString(s) {
		raw := n.Raw
		if p.o.Rand != nil {
			raw = p.chance(p.o.RawStrings)
		} else if p.o.RawStrings >= 100 {
			raw = true
		}
		if raw && !hasControl(s) {
			p.tok(RawString(s))
			return
		}
	}
	p.tok(JSONLiteral(n.Val))
}

func hasControl(s string) bool {
	for i := 0; i < len(s); i++ {
		if s[i] < 0x20 {
			return true
		}
	}
	return false
}

func (p *printer) binop(op string) {
	if p.o.Rand != nil && p.chance(p.o.Unicode) {
		switch op {
		case "*":
			op = "×"
		case "/":
			op = "÷"
		case "-":
			op = "−"
		}
	}
	p.b.WriteString(" ")
	p.tok(op)
	p.b.WriteString(" ")
}

// subject prints the subject of a postfix selector.
func (p *printer) subject(k *Node, forFlatten bool) bool {
	if k.Kind == NCurrent && !k.Paren {
		return false // implicit
	}
	if isProjection(k) && !forFlatten {
		p.tok("(")
		p.expr1(k)
		p.tok(")")
		return true
	}
	switch {
	case k.Paren:
		p.expr(k, 0)
	case k.Kind == NNot || k.Kind == NUnary || k.Kind == NLet || prec(k) < 45:
		p.tok("(")
		p.expr1(k)
		p.tok(")")
	default:
		p.expr1(k)
	}
	return true
}

// rhs prints the right-hand side of a projection.
func (p *printer) rhs(r *Node) {
	if r.Kind == NIdentity {
		return
	}
	if leftmostImplicit(r) {
		p.expr1(r)
		return
	}
	p.tok(".")
	p.expr1(r)
}

func (p *printer) num(v interface{ String() string }) {
	p.tok(v.String())
}

func (p *printer) expr1(n *Node) {
	switch n.Kind {
	case NIdentity:
	case NCurrent:
		p.tok("@")
	case NRoot:
		p.tok("$")
	case NField:
		p.ident(n.Name)
	case NLiteral:
		p.literal(n)
	case NVar:
		p.tok(n.Name)
	case NIndex:
		p.subject(n.Kids[0], false)
		p.tok("[")
		p.num(n.Idx)
		p.tok("]")
	case NSlice:
		p.subject(n.Kids[0], false)
		p.tok("[")
		if n.Start != nil {
			p.num(n.Start)
		}
		p.tok(":")
		if n.Stop != nil {
			p.num(n.Stop)
		}
		if n.Step != nil {
			p.tok(":")
			p.num(n.Step)
		} else if p.o.Rand != nil && p.o.Rand.Intn(4) == 0 {
			p.tok(":")
		}
		p.tok("]")
	case NFlatten:
		p.subject(n.Kids[0], true)
		p.tok("[]")
	case NProj:
		src := n.Kids[0]
		if src.Kind == NSlice || src.Kind == NFlatten {
			p.expr1(src)
		} else {
			p.subject(src, false)
			p.tok("[*]")
		}
		p.rhs(n.Kids[1])
	case NValProj:
		if p.subject(n.Kids[0], false) {
			p.tok(".")
		}
		p.tok("*")
		p.rhs(n.Kids[1])
	case NFilterProj:
		p.subject(n.Kids[0], false)
		p.tok("[?")
		p.expr(n.Kids[2], 0)
		p.tok("]")
		p.rhs(n.Kids[1])
	case NSub:
		l, r := n.Kids[0], n.Kids[1]
		switch r.Kind {
		case NField, NFunc, NMultiList, NMultiHash:
			if r.Paren {
				// not expressible after a dot
				p.expr(l, 2)
				p.b.WriteString(" | ")
				p.expr(r, 2)
				return
			}
			if l.Kind == NCurrent && !l.Paren {
				p.tok("@")
			} else {
				p.subject(l, false)
			}
			p.tok(".")
			p.expr1(r)
		default:
			// not expressible after a dot: print the equivalent pipe
			p.expr(l, 2)
			p.b.WriteString(" | ")
			p.expr(r, 2)
		}
	case NPipe:
		p.expr(n.Kids[0], 1)
		p.b.WriteString(" ")
		p.tok("|")
		p.b.WriteString(" ")
		p.expr(n.Kids[1], 2)
	case NOr:
		p.expr(n.Kids[0], 2)
		p.binop("||")
		p.expr(n.Kids[1], 3)
	case NAnd:
		p.expr(n.Kids[0], 3)
		p.binop("&&")
		p.expr(n.Kids[1], 4)
	case NCmp:
		p.expr(n.Kids[0], 5)
		p.binop(n.Op)
		p.expr(n.Kids[1], 6)
	case NArith:
		pr := prec(n)
		p.expr(n.Kids[0], pr)
		p.binop(n.Op)
		p.expr(n.Kids[1], pr+1)
	case NUnary:
		op := n.Op
		if op == "-" && p.o.Rand != nil && p.chance(p.o.Unicode) {
			op = "−"
		}
		p.tok(op)
		p.b.WriteString(" ")
		p.expr(n.Kids[0], 8)
	case NNot:
		p.tok("!")
		k := n.Kids[0]
		if prec(k) >= 100 || k.Kind == NNot {
			p.expr(k, 0)
		} else {
			p.tok("(")
			p.expr1(k)
			p.tok(")")
		}
	case NMultiList:
		p.tok("[")
		for i, k := range n.Kids {
			if i > 0 {
				p.tok(",")
				p.b.WriteString(" ")
			}
			p.expr(k, 0)
		}
		p.tok("]")
	case NMultiHash:
		p.tok("{")
		for i, k := range n.Kids {
			if i > 0 {
				p.tok(",")
				p.b.WriteString(" ")
			}
			p.ident(n.Keys[i])
			p.tok(":")
			p.b.WriteString(" ")
			p.expr(k, 0)
		}
		p.tok("}")
	case NFunc:
		p.tok(n.Name)
		p.tok("(")
		for i, k := range n.Kids {
			if i > 0 {
				p.tok(",")
				p.b.WriteString(" ")
			}
			p.expr(k, 0)
		}
		p.tok(")")
	case NExpref:
		p.tok("&")
		p.expr(n.Kids[0], 0)
	case NLet:
		p.tok("let")
		p.b.WriteString(" ")
		nb := len(n.Keys)
		for i := 0; i < nb; i++ {
			if i > 0 {
				p.tok(",")
				p.b.WriteString(" ")
			}
			p.tok(n.Keys[i])
			p.b.WriteString(" ")
			p.tok("=")
			p.b.WriteString(" ")
			p.expr(n.Kids[i], 1)
		}
		p.b.WriteString(" ")
		p.tok("in")
		p.b.WriteString(" ")
		p.expr(n.Kids[nb], 0)
	default:
		panic(fmt.Sprintf("print: kind %d", n.Kind))
	}
}

// FullParen renders n with explicit parentheses around every operator
// sub-expression (binary, unary, not, pipe).
func FullParen(n *Node) string {
	return Print(fullParen(n, true))
}

func fullParen(n *Node, top bool) *Node {
	if n == nil {
		return nil
	}
	c := *n
	c.Kids = make([]*Node, len(n.Kids))
	for i, k := range n.Kids {
		c.Kids[i] = fullParen(k, false)
	}
	switch n.Kind {
	case NPipe, NOr, NAnd, NCmp, NArith, NUnary, NNot:
		if !top {
			c.Paren = true
		}
	}
	return &c
}

// IsBareIdentifier reports whether s can be written as an unquoted identifier.
func IsBareIdentifier(s string) bool { return !identNeedsQuote(s) }
