package ref

import (
	"math/big"
)

// Match reports whether got (a model value obtained from an actual result)
// is admissible for want (a model value possibly carrying tolerances and
// unordered arrays).
func Match(want, got V) bool {
	switch w := want.(type) {
	case nil:
		return got == nil
	case bool:
		g, ok := got.(bool)
		return ok && g == w
	case string:
		g, ok := got.(string)
		return ok && g == w
	case Num:
		g, ok := got.(Num)
		if !ok {
			return false
		}
		if w.Ulp == nil {
			return w.R.Cmp(g.R) == 0
		}
		d := new(big.Rat).Sub(w.R, g.R)
		d.Abs(d)
		return d.Cmp(w.Ulp) <= 0
	case *Arr:
		g, ok := got.(*Arr)
		if !ok || len(g.E) != len(w.E) {
			return false
		}
		if !w.Unordered {
			for i := range w.E {
				if !Match(w.E[i], g.E[i]) {
					return false
				}
			}
			return true
		}
		// multiset matching (greedy with backtracking is unnecessary for the
		// sizes used; do a simple bipartite search)
		used := make([]bool, len(g.E))
		var rec func(i int) bool
		rec = func(i int) bool {
			if i == len(w.E) {
				return true
			}
			for j := range g.E {
				if used[j] {
					continue
				}
				if Match(w.E[i], g.E[j]) {
					used[j] = true
					if rec(i + 1) {
						return true
					}
					used[j] = false
				}
			}
			return false
		}
		return rec(0)
	case *Obj:
		g, ok := got.(*Obj)
		if !ok || len(g.Keys) != len(w.Keys) {
			return false
		}
		for _, k := range w.Keys {
			gv, has := g.M[k]
			if !has {
				return false
			}
			if !Match(w.M[k], gv) {
				return false
			}
		}
		return true
	}
	return false
}
