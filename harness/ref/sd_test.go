package ref
import ("testing";"math/big")
func TestSD(t *testing.T){
 for _,c:=range []struct{s string; fin bool; d int}{{"0",true,1},{"1",true,1},{"10",true,1},{"1200",true,2},{"0.5",true,1},{"0.125",true,3},{"1/3",false,0},{"123.4500",true,5},{"1e400",true,1},{"1234e-400",true,4},{"9999999999999999999999999999999999",true,34},{"1/7",false,0},{"3/8",true,3},{"1/80",true,3},{"1e-6143",true,1},{"5e6144",true,1}}{
  r,_:=new(big.Rat).SetString(c.s)
  f,d:=SigDigits(r)
  if f!=c.fin||d!=c.d { t.Errorf("%s: got %v %d want %v %d",c.s,f,d,c.fin,c.d) }
 }
 for _,c:=range []struct{s string; e int}{{"1",0},{"9",0},{"10",1},{"0.1",-1},{"0.099",-2},{"99.9",1},{"1e400",400},{"9.99e-400",-400},{"1/3",-1},{"200/3",1}}{
  r,_:=new(big.Rat).SetString(c.s)
  if e:=Exp10(r); e!=c.e { t.Errorf("%s: exp %d want %d",c.s,e,c.e)}
 }
}
