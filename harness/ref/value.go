// Package ref is an independent reference model of the JMESPath Community
// language: its own values, lexer, parser, printer and evaluator.  It shares
// no code with the library under test.  Where the specification (text and
// compliance corpus) does not pin a behaviour the model abstains
// (CatUnspec) instead of guessing.
package ref

import (
	"encoding/json"
	"fmt"
	"math"
	"math/big"
	"sort"
	"strings"
	"unicode/utf8"

	"github.com/woodsbury/decimal128"
)

// V is a model value: nil (null), bool, string, Num, *Arr, *Obj, *Expref.
type V = any

// Num is an exact rational number.  Ulp != nil means the specification only
// pins the value up to |x - R| <= Ulp (a result that needed rounding).
type Num struct {
	R   *big.Rat
	Ulp *big.Rat
	// Txt: the JSON spelling the number was read from (document or literal);
	// empty for computed numbers.
	Txt string
}

type Arr struct {
	E []V
	// Unordered: the order of the elements is not determined by the
	// specification (array obtained by enumerating object members).
	Unordered bool
}

type Obj struct {
	Keys []string
	M    map[string]V
}

type Expref struct {
	N   *Node
	Env *Env
}

func NewObj() *Obj { return &Obj{M: map[string]V{}} }

func (o *Obj) Set(k string, v V) {
	if _, ok := o.M[k]; !ok {
		o.Keys = append(o.Keys, k)
	}
	o.M[k] = v
}

func (o *Obj) Get(k string) (V, bool) {
	v, ok := o.M[k]
	return v, ok
}

func IntNum(i int64) Num { return Num{R: new(big.Rat).SetInt64(i)} }

func RatNum(r *big.Rat) Num { return Num{R: r} }

// TypeName returns the JMESPath type name.
func TypeName(v V) string {
	switch v.(type) {
	case nil:
		return "null"
	case bool:
		return "boolean"
	case string:
		return "string"
	case Num:
		return "number"
	case *Arr:
		return "array"
	case *Obj:
		return "object"
	case *Expref:
		return "expref"
	}
	return fmt.Sprintf("?%T", v)
}

// maxExpDigits bounds the exponent the model is willing to expand exactly.
const maxExp = 7000

// ParseNumber parses JSON number text to an exact rational.  ok=false when
// the text is not a JSON number or its exponent is outside the range the model
// handles (|exp| > maxExp).
func ParseNumber(s string) (Num, bool) {
	if !IsJSONNumber(s) {
		return Num{}, false
	}
	// bound the exponent before big.Rat expands it
	if i := strings.IndexAny(s, "eE"); i >= 0 {
		e := s[i+1:]
		e = strings.TrimLeft(e, "+-")
		e = strings.TrimLeft(e, "0")
		if len(e) > 4 {
			return Num{}, false
		}
		var n int
		fmt.Sscanf(e, "%d", &n)
		if n > maxExp {
			return Num{}, false
		}
	}
	if len(s) > 20000 {
		return Num{}, false
	}
	r, ok := new(big.Rat).SetString(s)
	if !ok {
		return Num{}, false
	}
	return Num{R: r, Txt: s}, true
}

// IsJSONNumber reports whether s matches the JSON number grammar exactly.
func IsJSONNumber(s string) bool {
	i := 0
	n := len(s)
	if i < n && s[i] == '-' {
		i++
	}
	if i >= n {
		return false
	}
	if s[i] == '0' {
		i++
	} else if s[i] >= '1' && s[i] <= '9' {
		for i < n && s[i] >= '0' && s[i] <= '9' {
			i++
		}
	} else {
		return false
	}
	if i < n && s[i] == '.' {
		i++
		st := i
		for i < n && s[i] >= '0' && s[i] <= '9' {
			i++
		}
		if i == st {
			return false
		}
	}
	if i < n && (s[i] == 'e' || s[i] == 'E') {
		i++
		if i < n && (s[i] == '+' || s[i] == '-') {
			i++
		}
		st := i
		for i < n && s[i] >= '0' && s[i] <= '9' {
			i++
		}
		if i == st {
			return false
		}
	}
	return i == n
}

// FromJSON decodes JSON text into a model value (numbers exact).
func FromJSON(text string) (V, error) {
	d := json.NewDecoder(strings.NewReader(text))
	d.UseNumber()
	v, err := decodeValue(d)
	if err != nil {
		return nil, err
	}
	if _, err := d.Token(); err == nil {
		return nil, fmt.Errorf("trailing data")
	}
	return v, nil
}

func decodeValue(d *json.Decoder) (V, error) {
	t, err := d.Token()
	if err != nil {
		return nil, err
	}
	switch t := t.(type) {
	case json.Delim:
		switch t {
		case '[':
			a := &Arr{E: []V{}}
			for d.More() {
				e, err := decodeValue(d)
				if err != nil {
					return nil, err
				}
				a.E = append(a.E, e)
			}
			if _, err := d.Token(); err != nil {
				return nil, err
			}
			return a, nil
		case '{':
			o := NewObj()
			for d.More() {
				kt, err := d.Token()
				if err != nil {
					return nil, err
				}
				k, ok := kt.(string)
				if !ok {
					return nil, fmt.Errorf("bad key")
				}
				e, err := decodeValue(d)
				if err != nil {
					return nil, err
				}
				o.Set(k, e)
			}
			if _, err := d.Token(); err != nil {
				return nil, err
			}
			return o, nil
		}
		return nil, fmt.Errorf("unexpected delim %v", t)
	case json.Number:
		n, ok := ParseNumber(string(t))
		if !ok {
			return nil, fmt.Errorf("number out of model range: %s", t)
		}
		return n, nil
	case string:
		return t, nil
	case bool:
		return t, nil
	case nil:
		return nil, nil
	}
	return nil, fmt.Errorf("unexpected token %v", t)
}

// FromGo converts a Go value as used/produced by the library into a model
// value.  It fails for values outside the JSON domain (foreign types,
// non-finite numbers).
func FromGo(v any) (V, error) {
	switch v := v.(type) {
	case nil:
		return nil, nil
	case bool:
		return v, nil
	case string:
		return v, nil
	case json.Number:
		n, ok := ParseNumber(string(v))
		if !ok {
			return nil, fmt.Errorf("json.Number %q not a model number", string(v))
		}
		return n, nil
	case decimal128.Decimal:
		if v.IsNaN() || v.IsInf(0) {
			return nil, fmt.Errorf("non-finite decimal %s", v.String())
		}
		r := v.Rat(new(big.Rat))
		return Num{R: r}, nil
	case float64:
		if math.IsNaN(v) || math.IsInf(v, 0) {
			return nil, fmt.Errorf("non-finite float64")
		}
		return Num{R: new(big.Rat).SetFloat64(v)}, nil
	case float32:
		f := float64(v)
		if math.IsNaN(f) || math.IsInf(f, 0) {
			return nil, fmt.Errorf("non-finite float32")
		}
		return Num{R: new(big.Rat).SetFloat64(f)}, nil
	case int:
		return IntNum(int64(v)), nil
	case int8:
		return IntNum(int64(v)), nil
	case int16:
		return IntNum(int64(v)), nil
	case int32:
		return IntNum(int64(v)), nil
	case int64:
		return IntNum(v), nil
	case uint:
		return Num{R: new(big.Rat).SetInt(new(big.Int).SetUint64(uint64(v)))}, nil
	case uint8:
		return IntNum(int64(v)), nil
	case uint16:
		return IntNum(int64(v)), nil
	case uint32:
		return IntNum(int64(v)), nil
	case uint64:
		return Num{R: new(big.Rat).SetInt(new(big.Int).SetUint64(v))}, nil
	case []any:
		if v == nil {
			return nil, fmt.Errorf("nil []any (serialises as null but is typed as array)")
		}
		a := &Arr{E: make([]V, len(v))}
		for i, e := range v {
			x, err := FromGo(e)
			if err != nil {
				return nil, err
			}
			a.E[i] = x
		}
		return a, nil
	case map[string]any:
		if v == nil {
			return nil, fmt.Errorf("nil map[string]any")
		}
		keys := make([]string, 0, len(v))
		for k := range v {
			keys = append(keys, k)
		}
		sort.Strings(keys)
		o := NewObj()
		for _, k := range keys {
			x, err := FromGo(v[k])
			if err != nil {
				return nil, err
			}
			o.Set(k, x)
		}
		return o, nil
	}
	return nil, fmt.Errorf("value of type %T outside the JSON domain", v)
}

// NumMode selects the Go representation used for number leaves by ToGo.
type NumMode func(n Num) any

// JSONNumber renders numbers as json.Number in a canonical plain spelling.
func JSONNumber(n Num) any {
	if n.Txt != "" {
		return json.Number(n.Txt)
	}
	return json.Number(NumText(n))
}

// ToGo converts a model value to the Go representation the library consumes.
func ToGo(v V, nm NumMode) any {
	switch v := v.(type) {
	case nil:
		return nil
	case bool:
		return v
	case string:
		return v
	case Num:
		return nm(v)
	case *Arr:
		a := make([]any, len(v.E))
		for i, e := range v.E {
			a[i] = ToGo(e, nm)
		}
		return a
	case *Obj:
		m := make(map[string]any, len(v.Keys))
		for _, k := range v.Keys {
			m[k] = ToGo(v.M[k], nm)
		}
		return m
	}
	panic(fmt.Sprintf("ToGo: %T", v))
}

// NumText renders an exact rational as JSON number text when it is a finite
// decimal; otherwise (not a decimal fraction) it renders a 40-digit
// approximation (only used for display).
func NumText(n Num) string {
	r := n.R
	if r.IsInt() {
		return r.Num().String()
	}
	// finite decimal iff denominator has only factors 2 and 5
	den := new(big.Int).Set(r.Denom())
	two, five := big.NewInt(2), big.NewInt(5)
	c2, c5 := 0, 0
	m := new(big.Int)
	for {
		q, rem := new(big.Int).QuoRem(den, two, m)
		if rem.Sign() != 0 {
			break
		}
		den = q
		c2++
	}
	for {
		q, rem := new(big.Int).QuoRem(den, five, new(big.Int))
		if rem.Sign() != 0 {
			break
		}
		den = q
		c5++
	}
	if den.Cmp(big.NewInt(1)) != 0 {
		return r.FloatString(40)
	}
	d := c2
	if c5 > d {
		d = c5
	}
	s := r.FloatString(d)
	if strings.Contains(s, ".") {
		s = strings.TrimRight(s, "0")
		s = strings.TrimSuffix(s, ".")
	}
	return s
}

// decomp25 splits a positive integer d into 2^a * 5^b (ok=false if it has
// another prime factor).
func decomp25(d *big.Int) (a, b int, ok bool) {
	a = int(d.TrailingZeroBits())
	d5 := new(big.Int).Rsh(d, uint(a))
	if d5.Cmp(bigOne) == 0 {
		return a, 0, true
	}
	// d5 must be 5^b: estimate b from the bit length
	bl := float64(d5.BitLen())
	est := int(bl / 2.321928094887362)
	for _, cand := range []int{est - 1, est, est + 1} {
		if cand < 0 {
			continue
		}
		if pow5(cand).Cmp(d5) == 0 {
			return a, cand, true
		}
	}
	return 0, 0, false
}

var bigOne = big.NewInt(1)

var pow5Cache = map[int]*big.Int{}

func pow5(n int) *big.Int {
	if v, ok := pow5Cache[n]; ok {
		return v
	}
	v := new(big.Int).Exp(big.NewInt(5), big.NewInt(int64(n)), nil)
	if len(pow5Cache) < 4096 {
		pow5Cache[n] = v
	}
	return v
}

// SigDigits reports whether r has a finite decimal expansion and, if so, its
// number of significant digits.
func SigDigits(r *big.Rat) (finite bool, digits int) {
	if r.Sign() == 0 {
		return true, 1
	}
	a, b, ok := decomp25(r.Denom())
	if !ok {
		return false, 0
	}
	// coefficient = |num| * 2^(m-a) * 5^(m-b) with m = max(a,b); trailing
	// decimal zeros of the coefficient do not count
	co := new(big.Int).Abs(r.Num())
	if a > b {
		co.Mul(co, pow5(a-b))
	} else if b > a {
		co.Lsh(co, uint(b-a))
	}
	// strip factors of 10: count min(v2, v5) of co
	v2 := int(co.TrailingZeroBits())
	digitsTotal := decLen(co)
	if v2 == 0 {
		return true, digitsTotal
	}
	// v5: divide by 5 while possible, bounded by v2
	v5 := 0
	t := new(big.Int).Set(co)
	rem := new(big.Int)
	five := big.NewInt(5)
	chunk := pow5(16)
	for v5+16 <= v2 {
		q, m := new(big.Int).QuoRem(t, chunk, rem)
		if m.Sign() != 0 {
			break
		}
		t = q
		v5 += 16
	}
	for v5 < v2 {
		q, m := new(big.Int).QuoRem(t, five, rem)
		if m.Sign() != 0 {
			break
		}
		t = q
		v5++
	}
	z := v2
	if v5 < z {
		z = v5
	}
	d := digitsTotal - z
	if d < 1 {
		d = 1
	}
	return true, d
}

// decLen returns the number of decimal digits of a positive integer.
func decLen(x *big.Int) int {
	if x.Sign() == 0 {
		return 1
	}
	bl := x.BitLen()
	est := int(float64(bl-1)*0.30102999566398114) + 1 // digits of 2^(bl-1) .. may be one short
	// exact: compare with 10^est
	p := new(big.Int).Exp(big.NewInt(10), big.NewInt(int64(est)), nil)
	if x.CmpAbs(p) >= 0 {
		return est + 1
	}
	p2 := new(big.Int).Exp(big.NewInt(10), big.NewInt(int64(est-1)), nil)
	if x.CmpAbs(p2) < 0 {
		return est - 1
	}
	return est
}

// Exp10 returns floor(log10(|r|)) for r != 0.
func Exp10(r *big.Rat) int {
	a := new(big.Rat).Abs(r)
	nd := decLen(a.Num())
	dd := decLen(a.Denom())
	e := nd - dd
	// 10^e <= a < 10^(e+1) ; adjust
	p := pow10Rat(e)
	if a.Cmp(p) < 0 {
		e--
	} else if a.Cmp(pow10Rat(e+1)) >= 0 {
		e++
	}
	return e
}

func pow10Rat(e int) *big.Rat {
	if e >= 0 {
		return new(big.Rat).SetInt(new(big.Int).Exp(big.NewInt(10), big.NewInt(int64(e)), nil))
	}
	return new(big.Rat).SetFrac(big.NewInt(1), new(big.Int).Exp(big.NewInt(10), big.NewInt(int64(-e)), nil))
}

// Pow10 is exported for monitors.
func Pow10(e int) *big.Rat { return pow10Rat(e) }

// Equal is the specification's deep, type-strict equality.  ok=false when a
// number with a tolerance takes part (the model cannot decide).
func Equal(a, b V) (eq bool, ok bool) {
	switch a := a.(type) {
	case nil:
		return b == nil, true
	case bool:
		bb, is := b.(bool)
		return is && a == bb, true
	case string:
		bs, is := b.(string)
		return is && a == bs, true
	case Num:
		bn, is := b.(Num)
		if !is {
			return false, true
		}
		if a.Ulp != nil || bn.Ulp != nil {
			return false, false
		}
		return a.R.Cmp(bn.R) == 0, true
	case *Arr:
		ba, is := b.(*Arr)
		if !is {
			return false, true
		}
		if len(a.E) != len(ba.E) {
			return false, true
		}
		if a.Unordered || ba.Unordered {
			return false, false
		}
		for i := range a.E {
			e, k := Equal(a.E[i], ba.E[i])
			if !k {
				return false, false
			}
			if !e {
				return false, true
			}
		}
		return true, true
	case *Obj:
		bo, is := b.(*Obj)
		if !is {
			return false, true
		}
		if len(a.Keys) != len(bo.Keys) {
			return false, true
		}
		for _, k := range a.Keys {
			bv, has := bo.M[k]
			if !has {
				return false, true
			}
			e, kk := Equal(a.M[k], bv)
			if !kk {
				return false, false
			}
			if !e {
				return false, true
			}
		}
		return true, true
	case *Expref:
		return false, false
	}
	return false, false
}

// Truthy: null, false, "", [], {} are false-like; everything else true.
func Truthy(v V) bool {
	switch v := v.(type) {
	case nil:
		return false
	case bool:
		return v
	case string:
		return v != ""
	case *Arr:
		return len(v.E) > 0
	case *Obj:
		return len(v.Keys) > 0
	}
	return true
}

// Show renders a model value as JSON-like text for reports.
func Show(v V) string {
	var b strings.Builder
	show(&b, v)
	return b.String()
}

func show(b *strings.Builder, v V) {
	switch v := v.(type) {
	case nil:
		b.WriteString("null")
	case bool:
		if v {
			b.WriteString("true")
		} else {
			b.WriteString("false")
		}
	case string:
		j, _ := json.Marshal(v)
		if !utf8.ValidString(v) {
			fmt.Fprintf(b, "%q", v)
		} else {
			b.Write(j)
		}
	case Num:
		b.WriteString(NumText(v))
		if v.Ulp != nil {
			b.WriteString("~")
		}
	case *Arr:
		if v.Unordered {
			b.WriteString("unordered")
		}
		b.WriteByte('[')
		for i, e := range v.E {
			if i > 0 {
				b.WriteByte(',')
			}
			show(b, e)
		}
		b.WriteByte(']')
	case *Obj:
		b.WriteByte('{')
		ks := append([]string(nil), v.Keys...)
		sort.Strings(ks)
		for i, k := range ks {
			if i > 0 {
				b.WriteByte(',')
			}
			j, _ := json.Marshal(k)
			b.Write(j)
			b.WriteByte(':')
			show(b, v.M[k])
		}
		b.WriteByte('}')
	case *Expref:
		b.WriteString("&(")
		b.WriteString(Print(v.N))
		b.WriteString(")")
	default:
		fmt.Fprintf(b, "?%T", v)
	}
}

// Size counts the nodes of a value.
func Size(v V) int {
	switch v := v.(type) {
	case *Arr:
		n := 1
		for _, e := range v.E {
			n += Size(e)
		}
		return n
	case *Obj:
		n := 1
		for _, k := range v.Keys {
			n += 1 + Size(v.M[k])
		}
		return n
	case string:
		return 1 + len(v)/8
	}
	return 1
}
