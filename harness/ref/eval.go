package ref

import (
	"fmt"
	"math/big"
	"strings"
	"unicode/utf8"
)

// Cat is a set of fault categories.
type Cat uint16

const (
	CatSyntax Cat = 1 << iota
	CatArity
	CatUnknownFn
	CatType
	CatValue
	CatUndefVar
	CatNaN
	CatEvalFailed
	CatUnspec // the model abstains
)

var catNames = []struct {
	c Cat
	n string
}{
	{CatSyntax, "syntax"}, {CatArity, "invalid-arity"}, {CatUnknownFn, "unknown-function"},
	{CatType, "invalid-type"}, {CatValue, "invalid-value"}, {CatUndefVar, "undefined-variable"},
	{CatNaN, "not-a-number"}, {CatEvalFailed, "evaluation-failed"}, {CatUnspec, "unspecified"},
}

func (c Cat) String() string {
	if c == 0 {
		return "none"
	}
	var parts []string
	for _, x := range catNames {
		if c&x.c != 0 {
			parts = append(parts, x.n)
		}
	}
	return strings.Join(parts, "|")
}

// Count returns the number of categories in the set.
func (c Cat) Count() int {
	n := 0
	for _, x := range catNames {
		if c&x.c != 0 {
			n++
		}
	}
	return n
}

// Fault is a (set-valued) evaluation failure: the specification requires a
// failure with one of the categories in Cats.  CatUnspec in the set means the
// model does not judge the case at all.
type Fault struct {
	Cats Cat
	Why  string
	// Arg: 1-based index of the function argument the fault is about (0: n/a)
	Arg int
}

func fault(c Cat, format string, a ...any) *Fault {
	return &Fault{Cats: c, Why: fmt.Sprintf(format, a...)}
}

func unspec(format string, a ...any) *Fault {
	return &Fault{Cats: CatUnspec, Why: fmt.Sprintf(format, a...)}
}

func merge(a, b *Fault) *Fault {
	if a == nil {
		return b
	}
	if b == nil {
		return a
	}
	w := a.Why
	if a.Cats&CatUnspec == 0 && b.Cats&CatUnspec != 0 {
		w = b.Why
	}
	return &Fault{Cats: a.Cats | b.Cats, Why: w}
}

// Env is a lexical environment.
type Env struct {
	parent *Env
	vars   map[string]V
}

func (e *Env) lookup(name string) (V, bool) {
	for s := e; s != nil; s = s.parent {
		if v, ok := s.vars[name]; ok {
			return v, true
		}
	}
	return nil, false
}

type evaluator struct {
	root  V
	steps int
	// Intermediate: size of the largest intermediate value seen
	maxInter int
}

// Outcome is the model's verdict for one (expression, document) pair.
type Outcome struct {
	// Unspec: the model abstains (Why says why).
	Unspec bool
	Why    string
	// Fault != 0: the call must fail with one of these categories.
	Fault Cat
	// Val: the value the call must return (when Fault == 0 and !Unspec).
	Val V
	// OptFault: categories that are additionally admissible (e.g. a
	// statically detectable slice step 0 that evaluation never reaches).
	OptFault Cat
	// Static: the fault is decided by the text alone.
	Static bool
	// MaxInter: size of the largest intermediate value.
	MaxInter int
}

func (o Outcome) String() string {
	switch {
	case o.Unspec:
		return "unspecified(" + o.Why + ")"
	case o.Fault != 0:
		return "error(" + o.Fault.String() + ": " + o.Why + ")"
	}
	s := Show(o.Val)
	if o.OptFault != 0 {
		s += " [or error " + o.OptFault.String() + "]"
	}
	return s
}

// Search is the model's Search(expression, document).
func Search(text string, doc V) Outcome {
	pr := Parse(text)
	return SearchParsed(pr, doc)
}

func SearchParsed(pr ParseResult, doc V) Outcome {
	switch pr.Status {
	case ParseGap:
		return Outcome{Unspec: true, Why: "grammar gap: " + strings.Join(pr.Gaps, "; ")}
	case ParseSyntax:
		o := Outcome{Fault: CatSyntax, Why: pr.Err, Static: true}
		if pr.HasCall {
			// an implementation may report a static function fault it met
			// before the syntax error
			o.Fault |= CatUnknownFn | CatArity | CatType
		}
		if pr.HasZeroStep {
			// ... or a slice step of 0
			o.Fault |= CatValue
		}
		return o
	}
	st, opt := StaticFaults(pr.Node)
	if st != nil {
		if st.Cats&CatUnspec != 0 {
			return Outcome{Unspec: true, Why: st.Why}
		}
		return Outcome{Fault: st.Cats, Why: st.Why, Static: true, OptFault: opt}
	}
	if !validStrings(doc) {
		return Outcome{Unspec: true, Why: "document contains invalid UTF-8"}
	}
	ev := &evaluator{root: doc}
	v, f := ev.eval(pr.Node, doc, nil)
	if f != nil {
		if f.Cats&CatUnspec != 0 {
			return Outcome{Unspec: true, Why: f.Why}
		}
		return Outcome{Fault: f.Cats, Why: f.Why, OptFault: opt, MaxInter: ev.maxInter}
	}
	if _, isE := v.(*Expref); isE {
		return Outcome{Unspec: true, Why: "expression reference as result"}
	}
	return Outcome{Val: v, OptFault: opt, MaxInter: ev.maxInter}
}

func validStrings(v V) bool {
	switch v := v.(type) {
	case string:
		return utf8.ValidString(v)
	case *Arr:
		for _, e := range v.E {
			if !validStrings(e) {
				return false
			}
		}
	case *Obj:
		for _, k := range v.Keys {
			if !utf8.ValidString(k) || !validStrings(v.M[k]) {
				return false
			}
		}
	}
	return true
}

// StaticFaults returns the faults decided by the text alone (unknown
// function, arity, expression-reference position) and the optional static
// faults (slice step 0).
func StaticFaults(n *Node) (*Fault, Cat) {
	var f *Fault
	var opt Cat
	var walk func(n *Node)
	walk = func(n *Node) {
		if n == nil {
			return
		}
		if n.Kind == NSlice && n.Step != nil && n.Step.Sign() == 0 {
			opt |= CatValue
		}
		if n.Kind == NFunc {
			sig, ok := signatures[n.Name]
			if !ok {
				f = merge(f, fault(CatUnknownFn, "unknown function %s", n.Name))
			} else {
				if len(n.Kids) < sig.min || (sig.max >= 0 && len(n.Kids) > sig.max) {
					f = merge(f, fault(CatArity, "%s called with %d arguments", n.Name, len(n.Kids)))
				}
				for i, k := range n.Kids {
					wantE := sig.isExpref(i)
					if (k.Kind == NExpref && !k.Paren) != wantE {
						if sig.max >= 0 && i >= sig.max {
							continue
						}
						f = merge(f, fault(CatType, "%s argument %d: expression reference mismatch", n.Name, i))
					}
				}
			}
		}
		for _, k := range n.Kids {
			walk(k)
		}
	}
	walk(n)
	return f, opt
}

func ordered(a *Arr) bool { return !a.Unordered || len(a.E) < 2 }

func (ev *evaluator) note(v V) {
	if a, ok := v.(*Arr); ok {
		if len(a.E) > ev.maxInter {
			ev.maxInter = len(a.E)
		}
	} else if s, ok := v.(string); ok {
		if len(s) > ev.maxInter {
			ev.maxInter = len(s)
		}
	}
}

func (ev *evaluator) eval(n *Node, cur V, env *Env) (V, *Fault) {
	v, f := ev.eval1(n, cur, env)
	if f == nil {
		ev.note(v)
	}
	return v, f
}

func (ev *evaluator) eval1(n *Node, cur V, env *Env) (V, *Fault) {
	switch n.Kind {
	case NIdentity, NCurrent:
		return cur, nil
	case NRoot:
		return ev.root, nil
	case NLiteral:
		return n.Val, nil
	case NField:
		if o, ok := cur.(*Obj); ok {
			if v, has := o.M[n.Name]; has {
				return v, nil
			}
		}
		return nil, nil
	case NIndex:
		s, f := ev.eval(n.Kids[0], cur, env)
		if f != nil {
			return nil, f
		}
		a, ok := s.(*Arr)
		if !ok {
			return nil, nil
		}
		if !ordered(a) {
			return nil, unspec("index into an array whose order is not determined")
		}
		l := big.NewInt(int64(len(a.E)))
		i := new(big.Int).Set(n.Idx)
		if i.Sign() < 0 {
			i.Add(i, l)
		}
		if i.Sign() < 0 || i.Cmp(l) >= 0 {
			return nil, nil
		}
		return a.E[i.Int64()], nil
	case NSlice:
		s, f := ev.eval(n.Kids[0], cur, env)
		if f != nil {
			return nil, f
		}
		switch s := s.(type) {
		case *Arr:
			if n.Step != nil && n.Step.Sign() == 0 {
				return nil, fault(CatValue, "slice step 0")
			}
			if !ordered(s) {
				return nil, unspec("slice of an array whose order is not determined")
			}
			idx := SliceIndices(len(s.E), n.Start, n.Stop, n.Step)
			r := &Arr{E: make([]V, len(idx))}
			for i, j := range idx {
				r.E[i] = s.E[j]
			}
			return r, nil
		case string:
			if n.Step != nil && n.Step.Sign() == 0 {
				return nil, fault(CatValue, "slice step 0")
			}
			rs := []rune(s)
			idx := SliceIndices(len(rs), n.Start, n.Stop, n.Step)
			var b strings.Builder
			for _, j := range idx {
				b.WriteRune(rs[j])
			}
			return b.String(), nil
		}
		return nil, nil
	case NPipe:
		l, f := ev.eval(n.Kids[0], cur, env)
		if f != nil {
			return nil, f
		}
		return ev.eval(n.Kids[1], l, env)
	case NSub:
		l, f := ev.eval(n.Kids[0], cur, env)
		if f != nil {
			return nil, f
		}
		if l == nil {
			// a sub-expression on null is null (corpus: missing.{foo: bar});
			// whether a function after the dot is still called is not pinned
			if n.Kids[1].Kind == NFunc {
				return nil, unspec("function call as the right-hand side of a sub-expression on null")
			}
			return nil, nil
		}
		return ev.eval(n.Kids[1], l, env)
	case NOr:
		l, f := ev.eval(n.Kids[0], cur, env)
		if f != nil {
			return nil, f
		}
		if Truthy(l) {
			return l, nil
		}
		return ev.eval(n.Kids[1], cur, env)
	case NAnd:
		l, f := ev.eval(n.Kids[0], cur, env)
		if f != nil {
			return nil, f
		}
		if !Truthy(l) {
			return l, nil
		}
		return ev.eval(n.Kids[1], cur, env)
	case NNot:
		l, f := ev.eval(n.Kids[0], cur, env)
		if f != nil {
			return nil, f
		}
		return !Truthy(l), nil
	case NCmp:
		l, f1 := ev.eval(n.Kids[0], cur, env)
		r, f2 := ev.eval(n.Kids[1], cur, env)
		if f := merge(f1, f2); f != nil {
			return nil, f
		}
		return compareOp(n.Op, l, r)
	case NArith:
		l, f1 := ev.eval(n.Kids[0], cur, env)
		r, f2 := ev.eval(n.Kids[1], cur, env)
		if f := merge(f1, f2); f != nil {
			return nil, f
		}
		return arith(n.Op, l, r)
	case NUnary:
		v, f := ev.eval(n.Kids[0], cur, env)
		if f != nil {
			return nil, f
		}
		x, ok := v.(Num)
		if !ok {
			return nil, unspec("unary %s on a non-number", n.Op)
		}
		if n.Op == "+" {
			return x, nil
		}
		if !exactDec(x) {
			return nil, unspec("negation of an inexact number")
		}
		return Num{R: new(big.Rat).Neg(x.R)}, nil
	case NFlatten:
		s, f := ev.eval(n.Kids[0], cur, env)
		if f != nil {
			return nil, f
		}
		a, ok := s.(*Arr)
		if !ok {
			return nil, nil
		}
		r := &Arr{E: []V{}, Unordered: a.Unordered && len(a.E) > 1}
		for _, e := range a.E {
			if ea, ok := e.(*Arr); ok {
				if !ordered(ea) {
					r.Unordered = true
				}
				r.E = append(r.E, ea.E...)
			} else {
				r.E = append(r.E, e)
			}
		}
		return r, nil
	case NProj:
		s, f := ev.eval(n.Kids[0], cur, env)
		if f != nil {
			return nil, f
		}
		if str, ok := s.(string); ok && n.Kids[0].Kind == NSlice {
			// a slice of a string yields a string; it does not project
			return ev.eval(n.Kids[1], str, env)
		}
		a, ok := s.(*Arr)
		if !ok {
			return nil, nil
		}
		return ev.project(a.E, a.Unordered, n.Kids[1], nil, env)
	case NValProj:
		s, f := ev.eval(n.Kids[0], cur, env)
		if f != nil {
			return nil, f
		}
		o, ok := s.(*Obj)
		if !ok {
			return nil, nil
		}
		vals := make([]V, len(o.Keys))
		for i, k := range o.Keys {
			vals[i] = o.M[k]
		}
		return ev.project(vals, true, n.Kids[1], nil, env)
	case NFilterProj:
		s, f := ev.eval(n.Kids[0], cur, env)
		if f != nil {
			return nil, f
		}
		a, ok := s.(*Arr)
		if !ok {
			return nil, nil
		}
		return ev.project(a.E, a.Unordered, n.Kids[1], n.Kids[2], env)
	case NMultiList:
		r := &Arr{E: make([]V, len(n.Kids))}
		var ff *Fault
		for i, k := range n.Kids {
			v, f := ev.eval(k, cur, env)
			ff = merge(ff, f)
			r.E[i] = v
		}
		if ff != nil {
			return nil, ff
		}
		return r, nil
	case NMultiHash:
		o := NewObj()
		var ff *Fault
		for i, k := range n.Kids {
			v, f := ev.eval(k, cur, env)
			ff = merge(ff, f)
			o.Set(n.Keys[i], v)
		}
		if ff != nil {
			return nil, ff
		}
		return o, nil
	case NVar:
		v, ok := env.lookup(n.Name)
		if !ok {
			return nil, fault(CatUndefVar, "undefined variable %s", n.Name)
		}
		if _, dup := v.(dupBinding); dup {
			return nil, unspec("variable %s is bound more than once in one let", n.Name)
		}
		return v, nil
	case NLet:
		vars := map[string]V{}
		var ff *Fault
		nb := len(n.Keys)
		count := map[string]int{}
		for i := 0; i < nb; i++ {
			count[n.Keys[i]]++
		}
		for i := 0; i < nb; i++ {
			v, f := ev.eval(n.Kids[i], cur, env)
			if count[n.Keys[i]] > 1 {
				// bound more than once: which binding survives - and so whether this
				// expression is evaluated at all - is not pinned
				if f != nil {
					f = unspec("a binding of %s, which is bound more than once, fails", n.Keys[i])
				}
				v = dupBinding{}
			}
			ff = merge(ff, f)
			vars[n.Keys[i]] = v
		}
		if ff != nil {
			return nil, ff
		}
		return ev.eval(n.Kids[nb], cur, &Env{parent: env, vars: vars})
	case NExpref:
		return &Expref{N: n.Kids[0], Env: env}, nil
	case NFunc:
		return ev.call(n, cur, env)
	}
	return nil, unspec("unhandled node kind %d", n.Kind)
}

// dupBinding marks a variable that one let binds more than once.
type dupBinding struct{}

func (ev *evaluator) project(elems []V, unordered bool, rhs, cond *Node, env *Env) (V, *Fault) {
	r := &Arr{E: []V{}}
	var ff *Fault
	for _, e := range elems {
		if e == nil {
			if hk := headKind(rhs); hk == NMultiList || hk == NMultiHash || hk == NFunc {
				ff = merge(ff, unspec("multi-select or function applied to a null element of a projection"))
				continue
			}
		}
		if cond != nil {
			c, f := ev.eval(cond, e, env)
			if f != nil {
				ff = merge(ff, f)
				continue
			}
			if !Truthy(c) {
				continue
			}
		}
		v, f := ev.eval(rhs, e, env)
		if f != nil {
			ff = merge(ff, f)
			continue
		}
		if v != nil {
			r.E = append(r.E, v)
		}
	}
	if ff != nil {
		return nil, ff
	}
	r.Unordered = unordered && len(r.E) > 1
	return r, nil
}

// SliceIndices is the specification's slice algorithm (Python's
// slice.indices followed by range) computed on big integers.
func SliceIndices(n int, start, stop, step *big.Int) []int {
	ln := big.NewInt(int64(n))
	st := big.NewInt(1)
	if step != nil {
		st = step
	}
	if st.Sign() == 0 {
		return nil
	}
	neg := st.Sign() < 0
	capIdx := func(v *big.Int) *big.Int {
		x := new(big.Int).Set(v)
		if x.Sign() < 0 {
			x.Add(x, ln)
			if x.Sign() < 0 {
				if neg {
					return big.NewInt(-1)
				}
				return big.NewInt(0)
			}
		} else if x.Cmp(ln) >= 0 {
			if neg {
				return new(big.Int).Sub(ln, big.NewInt(1))
			}
			return new(big.Int).Set(ln)
		}
		return x
	}
	var a, b *big.Int
	if start == nil {
		if neg {
			a = new(big.Int).Sub(ln, big.NewInt(1))
		} else {
			a = big.NewInt(0)
		}
	} else {
		a = capIdx(start)
	}
	if stop == nil {
		if neg {
			b = big.NewInt(-1)
		} else {
			b = new(big.Int).Set(ln)
		}
	} else {
		b = capIdx(stop)
	}
	var out []int
	i := new(big.Int).Set(a)
	for {
		if neg {
			if i.Cmp(b) <= 0 {
				break
			}
		} else {
			if i.Cmp(b) >= 0 {
				break
			}
		}
		out = append(out, int(i.Int64()))
		i.Add(i, st)
	}
	return out
}

// exactDec: the number is held exactly by a decimal128 (<= 34 significant
// digits, normal exponent range) and carries no tolerance.
func exactDec(n Num) bool {
	if n.Ulp != nil {
		return false
	}
	if n.R.Sign() == 0 {
		return true
	}
	fin, d := SigDigits(n.R)
	if !fin || d > 34 {
		return false
	}
	e := Exp10(n.R)
	return e >= -6143 && e <= 6144
}

// roundResult applies the property's rounding rule to an exact result.
func roundResult(r *big.Rat) (V, *Fault) {
	if r.Sign() == 0 {
		return Num{R: r}, nil
	}
	e := Exp10(r)
	if e >= 6200 {
		return nil, fault(CatNaN, "overflow")
	}
	if e >= 6145 {
		// the decimal type's largest finite value is not pinned exactly
		return nil, unspec("result at the top end of the decimal range")
	}
	if e < -6143 {
		return nil, unspec("result below the normal decimal128 range")
	}
	fin, d := SigDigits(r)
	if fin && d <= 34 {
		return Num{R: r}, nil
	}
	if e == 6144 {
		return nil, unspec("rounding at the top of the decimal128 range")
	}
	return Num{R: r, Ulp: pow10Rat(e - 33)}, nil
}

func arith(op string, l, r V) (V, *Fault) {
	x, ok1 := l.(Num)
	y, ok2 := r.(Num)
	if !ok1 || !ok2 {
		return nil, unspec("arithmetic on a non-number")
	}
	if !exactDec(x) || !exactDec(y) {
		return nil, unspec("arithmetic on a number that is not exactly representable")
	}
	switch op {
	case "+":
		return roundResult(new(big.Rat).Add(x.R, y.R))
	case "-":
		return roundResult(new(big.Rat).Sub(x.R, y.R))
	case "*":
		return roundResult(new(big.Rat).Mul(x.R, y.R))
	case "/":
		if y.R.Sign() == 0 {
			return nil, fault(CatNaN, "division by zero")
		}
		return roundResult(new(big.Rat).Quo(x.R, y.R))
	case "//", "%":
		if y.R.Sign() == 0 {
			return nil, fault(CatNaN, "division by zero")
		}
		if x.R.Sign() != 0 && x.R.Sign() != y.R.Sign() {
			return nil, unspec("%s with operands of different sign", op)
		}
		q := new(big.Rat).Quo(x.R, y.R)
		fl := new(big.Int).Quo(q.Num(), q.Denom()) // q >= 0 here: truncation == floor
		flr := new(big.Rat).SetInt(fl)
		if op == "//" {
			return roundResult(flr)
		}
		rem := new(big.Rat).Sub(x.R, new(big.Rat).Mul(y.R, flr))
		return roundResult(rem)
	}
	return nil, unspec("unknown operator %s", op)
}

func compareOp(op string, l, r V) (V, *Fault) {
	switch op {
	case "==", "!=":
		eq, ok := Equal(l, r)
		if !ok {
			return nil, unspec("equality the model cannot decide")
		}
		if !numsExact(l) || !numsExact(r) {
			return nil, unspec("equality involving a number that is not exactly representable")
		}
		if op == "!=" {
			return !eq, nil
		}
		return eq, nil
	}
	x, ok1 := l.(Num)
	y, ok2 := r.(Num)
	if !ok1 || !ok2 {
		_, s1 := l.(string)
		_, s2 := r.(string)
		if s1 && s2 {
			return nil, unspec("ordering operator on two strings")
		}
		return nil, nil
	}
	if !exactDec(x) || !exactDec(y) {
		return nil, unspec("ordering of a number that is not exactly representable")
	}
	c := x.R.Cmp(y.R)
	switch op {
	case "<":
		return c < 0, nil
	case "<=":
		return c <= 0, nil
	case ">":
		return c > 0, nil
	case ">=":
		return c >= 0, nil
	}
	return nil, unspec("unknown comparator %s", op)
}

// numsExact: every number inside v is exactly representable.
func numsExact(v V) bool {
	switch v := v.(type) {
	case Num:
		return exactDec(v)
	case *Arr:
		for _, e := range v.E {
			if !numsExact(e) {
				return false
			}
		}
	case *Obj:
		for _, k := range v.Keys {
			if !numsExact(v.M[k]) {
				return false
			}
		}
	}
	return true
}

// headKind returns the kind of the first selector applied by a projection's
// right-hand side.
func headKind(n *Node) NodeKind {
	for {
		switch n.Kind {
		case NSub, NIndex, NSlice, NProj, NFlatten, NFilterProj, NValProj, NPipe:
			if n.Paren {
				return n.Kind
			}
			n = n.Kids[0]
		default:
			return n.Kind
		}
	}
}

// EvalNode evaluates an AST directly (used by the generators to steer).
func EvalNode(n *Node, cur, root V, env *Env) (V, *Fault) {
	ev := &evaluator{root: root}
	return ev.eval(n, cur, env)
}

// NewEnv extends an environment.
func NewEnv(parent *Env, vars map[string]V) *Env { return &Env{parent: parent, vars: vars} }

// ExactDec reports whether n is held exactly by a decimal128.
func ExactDec(n Num) bool { return exactDec(n) }
