package ref

import (
	"math/big"
	"sort"
	"strings"
	"unicode"
	"unicode/utf8"
)

type signature struct {
	min, max int // max < 0: variadic
	exprefs  []int
}

func (s signature) isExpref(i int) bool {
	for _, e := range s.exprefs {
		if e == i {
			return true
		}
	}
	return false
}

var signatures = map[string]signature{
	"abs":         {1, 1, nil},
	"avg":         {1, 1, nil},
	"ceil":        {1, 1, nil},
	"contains":    {2, 2, nil},
	"ends_with":   {2, 2, nil},
	"find_first":  {2, 4, nil},
	"find_last":   {2, 4, nil},
	"floor":       {1, 1, nil},
	"from_items":  {1, 1, nil},
	"group_by":    {2, 2, []int{1}},
	"items":       {1, 1, nil},
	"join":        {2, 2, nil},
	"keys":        {1, 1, nil},
	"length":      {1, 1, nil},
	"lower":       {1, 1, nil},
	"map":         {2, 2, []int{0}},
	"max":         {1, 1, nil},
	"max_by":      {2, 2, []int{1}},
	"merge":       {1, -1, nil},
	"min":         {1, 1, nil},
	"min_by":      {2, 2, []int{1}},
	"not_null":    {1, -1, nil},
	"pad_left":    {2, 3, nil},
	"pad_right":   {2, 3, nil},
	"replace":     {3, 4, nil},
	"reverse":     {1, 1, nil},
	"sort":        {1, 1, nil},
	"sort_by":     {2, 2, []int{1}},
	"split":       {2, 3, nil},
	"starts_with": {2, 2, nil},
	"sum":         {1, 1, nil},
	"to_array":    {1, 1, nil},
	"to_number":   {1, 1, nil},
	"to_string":   {1, 1, nil},
	"trim":        {1, 2, nil},
	"trim_left":   {1, 2, nil},
	"trim_right":  {1, 2, nil},
	"type":        {1, 1, nil},
	"upper":       {1, 1, nil},
	"values":      {1, 1, nil},
	"zip":         {1, -1, nil},
}

// FunctionNames lists the built-in functions.
func FunctionNames() []string {
	var out []string
	for k := range signatures {
		out = append(out, k)
	}
	sort.Strings(out)
	return out
}

// Arity returns (min, max, expref positions) of a builtin.
func Arity(name string) (int, int, []int, bool) {
	s, ok := signatures[name]
	return s.min, s.max, s.exprefs, ok
}

func typeFault(fn string, i int, v V, want string) *Fault {
	f := fault(CatType, "%s: argument %d is %s, want %s", fn, i+1, TypeName(v), want)
	f.Arg = i + 1
	return f
}

func (ev *evaluator) call(n *Node, cur V, env *Env) (V, *Fault) {
	name := n.Name
	args := make([]V, len(n.Kids))
	var ff *Fault
	for i, k := range n.Kids {
		v, f := ev.eval(k, cur, env)
		ff = merge(ff, f)
		args[i] = v
	}
	if ff != nil {
		if name == "not_null" && ff.Cats&CatUnspec == 0 {
			// whether arguments after the first non-null one are evaluated at
			// all is not pinned
			for i, k := range n.Kids {
				_, f := ev.eval(k, cur, env)
				if f != nil {
					break
				}
				if args[i] != nil {
					return nil, unspec("not_null: fault in an argument after the first non-null one")
				}
			}
		}
		// merge and zip check each argument's type as they go: a wrongly typed
		// argument next to a faulting one may be reported instead
		if name == "merge" || name == "zip" {
			for i, k := range n.Kids {
				v, f := ev.eval(k, cur, env)
				if f != nil {
					continue
				}
				_, isObj := v.(*Obj)
				_, isArr := v.(*Arr)
				if (name == "merge" && !isObj) || (name == "zip" && !isArr) {
					ff = merge(ff, typeFault(name, i, v, "object/array"))
				}
			}
		}
		return nil, ff
	}
	return ev.apply(name, args)
}

func asInt(fn string, i int, v V) (*big.Int, *Fault) {
	x, ok := v.(Num)
	if !ok {
		return nil, typeFault(fn, i, v, "number")
	}
	if x.Ulp != nil {
		return nil, unspec("%s: inexact number as integer argument", fn)
	}
	if !x.R.IsInt() {
		return nil, fault(CatValue, "%s: argument %d is not an integer", fn, i+1)
	}
	if n := x.R.Num(); n.Cmp(minInt64) < 0 || n.Cmp(maxInt64) > 0 {
		return nil, unspec("%s: integer argument beyond 64 bits", fn)
	}
	return new(big.Int).Set(x.R.Num()), nil
}

func runes(s string) []rune { return []rune(s) }

func (ev *evaluator) applyExpref(e *Expref, el V) (V, *Fault) {
	return ev.eval(e.N, el, e.Env)
}

func (ev *evaluator) apply(name string, args []V) (V, *Fault) {
	switch name {
	case "abs":
		x, ok := args[0].(Num)
		if !ok {
			return nil, typeFault(name, 0, args[0], "number")
		}
		if !exactDec(x) {
			return nil, unspec("abs of a number that is not exactly representable")
		}
		return Num{R: new(big.Rat).Abs(x.R)}, nil
	case "ceil", "floor":
		x, ok := args[0].(Num)
		if !ok {
			return nil, typeFault(name, 0, args[0], "number")
		}
		if !exactDec(x) {
			return nil, unspec("%s of a number that is not exactly representable", name)
		}
		q := new(big.Int).Div(x.R.Num(), x.R.Denom()) // Euclidean: floor for positive denominators
		// big.Int.Div is Euclidean division: for a positive divisor it is floor.
		fl := new(big.Rat).SetInt(q)
		if name == "floor" || x.R.IsInt() {
			return Num{R: fl}, nil
		}
		return Num{R: fl.Add(fl, big.NewRat(1, 1))}, nil
	case "avg", "sum":
		a, ok := args[0].(*Arr)
		if !ok {
			return nil, typeFault(name, 0, args[0], "array of numbers")
		}
		acc := new(big.Rat)
		inexact := false
		for _, e := range a.E {
			x, ok := e.(Num)
			if !ok {
				return nil, typeFault(name, 0, e, "array of numbers")
			}
			if !exactDec(x) {
				inexact = true
				continue
			}
			acc.Add(acc, x.R)
			if fin, d := SigDigits(acc); !fin || d > 34 {
				inexact = true
			}
			if acc.Sign() != 0 {
				if e10 := Exp10(acc); e10 > 6144 || e10 < -6143 {
					inexact = true
				}
			}
		}
		if inexact {
			return nil, unspec("%s with an operand or partial sum that is not exactly representable", name)
		}
		if !ordered(a) && false {
			return nil, nil
		}
		if name == "sum" {
			return Num{R: acc}, nil
		}
		if len(a.E) == 0 {
			return nil, nil
		}
		return roundResult(acc.Quo(acc, new(big.Rat).SetInt64(int64(len(a.E)))))
	case "contains":
		switch s := args[0].(type) {
		case string:
			sub, ok := args[1].(string)
			if !ok {
				return nil, unspec("contains(string, non-string)")
			}
			return strings.Contains(s, sub), nil
		case *Arr:
			undecided := false
			for _, e := range s.E {
				eq, ok := Equal(e, args[1])
				if !ok || !numsExact(e) {
					undecided = true
					continue
				}
				if eq {
					if !numsExact(args[1]) {
						return nil, unspec("contains with an inexact number")
					}
					return true, nil
				}
			}
			if undecided || !numsExact(args[1]) {
				return nil, unspec("contains: equality the model cannot decide")
			}
			return false, nil
		}
		return nil, typeFault(name, 0, args[0], "array|string")
	case "starts_with", "ends_with":
		s, ok1 := args[0].(string)
		p, ok2 := args[1].(string)
		if !ok1 {
			return nil, typeFault(name, 0, args[0], "string")
		}
		if !ok2 {
			return nil, typeFault(name, 1, args[1], "string")
		}
		if name == "starts_with" {
			return strings.HasPrefix(s, p), nil
		}
		return strings.HasSuffix(s, p), nil
	case "find_first", "find_last":
		return findFn(name, args)
	case "from_items":
		a, ok := args[0].(*Arr)
		if !ok {
			return nil, typeFault(name, 0, args[0], "array")
		}
		o := NewObj()
		var ff *Fault
		for _, e := range a.E {
			p, ok := e.(*Arr)
			if !ok {
				ff = merge(ff, fault(CatType|CatValue, "from_items: item is %s, want [key, value]", TypeName(e)))
				continue
			}
			if len(p.E) != 2 {
				ff = merge(ff, fault(CatValue, "from_items: item of length %d", len(p.E)))
				continue
			}
			k, ok := p.E[0].(string)
			if !ok {
				ff = merge(ff, fault(CatValue, "from_items: key is %s", TypeName(p.E[0])))
				continue
			}
			if !ordered(p) {
				ff = merge(ff, unspec("from_items: pair of undetermined order"))
			}
			o.Set(k, p.E[1])
		}
		if ff != nil {
			return nil, ff
		}
		if !ordered(a) {
			// duplicates are resolved last-writer-wins: order matters then
			seen := map[string]bool{}
			for _, e := range a.E {
				k := e.(*Arr).E[0].(string)
				if seen[k] {
					return nil, unspec("from_items: duplicate keys in an array of undetermined order")
				}
				seen[k] = true
			}
		}
		return o, nil
	case "group_by":
		a, ok := args[0].(*Arr)
		if !ok {
			return nil, typeFault(name, 0, args[0], "array")
		}
		e := args[1].(*Expref)
		if len(a.E) == 0 {
			return nil, unspec("group_by of an empty array")
		}
		o := NewObj()
		var ff *Fault
		for _, el := range a.E {
			k, f := ev.applyExpref(e, el)
			if f != nil {
				ff = merge(ff, f)
				continue
			}
			ks, ok := k.(string)
			if !ok {
				if k == nil {
					ff = merge(ff, unspec("group_by: null key"))
				} else {
					ff = merge(ff, fault(CatType, "group_by: key is %s", TypeName(k)))
				}
				continue
			}
			if g, has := o.M[ks]; has {
				ga := g.(*Arr)
				ga.E = append(ga.E, el)
				if !ordered(a) {
					ga.Unordered = true
				}
			} else {
				o.Set(ks, &Arr{E: []V{el}})
			}
		}
		if ff != nil {
			return nil, ff
		}
		return o, nil
	case "items", "keys", "values":
		o, ok := args[0].(*Obj)
		if !ok {
			return nil, typeFault(name, 0, args[0], "object")
		}
		r := &Arr{E: make([]V, len(o.Keys)), Unordered: len(o.Keys) > 1}
		for i, k := range o.Keys {
			switch name {
			case "items":
				r.E[i] = &Arr{E: []V{k, o.M[k]}}
			case "keys":
				r.E[i] = k
			default:
				r.E[i] = o.M[k]
			}
		}
		return r, nil
	case "join":
		g, ok := args[0].(string)
		var ff *Fault
		if !ok {
			ff = merge(ff, typeFault(name, 0, args[0], "string"))
		}
		a, ok := args[1].(*Arr)
		if !ok {
			return nil, merge(ff, typeFault(name, 1, args[1], "array of strings"))
		}
		parts := make([]string, len(a.E))
		for i, e := range a.E {
			s, ok := e.(string)
			if !ok {
				return nil, merge(ff, typeFault(name, 1, e, "array of strings"))
			}
			parts[i] = s
		}
		if ff != nil {
			return nil, ff
		}
		if !ordered(a) {
			return nil, unspec("join of an array of undetermined order")
		}
		return strings.Join(parts, g), nil
	case "length":
		switch s := args[0].(type) {
		case string:
			return IntNum(int64(utf8.RuneCountInString(s))), nil
		case *Arr:
			return IntNum(int64(len(s.E))), nil
		case *Obj:
			return IntNum(int64(len(s.Keys))), nil
		}
		return nil, typeFault(name, 0, args[0], "string|array|object")
	case "lower", "upper":
		s, ok := args[0].(string)
		if !ok {
			return nil, typeFault(name, 0, args[0], "string")
		}
		for _, r := range s {
			if !CaseDecided(r) {
				return nil, unspec("%s of a character whose case conversion is not the same in every Unicode-aware implementation", name)
			}
		}
		if name == "lower" {
			return strings.Map(unicode.ToLower, s), nil
		}
		return strings.Map(unicode.ToUpper, s), nil
	case "map":
		e := args[0].(*Expref)
		a, ok := args[1].(*Arr)
		if !ok {
			return nil, typeFault(name, 1, args[1], "array")
		}
		r := &Arr{E: make([]V, len(a.E)), Unordered: a.Unordered && len(a.E) > 1}
		var ff *Fault
		for i, el := range a.E {
			v, f := ev.applyExpref(e, el)
			ff = merge(ff, f)
			r.E[i] = v
		}
		if ff != nil {
			return nil, ff
		}
		return r, nil
	case "max", "min":
		a, ok := args[0].(*Arr)
		if !ok {
			return nil, typeFault(name, 0, args[0], "array")
		}
		keys, f := orderKeys(name, a.E)
		if f != nil {
			return nil, f
		}
		if len(a.E) == 0 {
			return nil, nil
		}
		best := 0
		for i := 1; i < len(keys); i++ {
			c := cmpKey(keys[i], keys[best])
			if name == "max" && c > 0 || name == "min" && c < 0 {
				best = i
			}
		}
		// the extremal number "found": its value is pinned, its spelling is not
		// (an implementation may hand back the number it compared with)
		if n, isNum := a.E[best].(Num); isNum {
			n.Txt = ""
			return n, nil
		}
		return a.E[best], nil
	case "max_by", "min_by":
		a, ok := args[0].(*Arr)
		if !ok {
			return nil, typeFault(name, 0, args[0], "array")
		}
		e := args[1].(*Expref)
		ks := make([]V, len(a.E))
		var ff *Fault
		for i, el := range a.E {
			k, f := ev.applyExpref(e, el)
			ff = merge(ff, f)
			ks[i] = k
		}
		if ff != nil {
			return nil, merge(ff, partialKeyFault(name, ks))
		}
		keys, f := orderKeys(name, ks)
		if f != nil {
			return nil, f
		}
		if len(a.E) == 0 {
			return nil, nil
		}
		best := 0
		for i := 1; i < len(keys); i++ {
			c := cmpKey(keys[i], keys[best])
			if name == "max_by" && c > 0 || name == "min_by" && c < 0 {
				best = i
			}
		}
		// ties between different elements: which one is returned is not pinned
		for i := range keys {
			if i != best && cmpKey(keys[i], keys[best]) == 0 {
				if eq, ok := Equal(a.E[i], a.E[best]); !ok || !eq {
					return nil, unspec("%s: tie between different elements", name)
				}
			}
		}
		return a.E[best], nil
	case "merge":
		o := NewObj()
		var ff *Fault
		for i, x := range args {
			xo, ok := x.(*Obj)
			if !ok {
				ff = merge(ff, typeFault(name, i, x, "object"))
				continue
			}
			for _, k := range xo.Keys {
				o.Set(k, xo.M[k])
			}
		}
		if ff != nil {
			return nil, ff
		}
		return o, nil
	case "not_null":
		for _, x := range args {
			if x != nil {
				return x, nil
			}
		}
		return nil, nil
	case "pad_left", "pad_right":
		var ff *Fault
		s, ok := args[0].(string)
		if !ok {
			ff = merge(ff, typeFault(name, 0, args[0], "string"))
		}
		w, f := asInt(name, 1, args[1])
		ff = merge(ff, f)
		if f == nil && w.Sign() < 0 {
			ff = merge(ff, fault(CatValue, "%s: negative width", name))
		}
		pad := " "
		if len(args) > 2 {
			p, ok := args[2].(string)
			if !ok {
				ff = merge(ff, typeFault(name, 2, args[2], "string"))
			} else if utf8.RuneCountInString(p) != 1 {
				ff = merge(ff, fault(CatValue, "%s: pad string of length %d", name, utf8.RuneCountInString(p)))
			}
			pad = p
		}
		if ff != nil {
			return nil, ff
		}
		l := utf8.RuneCountInString(s)
		if !w.IsInt64() || w.Int64() > 1<<24 {
			return nil, unspec("%s: width beyond the model's bound", name)
		}
		n := int(w.Int64()) - l
		if n <= 0 {
			return s, nil
		}
		if name == "pad_left" {
			return strings.Repeat(pad, n) + s, nil
		}
		return s + strings.Repeat(pad, n), nil
	case "replace":
		var ff *Fault
		s, ok1 := args[0].(string)
		if !ok1 {
			ff = merge(ff, typeFault(name, 0, args[0], "string"))
		}
		old, ok2 := args[1].(string)
		if !ok2 {
			ff = merge(ff, typeFault(name, 1, args[1], "string"))
		}
		nw, ok3 := args[2].(string)
		if !ok3 {
			ff = merge(ff, typeFault(name, 2, args[2], "string"))
		}
		count := -1
		if len(args) > 3 {
			c, f := asInt(name, 3, args[3])
			ff = merge(ff, f)
			if f == nil {
				if c.Sign() < 0 {
					ff = merge(ff, fault(CatValue, "replace: negative count"))
				} else if c.IsInt64() && c.Int64() < 1<<30 {
					count = int(c.Int64())
				} else {
					count = 1 << 30
				}
			}
		}
		if ff != nil {
			return nil, ff
		}
		if old == "" {
			return nil, unspec("replace with an empty search string")
		}
		return strings.Replace(s, old, nw, count), nil
	case "reverse":
		switch s := args[0].(type) {
		case string:
			rs := runes(s)
			for i, j := 0, len(rs)-1; i < j; i, j = i+1, j-1 {
				rs[i], rs[j] = rs[j], rs[i]
			}
			return string(rs), nil
		case *Arr:
			r := &Arr{E: make([]V, len(s.E)), Unordered: s.Unordered}
			for i, e := range s.E {
				r.E[len(s.E)-1-i] = e
			}
			return r, nil
		}
		return nil, typeFault(name, 0, args[0], "string|array")
	case "sort":
		a, ok := args[0].(*Arr)
		if !ok {
			return nil, typeFault(name, 0, args[0], "array")
		}
		keys, f := orderKeys(name, a.E)
		if f != nil {
			return nil, f
		}
		idx := make([]int, len(a.E))
		for i := range idx {
			idx[i] = i
		}
		sort.SliceStable(idx, func(i, j int) bool { return cmpKey(keys[idx[i]], keys[idx[j]]) < 0 })
		r := &Arr{E: make([]V, len(a.E))}
		for i, j := range idx {
			r.E[i] = a.E[j]
		}
		return r, nil
	case "sort_by":
		a, ok := args[0].(*Arr)
		if !ok {
			return nil, typeFault(name, 0, args[0], "array")
		}
		e := args[1].(*Expref)
		ks := make([]V, len(a.E))
		var ff *Fault
		for i, el := range a.E {
			k, f := ev.applyExpref(e, el)
			ff = merge(ff, f)
			ks[i] = k
		}
		if ff != nil {
			return nil, merge(ff, partialKeyFault(name, ks))
		}
		keys, f := orderKeys(name, ks)
		if f != nil {
			return nil, f
		}
		idx := make([]int, len(a.E))
		for i := range idx {
			idx[i] = i
		}
		sort.SliceStable(idx, func(i, j int) bool { return cmpKey(keys[idx[i]], keys[idx[j]]) < 0 })
		r := &Arr{E: make([]V, len(a.E))}
		for i, j := range idx {
			r.E[i] = a.E[j]
		}
		if !ordered(a) {
			// stability makes the result depend on the input order when keys tie
			for i := 1; i < len(idx); i++ {
				if cmpKey(keys[idx[i-1]], keys[idx[i]]) == 0 {
					return nil, unspec("sort_by: ties in an array of undetermined order")
				}
			}
		}
		return r, nil
	case "split":
		var ff *Fault
		s, ok1 := args[0].(string)
		if !ok1 {
			ff = merge(ff, typeFault(name, 0, args[0], "string"))
		}
		sep, ok2 := args[1].(string)
		if !ok2 {
			ff = merge(ff, typeFault(name, 1, args[1], "string"))
		}
		count := -1
		if len(args) > 2 {
			c, f := asInt(name, 2, args[2])
			ff = merge(ff, f)
			if f == nil {
				if c.Sign() < 0 {
					ff = merge(ff, fault(CatValue, "split: negative count"))
				} else if c.IsInt64() && c.Int64() < 1<<30 {
					count = int(c.Int64())
				} else {
					count = 1 << 30
				}
			}
		}
		if ff != nil {
			return nil, ff
		}
		if s == "" {
			if sep == "" && count < 0 {
				return &Arr{E: []V{}}, nil
			}
			return nil, unspec("split of an empty string")
		}
		var parts []string
		if sep == "" {
			rs := runes(s)
			if count >= 0 && count >= len(rs) {
				return nil, unspec("split on the empty separator with count >= length")
			}
			if count < 0 {
				for _, r := range rs {
					parts = append(parts, string(r))
				}
			} else {
				for _, r := range rs[:count] {
					parts = append(parts, string(r))
				}
				parts = append(parts, string(rs[count:]))
			}
		} else if count < 0 {
			parts = strings.Split(s, sep)
		} else {
			parts = strings.SplitN(s, sep, count+1)
		}
		r := &Arr{E: make([]V, len(parts))}
		for i, p := range parts {
			r.E[i] = p
		}
		return r, nil
	case "to_array":
		if a, ok := args[0].(*Arr); ok {
			return a, nil
		}
		if _, ok := args[0].(*Expref); ok {
			return nil, unspec("to_array of an expression reference")
		}
		return &Arr{E: []V{args[0]}}, nil
	case "to_number":
		switch s := args[0].(type) {
		case Num:
			return s, nil
		case string:
			if !IsJSONNumber(s) {
				return nil, nil
			}
			n, ok := ParseNumber(s)
			if !ok {
				return nil, unspec("to_number: number outside the model's range")
			}
			if !exactDec(n) {
				return nil, unspec("to_number: number that is not exactly representable")
			}
			return n, nil
		case *Expref:
			return nil, unspec("to_number of an expression reference")
		}
		return nil, nil
	case "to_string":
		if s, ok := args[0].(string); ok {
			return s, nil
		}
		if t, ok := simpleJSON(args[0]); ok {
			return t, nil
		}
		return nil, unspec("to_string: exact text is not pinned for this value")
	case "trim", "trim_left", "trim_right":
		var ff *Fault
		s, ok := args[0].(string)
		if !ok {
			ff = merge(ff, typeFault(name, 0, args[0], "string"))
		}
		chars := ""
		if len(args) > 1 {
			c, ok := args[1].(string)
			if !ok {
				ff = merge(ff, typeFault(name, 1, args[1], "string"))
			}
			chars = c
		}
		if ff != nil {
			return nil, ff
		}
		left := name != "trim_right"
		right := name != "trim_left"
		rs := runes(s)
		in := func(r rune) bool { return strings.ContainsRune(chars, r) }
		if chars == "" {
			// the specification's white space: the 25 code points of Unicode's White_Space property
			// (the compliance corpus trims exactly this list); nothing else - not U+180E, U+200B, U+FEFF
			in = func(r rune) bool {
				return (r >= 0x09 && r <= 0x0D) || r == 0x20 || r == 0x85 || r == 0xA0 || r == 0x1680 || (r >= 0x2000 && r <= 0x200A) || r == 0x2028 || r == 0x2029 || r == 0x202F || r == 0x205F || r == 0x3000
			}
		}
		i, j := 0, len(rs)
		if left {
			for i < j && in(rs[i]) {
				i++
			}
		}
		if right {
			for j > i && in(rs[j-1]) {
				j--
			}
		}
		return string(rs[i:j]), nil
	case "type":
		if _, ok := args[0].(*Expref); ok {
			return nil, unspec("type of an expression reference")
		}
		return TypeName(args[0]), nil
	case "zip":
		var ff *Fault
		n := -1
		for i, x := range args {
			a, ok := x.(*Arr)
			if !ok {
				ff = merge(ff, typeFault(name, i, x, "array"))
				continue
			}
			if !ordered(a) {
				ff = merge(ff, unspec("zip of an array of undetermined order"))
			}
			if n < 0 || len(a.E) < n {
				n = len(a.E)
			}
		}
		if ff != nil {
			return nil, ff
		}
		r := &Arr{E: make([]V, n)}
		for i := 0; i < n; i++ {
			t := &Arr{E: make([]V, len(args))}
			for j, x := range args {
				t.E[j] = x.(*Arr).E[i]
			}
			r.E[i] = t
		}
		return r, nil
	}
	return nil, unspec("function %s not modelled", name)
}

// simpleJSON renders values whose JSON text every implementation agrees on.
func simpleJSON(v V) (string, bool) {
	switch v := v.(type) {
	case nil:
		return "null", true
	case bool:
		if v {
			return "true", true
		}
		return "false", true
	case Num:
		// pinned only for pass-through numbers in plain canonical spelling
		if v.Txt == "" || v.Txt != NumText(v) || len(v.Txt) > 15 || strings.ContainsAny(v.Txt, "eE") {
			return "", false
		}
		return v.Txt, true
	case string:
		for i := 0; i < len(v); i++ {
			c := v[i]
			if !(c >= 'a' && c <= 'z' || c >= 'A' && c <= 'Z' || c >= '0' && c <= '9' || c == ' ' || c == '_' || c == '-') {
				return "", false
			}
		}
		return `"` + v + `"`, true
	case *Arr:
		if !ordered(v) {
			return "", false
		}
		parts := make([]string, len(v.E))
		for i, e := range v.E {
			s, ok := simpleJSON(e)
			if !ok {
				return "", false
			}
			parts[i] = s
		}
		return "[" + strings.Join(parts, ",") + "]", true
	case *Obj:
		if len(v.Keys) > 1 {
			return "", false
		}
		if len(v.Keys) == 0 {
			return "{}", true
		}
		k, ok1 := simpleJSON(v.Keys[0])
		e, ok2 := simpleJSON(v.M[v.Keys[0]])
		if !ok1 || !ok2 {
			return "", false
		}
		return "{" + k + ":" + e + "}", true
	}
	return "", false
}

// orderKeys validates that keys are all numbers or all strings.
func orderKeys(fn string, ks []V) ([]V, *Fault) {
	if len(ks) == 0 {
		return ks, nil
	}
	nNum, nStr := 0, 0
	for _, k := range ks {
		switch k.(type) {
		case Num:
			nNum++
		case string:
			nStr++
		default:
			return nil, fault(CatType, "%s: element/key of type %s", fn, TypeName(k))
		}
	}
	if nNum > 0 && nStr > 0 {
		return nil, fault(CatType, "%s: mixed numbers and strings", fn)
	}
	for _, k := range ks {
		if n, ok := k.(Num); ok && !exactDec(n) {
			return nil, unspec("%s: number that is not exactly representable", fn)
		}
	}
	return ks, nil
}

// cmpKey compares two keys of the same kind: numbers by value, strings by
// code point.
func cmpKey(a, b V) int {
	if x, ok := a.(Num); ok {
		return x.R.Cmp(b.(Num).R)
	}
	return CmpCodePoints(a.(string), b.(string))
}

// CmpCodePoints orders strings by Unicode code point.
func CmpCodePoints(a, b string) int {
	ra, rb := runes(a), runes(b)
	for i := 0; i < len(ra) && i < len(rb); i++ {
		if ra[i] != rb[i] {
			if ra[i] < rb[i] {
				return -1
			}
			return 1
		}
	}
	switch {
	case len(ra) < len(rb):
		return -1
	case len(ra) > len(rb):
		return 1
	}
	return 0
}

func findFn(name string, args []V) (V, *Fault) {
	var ff *Fault
	s, ok := args[0].(string)
	if !ok {
		ff = merge(ff, typeFault(name, 0, args[0], "string"))
	}
	sub, ok := args[1].(string)
	if !ok {
		ff = merge(ff, typeFault(name, 1, args[1], "string"))
	}
	var start, end *big.Int
	if len(args) > 2 {
		v, f := asInt(name, 2, args[2])
		ff = merge(ff, f)
		start = v
	}
	if len(args) > 3 {
		v, f := asInt(name, 3, args[3])
		ff = merge(ff, f)
		end = v
	}
	if ff != nil {
		return nil, ff
	}
	rs, rsub := runes(s), runes(sub)
	if len(rsub) == 0 {
		return nil, nil
	}
	n := len(rs)
	// two readings of negative positions: clamp to 0 / count from the end
	reading := func(fromEnd bool) (int, bool) {
		lo, hi := 0, n
		norm := func(v *big.Int) int {
			if v.Sign() < 0 {
				if !fromEnd {
					return 0
				}
				w := new(big.Int).Add(v, big.NewInt(int64(n)))
				if w.Sign() < 0 {
					return 0
				}
				return int(w.Int64())
			}
			if v.Cmp(big.NewInt(int64(n))) > 0 {
				return n
			}
			return int(v.Int64())
		}
		if start != nil {
			lo = norm(start)
		}
		if end != nil {
			hi = norm(end)
		}
		found := -1
		for i := lo; i+len(rsub) <= hi; i++ {
			match := true
			for j := range rsub {
				if rs[i+j] != rsub[j] {
					match = false
					break
				}
			}
			if match {
				found = i
				if name == "find_first" {
					break
				}
			}
		}
		return found, found >= 0
	}
	a, okA := reading(false)
	b, okB := reading(true)
	if okA != okB || a != b {
		return nil, unspec("%s: negative position (readings differ)", name)
	}
	if !okA {
		return nil, nil
	}
	return IntNum(int64(a)), nil
}

// applySafe calls apply and turns a panic of the model itself (probing with
// null placeholders may hit type assertions) into "no verdict".
func (ev *evaluator) applySafe(name string, args []V) (v V, f *Fault) {
	defer func() {
		if r := recover(); r != nil {
			v, f = nil, nil
		}
	}()
	return ev.apply(name, args)
}

// partialKeyFault: when some key expressions fault, the keys that did evaluate
// may still be of a wrong type, and that type fault may be reported instead.
func partialKeyFault(fn string, ks []V) *Fault {
	var ok []V
	for _, k := range ks {
		if k != nil {
			ok = append(ok, k)
		}
	}
	for _, k := range ks {
		if k == nil {
			// a null key (or a faulted one, also nil here) would be a type fault too
			return fault(CatType, "%s: null key next to a faulting key expression", fn)
		}
	}
	_, f := orderKeys(fn, ok)
	if f != nil && f.Cats&CatUnspec != 0 {
		return nil
	}
	return f
}

// caseRanges: scripts and symbols whose case pairs are one-to-one, context-free and as old as
// Unicode's case tables, so that every Unicode-aware lower/upper agrees on them.
var caseRanges = [][2]rune{
	{0x00C0, 0x00D6}, {0x00D8, 0x00DE}, {0x00E0, 0x00F6}, {0x00F8, 0x00FF}, // Latin-1 letters (not the sharp s, not the micro sign)
	{0x0100, 0x012F}, {0x0132, 0x0148}, {0x014A, 0x017F}, // Latin Extended-A without the dotted/dotless i and the apostrophe-n
	{0x0391, 0x03A1}, {0x03A4, 0x03A9}, {0x03B1, 0x03C1}, {0x03C4, 0x03C9}, // plain Greek letters without any sigma
	{0x0400, 0x045F},                                     // Cyrillic
	{0x0531, 0x0556}, {0x0561, 0x0586}, // Armenian (not the ech-yiwn ligature)
	{0x212A, 0x212B}, {0x2126, 0x2126}, // Kelvin, Angstrom, Ohm signs
	{0x2160, 0x217F},                   // Roman numerals
	{0x24B6, 0x24E9},                   // circled Latin letters
	{0xFF21, 0xFF3A}, {0xFF41, 0xFF5A}, // fullwidth Latin letters
	{0x10400, 0x1044F}, // Deseret
}

// CaseDecided: the model decides lower/upper for ASCII, for the ranges above and for characters
// that have no case at all; everything else (special casing, context-dependent letters, title-case
// digraphs, scripts that gained case recently) is left open.
func CaseDecided(r rune) bool {
	if r < 0x80 {
		return true
	}
	if r == utf8.RuneError {
		return false
	}
	for _, cr := range caseRanges {
		if r >= cr[0] && r <= cr[1] {
			return true
		}
	}
	return unicode.ToLower(r) == r && unicode.ToUpper(r) == r && unicode.ToTitle(r) == r && !unicode.Is(unicode.Other_Lowercase, r) && !unicode.Is(unicode.Other_Uppercase, r) && r != 0x0345 && !(r >= 0x1F00 && r <= 0x1FFF)
}
