package gen

import (
	"math/big"

	"verif/harness/ref"
)

// ArgKind describes what a well-typed argument looks like.
type ArgKind int

const (
	AAny ArgKind = iota
	ANum
	AStr
	AArr
	AArrNum
	AArrStr
	AArrArr
	AArrObj
	AObj
	AInt     // small non-negative integer
	AIntAny  // integer, possibly negative
	AStr1    // one code point
	AExprKey // expression reference yielding a sortable key (applied to elements of arg 0)
	AExprAny // expression reference (map)
	AArrPairs
)

// FuncSpec lists the argument kinds of a builtin (optional ones after Min).
type FuncSpec struct {
	Name     string
	Args     []ArgKind
	Min      int
	Variadic bool
}

var FuncSpecs = []FuncSpec{
	{"abs", []ArgKind{ANum}, 1, false},
	{"avg", []ArgKind{AArrNum}, 1, false},
	{"ceil", []ArgKind{ANum}, 1, false},
	{"contains", []ArgKind{AArr, AAny}, 2, false},
	{"contains", []ArgKind{AStr, AStr}, 2, false},
	{"ends_with", []ArgKind{AStr, AStr}, 2, false},
	{"find_first", []ArgKind{AStr, AStr, AIntAny, AIntAny}, 2, false},
	{"find_last", []ArgKind{AStr, AStr, AIntAny, AIntAny}, 2, false},
	{"floor", []ArgKind{ANum}, 1, false},
	{"from_items", []ArgKind{AArrPairs}, 1, false},
	{"group_by", []ArgKind{AArrObj, AExprKey}, 2, false},
	{"items", []ArgKind{AObj}, 1, false},
	{"join", []ArgKind{AStr, AArrStr}, 2, false},
	{"keys", []ArgKind{AObj}, 1, false},
	{"length", []ArgKind{AAny}, 1, false},
	{"lower", []ArgKind{AStr}, 1, false},
	{"map", []ArgKind{AExprAny, AArr}, 2, false},
	{"max", []ArgKind{AArrNum}, 1, false},
	{"max", []ArgKind{AArrStr}, 1, false},
	{"max_by", []ArgKind{AArrObj, AExprKey}, 2, false},
	{"merge", []ArgKind{AObj, AObj, AObj}, 1, true},
	{"min", []ArgKind{AArrNum}, 1, false},
	{"min", []ArgKind{AArrStr}, 1, false},
	{"min_by", []ArgKind{AArrObj, AExprKey}, 2, false},
	{"not_null", []ArgKind{AAny, AAny, AAny}, 1, true},
	{"pad_left", []ArgKind{AStr, AInt, AStr1}, 2, false},
	{"pad_right", []ArgKind{AStr, AInt, AStr1}, 2, false},
	{"replace", []ArgKind{AStr, AStr, AStr, AInt}, 3, false},
	{"reverse", []ArgKind{AArr}, 1, false},
	{"reverse", []ArgKind{AStr}, 1, false},
	{"sort", []ArgKind{AArrNum}, 1, false},
	{"sort", []ArgKind{AArrStr}, 1, false},
	{"sort_by", []ArgKind{AArrObj, AExprKey}, 2, false},
	{"split", []ArgKind{AStr, AStr, AInt}, 2, false},
	{"starts_with", []ArgKind{AStr, AStr}, 2, false},
	{"sum", []ArgKind{AArrNum}, 1, false},
	{"to_array", []ArgKind{AAny}, 1, false},
	{"to_number", []ArgKind{AAny}, 1, false},
	{"to_string", []ArgKind{AAny}, 1, false},
	{"trim", []ArgKind{AStr, AStr}, 1, false},
	{"trim_left", []ArgKind{AStr, AStr}, 1, false},
	{"trim_right", []ArgKind{AStr, AStr}, 1, false},
	{"type", []ArgKind{AAny}, 1, false},
	{"upper", []ArgKind{AStr}, 1, false},
	{"values", []ArgKind{AObj}, 1, false},
	{"zip", []ArgKind{AArr, AArr, AArr}, 1, true},
}

func isKind(k ArgKind) func(ref.V) bool {
	allOf := func(a *ref.Arr, f func(ref.V) bool) bool {
		for _, e := range a.E {
			if !f(e) {
				return false
			}
		}
		return true
	}
	switch k {
	case ANum:
		return func(v ref.V) bool { _, ok := v.(ref.Num); return ok }
	case AStr:
		return func(v ref.V) bool { _, ok := v.(string); return ok }
	case AArr:
		return func(v ref.V) bool { _, ok := v.(*ref.Arr); return ok }
	case AObj:
		return func(v ref.V) bool { _, ok := v.(*ref.Obj); return ok }
	case AArrNum:
		return func(v ref.V) bool {
			a, ok := v.(*ref.Arr)
			return ok && len(a.E) > 0 && allOf(a, isKind(ANum))
		}
	case AArrStr:
		return func(v ref.V) bool {
			a, ok := v.(*ref.Arr)
			return ok && len(a.E) > 0 && allOf(a, isKind(AStr))
		}
	case AArrArr:
		return func(v ref.V) bool {
			a, ok := v.(*ref.Arr)
			return ok && len(a.E) > 0 && allOf(a, isKind(AArr))
		}
	case AArrObj:
		return func(v ref.V) bool {
			a, ok := v.(*ref.Arr)
			if !ok || len(a.E) == 0 {
				return false
			}
			n := 0
			for _, e := range a.E {
				if _, ok := e.(*ref.Obj); ok {
					n++
				}
			}
			return n*2 > len(a.E)
		}
	}
	return func(ref.V) bool { return true }
}

// freshOf draws a fresh literal value of the kind.
func (g *ExprGen) freshOf(k ArgKind) ref.V {
	r := g.R
	switch k {
	case ANum:
		return Num(Pick(r, NumPool))
	case AStr:
		return Pick(r, StrPool)
	case AStr1:
		return Pick(r, []string{"-", " ", "é", "✓", "𝌆", "0"})
	case AInt:
		return IntV(int64(r.Intn(8)))
	case AIntAny:
		return IntV(int64(r.Intn(14) - 4))
	case AArr:
		return Array(r, 1)
	case AObj:
		return Object(r, 1)
	case AArrNum:
		n := r.Intn(5)
		a := &ref.Arr{E: []ref.V{}}
		for i := 0; i < n; i++ {
			a.E = append(a.E, Num(Pick(r, NumPool)))
		}
		return a
	case AArrStr:
		n := r.Intn(5)
		a := &ref.Arr{E: []ref.V{}}
		for i := 0; i < n; i++ {
			a.E = append(a.E, Pick(r, StrPool))
		}
		return a
	case AArrObj:
		return Records(r, 1)
	case AArrPairs:
		n := r.Intn(4)
		a := &ref.Arr{E: []ref.V{}}
		for i := 0; i < n; i++ {
			a.E = append(a.E, &ref.Arr{E: []ref.V{Pick(r, Keys), Scalar(r)}})
		}
		return a
	}
	return Scalar(r)
}

// Arg generates an argument expression of the given kind evaluated against c.
// first is the (already generated) first argument's value, for exprefs.
func (g *ExprGen) Arg(c ref.V, k ArgKind, depth int, first ref.V) *ref.Node {
	r := g.R
	switch k {
	case AExprKey, AExprAny:
		var el ref.V
		if a, ok := first.(*ref.Arr); ok {
			el = sample(r, a.E)
		}
		var body *ref.Node
		if k == AExprKey {
			// a key present in the element whose value is a number or string
			if o, ok := el.(*ref.Obj); ok && len(o.Keys) > 0 && r.Chance(85) {
				body = field(Pick(r, o.Keys))
				if r.Chance(14) {
					body = reenter(r, body)
				}
			} else {
				body = g.Chain(el, 1)
			}
		} else if depth > 0 && r.Chance(12) {
			// a call inside the expression reference (possibly of the same function)
			body = g.Call(el, depth-1)
		} else {
			body = g.Chain(el, 1+r.Intn(2))
			if r.Chance(25) && len(g.vars) > 0 {
				body = &ref.Node{Kind: ref.NMultiList, Kids: []*ref.Node{{Kind: ref.NVar, Name: Pick(r, g.vars)}, body}}
			}
		}
		return &ref.Node{Kind: ref.NExpref, Kids: []*ref.Node{body}}
	}
	// mostly well-typed
	if r.Chance(12) {
		return g.Expr(c, 0)
	}
	if k != AAny && k != AInt && k != AIntAny && k != AStr1 && k != AArrPairs && r.Chance(60) {
		if p := g.PathTo(c, isKind(k)); p != nil {
			return p
		}
	}
	if k == AAny && r.Chance(60) {
		return g.Chain(c, 1+r.Intn(2))
	}
	if depth > 0 && r.Chance(20) {
		return g.Expr(c, depth-1)
	}
	return Lit(g.freshOf(k))
}

// reenter wraps a key expression f in an equivalent one that calls a sorting
// or selecting builtin on a small array built from the element itself, so
// that the builtin is re-entered while an outer call of the same family is
// still collecting its keys.
func reenter(r *R, f *ref.Node) *ref.Node {
	two := &ref.Node{Kind: ref.NMultiList, Kids: []*ref.Node{cur(), cur()}}
	one := &ref.Node{Kind: ref.NMultiList, Kids: []*ref.Node{cur()}}
	ff := &ref.Node{Kind: ref.NMultiList, Kids: []*ref.Node{f, f}}
	ex := func(n *ref.Node) *ref.Node { return &ref.Node{Kind: ref.NExpref, Kids: []*ref.Node{n}} }
	call := func(name string, kids ...*ref.Node) *ref.Node {
		return &ref.Node{Kind: ref.NFunc, Name: name, Kids: kids}
	}
	idx := func(n *ref.Node, i int64) *ref.Node {
		return &ref.Node{Kind: ref.NIndex, Kids: []*ref.Node{n}, Idx: big.NewInt(i)}
	}
	switch r.Intn(7) {
	case 0:
		return sub(idx(call("sort_by", two, ex(f)), int64(r.Intn(2))), f)
	case 1:
		return sub(call("max_by", two, ex(f)), f)
	case 2:
		return sub(call("min_by", one, ex(f)), f)
	case 3:
		return idx(call("sort", ff), int64(r.Intn(2)))
	case 4:
		return call(Pick(r, []string{"min", "max"}), ff)
	case 5:
		return idx(call("map", ex(f), two), 1)
	}
	return sub(idx(call("reverse", call("sort_by", two, ex(f))), 0), f)
}

// Call generates a function call evaluated against c.
func (g *ExprGen) Call(c ref.V, depth int) *ref.Node {
	r := g.R
	spec := Pick(r, FuncSpecs)
	return g.CallSpec(c, spec, depth)
}

func (g *ExprGen) CallSpec(c ref.V, spec FuncSpec, depth int) *ref.Node {
	r := g.R
	n := &ref.Node{Kind: ref.NFunc, Name: spec.Name}
	na := spec.Min
	if len(spec.Args) > spec.Min {
		na += r.Intn(len(spec.Args) - spec.Min + 1)
	}
	var first ref.V
	for i := 0; i < na; i++ {
		k := spec.Args[min(i, len(spec.Args)-1)]
		// for map the array comes second: generate it first to direct the expref
		if spec.Name == "map" && i == 0 {
			arr := g.Arg(c, AArr, depth, nil)
			first = g.eval(arr, c)
			n.Kids = append(n.Kids, g.Arg(c, AExprAny, depth, first), arr)
			break
		}
		var a *ref.Node
		if (spec.Name == "pad_left" || spec.Name == "pad_right") && i == 1 {
			// the width legitimately drives the result size: always a small literal
			// (huge widths are the subject of C03's pad-huge stream and C09)
			w := int64(r.Intn(14) - 1)
			a = Lit(IntV(w))
			if r.Chance(8) {
				a = Lit(Num(Pick(r, []string{"1.5", "2.0", "1e1", "-0", "3.00"})))
			}
		} else {
			a = g.Arg(c, k, depth, first)
		}
		if i == 0 {
			first = g.eval(a, c)
		}
		n.Kids = append(n.Kids, a)
	}
	return n
}
