package gen

import (
	"encoding/json"
	"fmt"
	"sort"
	"strings"

	"github.com/woodsbury/decimal128"
)

// Describe renders any Go value (as fed to or returned by the library) with
// its dynamic types, for witnesses.
func Describe(v any) string {
	var b strings.Builder
	describe(&b, v, 0)
	return b.String()
}

func describe(b *strings.Builder, v any, depth int) {
	if b.Len() > 6000 {
		b.WriteString("…")
		return
	}
	if depth > 200 {
		b.WriteString("<deep>")
		return
	}
	switch v := v.(type) {
	case nil:
		b.WriteString("nil")
	case bool:
		fmt.Fprintf(b, "%v", v)
	case string:
		fmt.Fprintf(b, "%q", v)
	case json.Number:
		fmt.Fprintf(b, "json.Number(%q)", string(v))
	case decimal128.Decimal:
		fmt.Fprintf(b, "decimal(%s)", safeString(v))
	case []any:
		if v == nil {
			b.WriteString("[]any(nil)")
			return
		}
		b.WriteString("[]any{")
		for i, e := range v {
			if i > 0 {
				b.WriteString(", ")
			}
			describe(b, e, depth+1)
		}
		b.WriteString("}")
		if cap(v) > len(v) {
			fmt.Fprintf(b, "/*cap %d*/", cap(v))
		}
	case map[string]any:
		if v == nil {
			b.WriteString("map[string]any(nil)")
			return
		}
		ks := make([]string, 0, len(v))
		for k := range v {
			ks = append(ks, k)
		}
		sort.Strings(ks)
		b.WriteString("map[string]any{")
		for i, k := range ks {
			if i > 0 {
				b.WriteString(", ")
			}
			fmt.Fprintf(b, "%q: ", k)
			describe(b, v[k], depth+1)
		}
		b.WriteString("}")
	case float32, float64, int, int8, int16, int32, int64, uint, uint8, uint16, uint32, uint64:
		fmt.Fprintf(b, "%T(%v)", v, v)
	default:
		fmt.Fprintf(b, "<%T>", v)
	}
}

func safeString(d decimal128.Decimal) (s string) {
	defer func() {
		if r := recover(); r != nil {
			s = fmt.Sprintf("<String panicked: %v>", r)
		}
	}()
	return d.String()
}
