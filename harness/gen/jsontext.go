package gen

import (
	"strings"

	"verif/harness/ref"
)

// JSONLayout renders a model value as JSON text with random legal layout
// (whitespace, number spellings are the values' own).
func JSONLayout(r *R, v ref.V) string {
	var b strings.Builder
	ws := func() {
		if r.Chance(25) {
			b.WriteString(Pick(r, []string{" ", "\n", "\t", "  ", "\r\n"}))
		}
	}
	var w func(v ref.V)
	w = func(v ref.V) {
		switch x := v.(type) {
		case *ref.Arr:
			b.WriteByte('[')
			for i, e := range x.E {
				if i > 0 {
					b.WriteByte(',')
				}
				ws()
				w(e)
				ws()
			}
			if len(x.E) == 0 {
				ws()
			}
			b.WriteByte(']')
		case *ref.Obj:
			b.WriteByte('{')
			for i, k := range x.Keys {
				if i > 0 {
					b.WriteByte(',')
				}
				ws()
				b.WriteString(ref.ToJSONText(k))
				ws()
				b.WriteByte(':')
				ws()
				w(x.M[k])
				ws()
			}
			if len(x.Keys) == 0 {
				ws()
			}
			b.WriteByte('}')
		case ref.Num:
			if x.Txt != "" {
				b.WriteString(x.Txt)
			} else {
				b.WriteString(ref.NumText(x))
			}
		default:
			b.WriteString(ref.ToJSONText(v))
		}
	}
	ws()
	w(v)
	ws()
	return b.String()
}

// CorruptJSON applies one small edit that usually breaks JSON validity.
func CorruptJSON(r *R, s string) string {
	if s == "" {
		return s
	}
	i := r.Intn(len(s))
	switch r.Intn(9) {
	case 0:
		return s[:i] + s[i+1:]
	case 1:
		return s[:i] + Pick(r, []string{",", ":", "]", "}", "[", "{", "\"", "'", "x", "\\", "01", ".", "e", "+", "-", " 1"}) + s[i:]
	case 2:
		return s + Pick(r, []string{",", "]", "}", " 1", "x", "\""})
	case 3:
		return s[:i]
	case 4:
		return strings.Replace(s, "\"", "'", 1)
	case 5:
		return strings.Replace(s, ",", ",,", 1)
	case 6:
		return strings.Replace(s, ":", "=", 1)
	case 7:
		return strings.Replace(s, "true", "True", 1)
	}
	return Pick(r, []string{"[", "{", ",", ""}) + s
}
