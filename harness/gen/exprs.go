package gen

import (
	"math/big"

	"verif/harness/ref"
)

// ExprGen generates document-directed expressions as reference ASTs.  The
// generator evaluates what it builds with the model so that the next step
// can be chosen to fit the value at hand (most cases end up non-trivial).
type ExprGen struct {
	R    *R
	Root ref.V
	// Funcs: weight (0..100) of function calls
	Funcs int
	// Lets: allow let expressions
	Lets bool
	// Arith: allow arithmetic operators
	Arith bool
	vars  []string
	env   *ref.Env
}

func field(name string) *ref.Node { return &ref.Node{Kind: ref.NField, Name: name} }
func cur() *ref.Node              { return &ref.Node{Kind: ref.NCurrent} }
func ident() *ref.Node            { return &ref.Node{Kind: ref.NIdentity} }

// Lit makes a literal node.
func Lit(v ref.V) *ref.Node { return &ref.Node{Kind: ref.NLiteral, Val: v} }

func (g *ExprGen) eval(n *ref.Node, c ref.V) ref.V {
	v, f := ref.EvalNode(n, c, g.Root, g.env)
	if f != nil {
		return nil
	}
	if _, isE := v.(*ref.Expref); isE {
		return nil
	}
	return v
}

func sub(left, right *ref.Node) *ref.Node {
	if left == nil {
		return right
	}
	return &ref.Node{Kind: ref.NSub, Kids: []*ref.Node{left, right}}
}

func orCur(left *ref.Node) *ref.Node {
	if left == nil {
		return cur()
	}
	return left
}

// sample returns a representative non-null element of an array.
func sample(r *R, a []ref.V) ref.V {
	var nn []ref.V
	for _, e := range a {
		if e != nil {
			nn = append(nn, e)
		}
	}
	if len(nn) == 0 {
		return nil
	}
	return Pick(r, nn)
}

// Expr generates an expression evaluated against c.
func (g *ExprGen) Expr(c ref.V, depth int) *ref.Node {
	r := g.R
	if depth <= 0 {
		return g.Chain(c, 1)
	}
	w := []int{50, 8, 6, 5, 6, 6, 6, 4, 5, 0, 0}
	if g.Funcs > 0 {
		w[9] = g.Funcs / 4
	}
	if g.Lets {
		w[10] = 6
	}
	if !g.Arith {
		w[7] = 0
	}
	switch r.Weighted(w) {
	case 0:
		return g.Chain(c, 1+r.Intn(4))
	case 1: // ||
		return &ref.Node{Kind: ref.NOr, Kids: []*ref.Node{g.Expr(c, depth-1), g.Expr(c, depth-1)}}
	case 2: // &&
		return &ref.Node{Kind: ref.NAnd, Kids: []*ref.Node{g.Expr(c, depth-1), g.Expr(c, depth-1)}}
	case 3: // !
		return &ref.Node{Kind: ref.NNot, Kids: []*ref.Node{g.Expr(c, depth-1)}}
	case 4: // comparison
		return g.Cmp(c, depth-1)
	case 5: // pipe
		l := g.Expr(c, depth-1)
		v := g.eval(l, c)
		return &ref.Node{Kind: ref.NPipe, Kids: []*ref.Node{l, g.Expr(v, depth-1)}}
	case 6: // literal / current / root / variable
		switch r.Intn(5) {
		case 0:
			return cur()
		case 1:
			return &ref.Node{Kind: ref.NRoot}
		case 2:
			if len(g.vars) > 0 {
				return &ref.Node{Kind: ref.NVar, Name: Pick(r, g.vars)}
			}
		}
		return Lit(g.LitValue(c))
	case 7: // arithmetic
		ops := []string{"+", "-", "*", "/", "//", "%"}
		return &ref.Node{Kind: ref.NArith, Op: Pick(r, ops), Kids: []*ref.Node{g.NumExpr(c, depth-1), g.NumExpr(c, depth-1)}}
	case 8: // parenthesised expression followed by a selector chain
		inner := g.Expr(c, depth-1)
		v := g.eval(inner, c)
		p := *inner
		p.Paren = true
		return g.chainFrom(&p, v, 1+r.Intn(2), c)
	case 9:
		return g.Call(c, depth-1)
	case 10:
		return g.Let(c, depth-1)
	}
	return g.Chain(c, 2)
}

// LitValue draws a literal value, often one that occurs in c.
func (g *ExprGen) LitValue(c ref.V) ref.V {
	r := g.R
	if r.Chance(50) {
		vals := collect(c, 3, nil)
		if len(vals) > 0 {
			v := Pick(r, vals)
			if ref.Size(v) < 12 {
				return v
			}
		}
	}
	if r.Chance(15) {
		return Doc(r, 1)
	}
	return Scalar(r)
}

func collect(v ref.V, depth int, out []ref.V) []ref.V {
	out = append(out, v)
	if depth == 0 || len(out) > 60 {
		return out
	}
	switch v := v.(type) {
	case *ref.Arr:
		for _, e := range v.E {
			out = collect(e, depth-1, out)
		}
	case *ref.Obj:
		for _, k := range v.Keys {
			out = collect(v.M[k], depth-1, out)
		}
	}
	return out
}

// Cmp generates a comparison whose operands tend to be comparable.
func (g *ExprGen) Cmp(c ref.V, depth int) *ref.Node {
	r := g.R
	l := g.Expr(c, depth)
	lv := g.eval(l, c)
	var rn *ref.Node
	switch {
	case r.Chance(45):
		rn = Lit(lv) // equal
	case r.Chance(50):
		if _, ok := lv.(ref.Num); ok {
			rn = Lit(Num(Pick(r, NumPool)))
		} else {
			rn = Lit(g.LitValue(c))
		}
	default:
		rn = g.Expr(c, depth)
	}
	ops := []string{"==", "!=", "<", "<=", ">", ">="}
	op := ops[r.Weighted([]int{30, 20, 12, 12, 12, 12})]
	if r.Chance(50) {
		return &ref.Node{Kind: ref.NCmp, Op: op, Kids: []*ref.Node{l, rn}}
	}
	return &ref.Node{Kind: ref.NCmp, Op: op, Kids: []*ref.Node{rn, l}}
}

// NumExpr generates an expression that usually yields a number.
func (g *ExprGen) NumExpr(c ref.V, depth int) *ref.Node {
	r := g.R
	if r.Chance(55) {
		if p := g.PathTo(c, func(v ref.V) bool { _, ok := v.(ref.Num); return ok }); p != nil {
			return p
		}
	}
	if r.Chance(15) && depth > 0 {
		return g.Expr(c, depth-1)
	}
	if r.Chance(15) {
		op := "-"
		if r.Chance(30) {
			op = "+"
		}
		return &ref.Node{Kind: ref.NUnary, Op: op, Kids: []*ref.Node{g.NumExpr(c, depth-1)}}
	}
	return Lit(Num(Pick(r, NumPool)))
}

type pathVal struct {
	n *ref.Node
	v ref.V
}

// paths enumerates field/index chains from c (relative to current).
func paths(c ref.V, depth int, left *ref.Node, out []pathVal) []pathVal {
	out = append(out, pathVal{orCur(left), c})
	if depth == 0 || len(out) > 80 {
		return out
	}
	switch v := c.(type) {
	case *ref.Obj:
		for _, k := range v.Keys {
			out = paths(v.M[k], depth-1, sub(left, field(k)), out)
		}
	case *ref.Arr:
		for i, e := range v.E {
			if i > 3 {
				break
			}
			out = paths(e, depth-1, &ref.Node{Kind: ref.NIndex, Kids: []*ref.Node{orCur(left)}, Idx: big.NewInt(int64(i))}, out)
		}
	}
	return out
}

// PathTo returns a chain from c to a value satisfying pred (nil if none).
func (g *ExprGen) PathTo(c ref.V, pred func(ref.V) bool) *ref.Node {
	ps := paths(c, 3, nil, nil)
	var ok []pathVal
	for _, p := range ps {
		if pred(p.v) {
			ok = append(ok, p)
		}
	}
	if len(ok) == 0 {
		return nil
	}
	return Pick(g.R, ok).n
}

// Chain generates a selector chain of up to n steps relative to current.
func (g *ExprGen) Chain(c ref.V, n int) *ref.Node {
	return g.chainFrom(nil, c, n, c)
}

func (g *ExprGen) chainFrom(left *ref.Node, v ref.V, n int, base ref.V) *ref.Node {
	r := g.R
	for step := 0; step < n; step++ {
		switch x := v.(type) {
		case *ref.Obj:
			switch r.Weighted([]int{60, 10, 8, 8, 4, 10}) {
			case 0, 5:
				k := Pick(r, Keys)
				if len(x.Keys) > 0 && r.Chance(88) {
					k = Pick(r, x.Keys)
				}
				left = sub(left, field(k))
			case 1: // .*
				var vals []ref.V
				for _, k := range x.Keys {
					vals = append(vals, x.M[k])
				}
				rhs := g.rhs(sample(r, vals), n-step-1)
				return g.maybeFlatten(&ref.Node{Kind: ref.NValProj, Kids: []*ref.Node{orCur(left), rhs}})
			case 2:
				left = sub(left, g.multiList(v))
			case 3:
				left = sub(left, g.multiHash(v))
			case 4:
				left = g.indexNode(left, 0) // wrong type on purpose
			}
		case *ref.Arr:
			switch r.Weighted([]int{22, 22, 12, 12, 12, 6, 6, 4, 4}) {
			case 0:
				i := r.Intn(len(x.E) + 2)
				if r.Chance(30) {
					i = -1 - r.Intn(len(x.E)+2)
				}
				left = g.indexNode(left, int64(i))
			case 1: // [*]
				rhs := g.rhs(sample(r, x.E), n-step-1)
				return g.maybeFlatten(&ref.Node{Kind: ref.NProj, Kids: []*ref.Node{orCur(left), rhs}})
			case 2: // []
				fl := &ref.Node{Kind: ref.NFlatten, Kids: []*ref.Node{orCur(left)}}
				fv, _ := g.eval(fl, base).(*ref.Arr)
				var el ref.V
				if fa, ok := ref.V(fv).(*ref.Arr); ok && fa != nil {
					el = sample(r, fa.E)
				} else {
					el = sample(r, x.E)
				}
				rhs := g.rhs(el, n-step-1)
				return g.maybeFlatten(&ref.Node{Kind: ref.NProj, Kids: []*ref.Node{fl, rhs}})
			case 3: // [?cond]
				el := sample(r, x.E)
				cond := g.Cond(el)
				rhs := g.rhs(el, n-step-1)
				return g.maybeFlatten(&ref.Node{Kind: ref.NFilterProj, Kids: []*ref.Node{orCur(left), rhs, cond}})
			case 4: // slice
				sl := g.sliceNode(left, len(x.E))
				rhs := g.rhs(sample(r, x.E), n-step-1)
				return g.maybeFlatten(&ref.Node{Kind: ref.NProj, Kids: []*ref.Node{sl, rhs}})
			case 5:
				left = sub(left, g.multiList(v))
			case 6:
				left = sub(left, field(Pick(r, Keys))) // wrong type on purpose
			case 7:
				left = sub(left, g.multiHash(v))
			case 8: // .* on an array: null
				return &ref.Node{Kind: ref.NValProj, Kids: []*ref.Node{orCur(left), ident()}}
			}
		default:
			// scalar or null: poke at it with a selector of the wrong type
			switch r.Weighted([]int{30, 20, 10, 10, 10, 10, 10}) {
			case 0:
				left = sub(left, field(Pick(r, Keys)))
			case 1:
				left = g.indexNode(left, int64(r.Intn(3)-1))
			case 2:
				return &ref.Node{Kind: ref.NProj, Kids: []*ref.Node{orCur(left), g.rhs(nil, 1)}}
			case 3:
				return &ref.Node{Kind: ref.NProj, Kids: []*ref.Node{{Kind: ref.NFlatten, Kids: []*ref.Node{orCur(left)}}, ident()}}
			case 4:
				return &ref.Node{Kind: ref.NValProj, Kids: []*ref.Node{orCur(left), ident()}}
			case 5:
				if _, ok := v.(string); ok {
					sl := g.sliceNode(left, 4)
					return &ref.Node{Kind: ref.NProj, Kids: []*ref.Node{sl, ident()}}
				}
				left = sub(left, g.multiList(v))
			case 6:
				return &ref.Node{Kind: ref.NFilterProj, Kids: []*ref.Node{orCur(left), ident(), cur()}}
			}
		}
		if left != nil {
			v = g.eval(left, base)
		}
	}
	return orCur(left)
}

func (g *ExprGen) indexNode(left *ref.Node, i int64) *ref.Node {
	return &ref.Node{Kind: ref.NIndex, Kids: []*ref.Node{orCur(left)}, Idx: big.NewInt(i)}
}

func (g *ExprGen) sliceNode(left *ref.Node, n int) *ref.Node {
	r := g.R
	pick := func() *big.Int {
		if r.Chance(35) {
			return nil
		}
		return big.NewInt(int64(r.Intn(2*n+3) - n - 1))
	}
	sl := &ref.Node{Kind: ref.NSlice, Kids: []*ref.Node{orCur(left)}, Start: pick(), Stop: pick()}
	if r.Chance(40) {
		st := int64(r.Intn(3) + 1)
		if r.Chance(45) {
			st = -st
		}
		sl.Step = big.NewInt(st)
	}
	return sl
}

// maybeFlatten sometimes follows a projection by a flatten (which ends it)
// and a further selector.
func (g *ExprGen) maybeFlatten(p *ref.Node) *ref.Node {
	r := g.R
	if !r.Chance(18) {
		return p
	}
	fl := &ref.Node{Kind: ref.NFlatten, Kids: []*ref.Node{p}}
	var rhs *ref.Node = ident()
	if r.Chance(50) {
		rhs = field(Pick(r, Keys))
		if r.Chance(40) {
			rhs = g.indexNode(nil, int64(r.Intn(2)))
		}
	}
	return &ref.Node{Kind: ref.NProj, Kids: []*ref.Node{fl, rhs}}
}

// rhs generates the right-hand side of a projection for a sample element.
func (g *ExprGen) rhs(el ref.V, n int) *ref.Node {
	r := g.R
	if n <= 0 || r.Chance(25) {
		return ident()
	}
	if g.Funcs > 0 && r.Chance(g.Funcs/5) {
		return g.Call(el, 0)
	}
	c := g.chainFrom(nil, el, 1+r.Intn(n), el)
	if c.Kind == ref.NCurrent {
		return ident()
	}
	return c
}

// Cond generates a filter condition for a sample element.
func (g *ExprGen) Cond(el ref.V) *ref.Node {
	r := g.R
	switch r.Weighted([]int{35, 15, 10, 15, 10, 15}) {
	case 0: // field == literal taken from the element
		l := g.chainFrom(nil, el, 1, el)
		lv := g.eval(l, el)
		op := Pick(r, []string{"==", "!=", "==", "<", ">=", ">", "<="})
		var lit ref.V = lv
		if r.Chance(30) {
			lit = g.LitValue(el)
		}
		return &ref.Node{Kind: ref.NCmp, Op: op, Kids: []*ref.Node{l, Lit(lit)}}
	case 1:
		return g.chainFrom(nil, el, 1, el)
	case 2:
		return &ref.Node{Kind: ref.NNot, Kids: []*ref.Node{g.chainFrom(nil, el, 1, el)}}
	case 3:
		k := ref.NAnd
		if r.Chance(50) {
			k = ref.NOr
		}
		return &ref.Node{Kind: k, Kids: []*ref.Node{g.Cond(el), g.Cond(el)}}
	case 4:
		return cur()
	}
	return &ref.Node{Kind: ref.NCmp, Op: "==", Kids: []*ref.Node{cur(), Lit(el)}}
}

func (g *ExprGen) multiList(v ref.V) *ref.Node {
	r := g.R
	n := 1 + r.Intn(3)
	m := &ref.Node{Kind: ref.NMultiList}
	for i := 0; i < n; i++ {
		if r.Chance(70) {
			m.Kids = append(m.Kids, g.chainFrom(nil, v, 1+r.Intn(2), v))
		} else {
			m.Kids = append(m.Kids, g.Expr(v, 1))
		}
	}
	return m
}

func (g *ExprGen) multiHash(v ref.V) *ref.Node {
	r := g.R
	n := 1 + r.Intn(3)
	m := &ref.Node{Kind: ref.NMultiHash}
	seen := map[string]bool{}
	for i := 0; i < n; i++ {
		k := Pick(r, []string{"x", "y", "z", "a", "k k", "é"})
		if seen[k] {
			continue
		}
		seen[k] = true
		m.Keys = append(m.Keys, k)
		if r.Chance(70) {
			m.Kids = append(m.Kids, g.chainFrom(nil, v, 1+r.Intn(2), v))
		} else {
			m.Kids = append(m.Kids, g.Expr(v, 1))
		}
	}
	return m
}

// Let generates a let expression.
func (g *ExprGen) Let(c ref.V, depth int) *ref.Node {
	r := g.R
	n := &ref.Node{Kind: ref.NLet}
	nb := 1 + r.Intn(2)
	vars := map[string]ref.V{}
	for i := 0; i < nb; i++ {
		name := Pick(r, []string{"$a", "$b", "$v", "$x1"})
		if _, dup := vars[name]; dup {
			continue
		}
		e := g.Expr(c, depth)
		vars[name] = g.eval(e, c)
		n.Keys = append(n.Keys, name)
		n.Kids = append(n.Kids, e)
	}
	saveVars, saveEnv := g.vars, g.env
	g.vars = append(append([]string{}, g.vars...), n.Keys...)
	g.env = ref.NewEnv(g.env, vars)
	body := g.Expr(c, depth)
	g.vars, g.env = saveVars, saveEnv
	n.Kids = append(n.Kids, body)
	return n
}
