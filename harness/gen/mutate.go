package gen

import (
	"strings"
	"unicode/utf8"
)

// SplitTokens splits an expression into rough tokens (a lexer of its own: the
// point is mutation, not fidelity).
func SplitTokens(s string) []string {
	var out []string
	i := 0
	for i < len(s) {
		c := s[i]
		switch {
		case c == ' ' || c == '\t' || c == '\n' || c == '\r':
			j := i
			for j < len(s) && (s[j] == ' ' || s[j] == '\t' || s[j] == '\n' || s[j] == '\r') {
				j++
			}
			out = append(out, s[i:j])
			i = j
		case c == '\'' || c == '"' || c == '`':
			j := i + 1
			for j < len(s) && s[j] != c {
				if s[j] == '\\' {
					j++
				}
				j++
			}
			if j < len(s) {
				j++
			}
			if j > len(s) {
				j = len(s)
			}
			out = append(out, s[i:j])
			i = j
		case c == '_' || c >= 'a' && c <= 'z' || c >= 'A' && c <= 'Z' || c >= '0' && c <= '9' || c == '$':
			j := i + 1
			for j < len(s) && (s[j] == '_' || s[j] >= 'a' && s[j] <= 'z' || s[j] >= 'A' && s[j] <= 'Z' || s[j] >= '0' && s[j] <= '9') {
				j++
			}
			out = append(out, s[i:j])
			i = j
		default:
			two := ""
			if i+1 < len(s) {
				two = s[i : i+2]
			}
			switch two {
			case "||", "&&", "==", "!=", "<=", ">=", "//", "[]", "[?", ".*":
				out = append(out, two)
				i += 2
				continue
			}
			if strings.HasPrefix(s[i:], "[*]") {
				out = append(out, "[*]")
				i += 3
				continue
			}
			_, sz := utf8.DecodeRuneInString(s[i:])
			out = append(out, s[i:i+sz])
			i += sz
		}
	}
	return out
}

// InsertTokens: token kinds inserted/substituted by mutants.
var InsertTokens = []string{"a", "\"q\"", "'r'", "`1`", "`null`", "0", "-1", ".", "*", ".*", "[", "]", "[*]", "[]", "[?", "{", "}", "(", ")", ",", ":", "|", "||", "&&", "&", "!", "==", "<", "+", "-", "/", "//", "%", "@", "$", "$v", "let", "in", "=", " ", "abs("}

// Mutate applies one to three token-level edits.
func Mutate(r *R, s string) string {
	toks := SplitTokens(s)
	n := 1 + r.Intn(3)
	for k := 0; k < n; k++ {
		if len(toks) == 0 {
			toks = []string{Pick(r, InsertTokens)}
			continue
		}
		i := r.Intn(len(toks))
		switch r.Intn(7) {
		case 0: // delete
			toks = append(toks[:i:i], toks[i+1:]...)
		case 1: // duplicate
			toks = append(toks[:i+1:i+1], toks[i:]...)
		case 2: // swap with neighbour
			if i+1 < len(toks) {
				toks[i], toks[i+1] = toks[i+1], toks[i]
			}
		case 3: // replace
			toks[i] = Pick(r, InsertTokens)
		case 4: // insert
			toks = append(toks[:i:i], append([]string{Pick(r, InsertTokens)}, toks[i:]...)...)
		case 5: // corrupt inside the token
			t := []byte(toks[i])
			if len(t) > 0 {
				j := r.Intn(len(t))
				switch r.Intn(4) {
				case 0:
					t[j] = byte(r.Intn(256))
				case 1:
					t = append(t[:j:j], t[j+1:]...)
				case 2:
					t = append(t[:j:j], append([]byte{'\\'}, t[j:]...)...)
				case 3:
					t = append(t[:j:j], append([]byte("\xf0\x9d"), t[j:]...)...)
				}
				toks[i] = string(t)
			}
		case 6: // truncate here
			toks = toks[:i]
		}
	}
	return strings.Join(toks, "")
}

// Graft replaces a few leaves/containers of a Go tree by hostile values.
func Graft(r *R, v any, hostile []any) any {
	switch x := v.(type) {
	case []any:
		out := make([]any, len(x))
		for i, e := range x {
			if r.Chance(15) {
				out[i] = Pick(r, hostile)
			} else {
				out[i] = Graft(r, e, hostile)
			}
		}
		return out
	case map[string]any:
		out := make(map[string]any, len(x))
		for k, e := range x {
			if r.Chance(15) {
				out[k] = Pick(r, hostile)
			} else {
				out[k] = Graft(r, e, hostile)
			}
		}
		return out
	}
	if r.Chance(25) {
		return Pick(r, hostile)
	}
	return v
}
