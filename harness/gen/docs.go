package gen

import (
	"math/big"

	"verif/harness/ref"
)

// Keys is the small key alphabet (generated field references hit often).
var Keys = []string{"a", "b", "c", "d", "e", "id", "k k", "é", "A1", "_x"}

// StrPool: strings of 1- to 4-byte code points, empty, number-like, etc.
var StrPool = []string{"a", "b", "c", "abc", "", "é", "aé𝌆b", "✓", "x y", "A", "10", "1", "true", "ab", "ba", "zz", "日本", "a,b", "aa",
	"\ud7ff", "\ue000", "\uffff", "\U00010000", "e\u0301", "\u200b", "\u05d0\u05d1", "null", "0", " a ", "a\tb", "abcabcabcabcabcabc", "-1", "1e2", "\ufffd", "ß", "İ", "ǆ"}

// LongStrings: occasionally used instead of the pool (length-dependent paths)
func LongString(r *R) string {
	n := []int{15, 16, 17, 31, 32, 33, 63, 64, 65, 127, 128, 255, 256, 300}[r.Intn(14)]
	unit := Pick(r, []string{"a", "ab", "é", "a✓", "𝌆", "xyz,"})
	var b []byte
	for len(b) < n {
		b = append(b, unit...)
	}
	return string(b)
}

// NumPool: number spellings (JSON text).
var NumPool = []string{"0", "1", "-1", "2", "3", "10", "2.5", "-0.5", "1.0", "1e2", "100", "9007199254740993", "0.1", "0.2", "7", "-3", "4", "5", "1.50", "12345678901234567890",
	"255", "256", "65535", "65536", "2147483647", "2147483648", "-2147483649", "4294967296", "9007199254740992", "9223372036854775807", "-9223372036854775808", "1e15", "1e16", "1E21", "-0", "0.0", "1e-7", "0.30000000000000004", "12", "13", "1.5E1", "99999999999999999999999999999999"}

func Num(txt string) ref.Num {
	n, ok := ref.ParseNumber(txt)
	if !ok {
		panic("bad number text " + txt)
	}
	return n
}

func IntV(i int64) ref.Num { return ref.Num{R: new(big.Rat).SetInt64(i), Txt: big.NewInt(i).String()} }

// Scalar draws a scalar value.
func Scalar(r *R) ref.V {
	switch r.Weighted([]int{12, 8, 35, 35, 5}) {
	case 0:
		return nil
	case 1:
		return r.Chance(50)
	case 2:
		return Num(Pick(r, NumPool))
	case 3:
		if r.Chance(4) {
			return LongString(r)
		}
		return Pick(r, StrPool)
	}
	return IntV(int64(r.Intn(20) - 5))
}

// Doc draws a document of at most the given depth.
func Doc(r *R, depth int) ref.V {
	if depth <= 0 {
		return Scalar(r)
	}
	switch r.Weighted([]int{25, 30, 25, 20}) {
	case 0:
		return Scalar(r)
	case 1:
		return Object(r, depth)
	case 2:
		return Array(r, depth)
	}
	return Records(r, depth)
}

// Object draws an object.
func Object(r *R, depth int) *ref.Obj {
	o := ref.NewObj()
	n := r.Weighted([]int{8, 15, 25, 25, 15, 8, 4})
	for i := 0; i < n; i++ {
		o.Set(Pick(r, Keys), Doc(r, depth-1))
	}
	if r.Chance(3) {
		// more than 8 members: a Go map of this size has several buckets
		for i := 0; i < 9+r.Intn(30); i++ {
			o.Set(Pick(r, Keys)+string(rune('a'+i%26))+string(rune('0'+i/26)), Scalar(r))
		}
	}
	return o
}

// Array draws a heterogeneous or homogeneous array.
func Array(r *R, depth int) *ref.Arr {
	n := r.Weighted([]int{10, 12, 20, 20, 15, 10, 8, 5})
	if r.Chance(5) {
		// lengths around the thresholds of sort routines, map growth, small-size fast paths
		n = []int{8, 9, 12, 13, 14, 16, 17, 32, 33, 64, 65, 70}[r.Intn(12)]
		depth = 1
	}
	a := &ref.Arr{E: make([]ref.V, 0, n)}
	switch r.Intn(4) {
	case 0: // numbers
		for i := 0; i < n; i++ {
			a.E = append(a.E, Num(Pick(r, NumPool)))
		}
	case 1: // strings
		for i := 0; i < n; i++ {
			a.E = append(a.E, Pick(r, StrPool))
		}
	default:
		for i := 0; i < n; i++ {
			a.E = append(a.E, Doc(r, depth-1))
		}
	}
	return a
}

// Records draws an array of similar objects (projection/filter/sort fodder),
// with occasional nulls, scalars and missing members.
func Records(r *R, depth int) *ref.Arr {
	n := 1 + r.Intn(6)
	if r.Chance(6) {
		n = []int{9, 12, 13, 14, 17, 33, 40}[r.Intn(7)]
		depth = 1
	}
	nk := 1 + r.Intn(4)
	keys := make([]string, nk)
	kinds := make([]int, nk)
	for i := range keys {
		keys[i] = Pick(r, Keys)
		kinds[i] = r.Intn(5)
	}
	a := &ref.Arr{E: make([]ref.V, 0, n)}
	for i := 0; i < n; i++ {
		if r.Chance(8) {
			a.E = append(a.E, Scalar(r))
			continue
		}
		o := ref.NewObj()
		for j, k := range keys {
			if r.Chance(12) {
				continue
			}
			if r.Chance(8) {
				o.Set(k, nil)
				continue
			}
			switch kinds[j] {
			case 0:
				o.Set(k, Num(Pick(r, NumPool)))
			case 1:
				o.Set(k, Pick(r, StrPool))
			case 2:
				o.Set(k, IntV(int64(r.Intn(4))))
			case 3:
				o.Set(k, r.Chance(50))
			default:
				o.Set(k, Doc(r, depth-1))
			}
		}
		a.E = append(a.E, o)
	}
	return a
}

// Clone deep-copies a model value.
func Clone(v ref.V) ref.V {
	switch v := v.(type) {
	case *ref.Arr:
		a := &ref.Arr{E: make([]ref.V, len(v.E)), Unordered: v.Unordered}
		for i, e := range v.E {
			a.E[i] = Clone(e)
		}
		return a
	case *ref.Obj:
		o := ref.NewObj()
		for _, k := range v.Keys {
			o.Set(k, Clone(v.M[k]))
		}
		return o
	}
	return v
}
