// Package gen holds the seeded generators: documents, expressions, strings,
// numbers and hostile Go values.  Every case is a function of
// (seed, stream name, case index) only.
package gen

import (
	"hash/fnv"
	"math/rand/v2"
)

// R is a small deterministic PRNG.
type R struct{ r *rand.Rand }

// New returns the PRNG of case idx of a stream.
func New(seed int64, stream string, idx int) *R {
	h := fnv.New64a()
	h.Write([]byte(stream))
	s1 := h.Sum64() ^ uint64(seed)*0x9E3779B97F4A7C15
	s2 := uint64(idx)*0xD1B54A32D192ED03 + 0x2545F4914F6CDD1D
	return &R{r: rand.New(rand.NewPCG(s1, s2))}
}

func (r *R) Intn(n int) int {
	if n <= 0 {
		return 0
	}
	return r.r.IntN(n)
}
func (r *R) Int63() int64     { return r.r.Int64() }
func (r *R) Uint64() uint64   { return r.r.Uint64() }
func (r *R) Chance(p int) bool { return r.r.IntN(100) < p }
func (r *R) Float() float64   { return r.r.Float64() }

// Pick returns a random element.
func Pick[T any](r *R, xs []T) T { return xs[r.Intn(len(xs))] }

// Weighted picks index i with probability w[i]/sum(w).
func (r *R) Weighted(w []int) int {
	t := 0
	for _, x := range w {
		t += x
	}
	k := r.Intn(t)
	for i, x := range w {
		if k < x {
			return i
		}
		k -= x
	}
	return len(w) - 1
}

// Shuffle permutes xs in place.
func Shuffle[T any](r *R, xs []T) {
	for i := len(xs) - 1; i > 0; i-- {
		j := r.Intn(i + 1)
		xs[i], xs[j] = xs[j], xs[i]
	}
}
