package mon

import (
	"encoding/json"
	"fmt"
	"math/big"
	"strings"

	"github.com/woodsbury/decimal128"

	"verif/harness/gen"
	"verif/harness/ref"
)

var c05Pool = []string{
	"0", "-0", "1", "-1", "2", "3", "7", "10", "0.1", "0.2", "0.3", "0.5", "1.5", "2.5", "-2.5", "1e1", "1E2", "1e-1", "100", "1000000",
	"9223372036854775807", "9223372036854775808", "18446744073709551616", "9007199254740993",
	"9999999999999999999999999999999999", "1000000000000000000000000000000001", "1e33", "1e34", "1.000000000000000000000000000000001",
	"0.3333333333333333333333333333333333", "0.6666666666666666666666666666666667", "5e-1", "4999999999999999999999999999999999.5", "5000000000000000000000000000000000.5",
	"1e6144", "9.999999999999999999999999999999999e6144", "1e-6143", "1e400", "1e-400", "1e6000", "1e-6000", "-1e6000",
	"123456789012345678901234567890.1234", "-123456789012345678901234567890.1234", "3.14159", "2.718281828459045", "6", "9", "12", "0.25", "0.125", "1e3", "33", "99", "-7", "-3", "-0.1", "4", "8", "5",
	"15E-1", "-25E-1", "1E-40", "25e-1", "7E+0", "3.50E0",
	"-9223372036854775808", "-9223372036854775809", "-9223372036854775807", "-2147483648", "2147483647", "4294967295", "-18446744073709551616", "4e-324", "5e-324", "2e-400",
}

var c05Ops = []string{"+", "-", "*", "/", "//", "%", "==", "!=", "<", "<=", ">", ">="}
var c05OpSpell = map[string][]string{"*": {"*", "×"}, "/": {"/", "÷"}, "-": {"-", "−"}}

// decimalMode carries numbers as decimal128 values.
func decimalMode(n ref.Num) any {
	t := n.Txt
	if t == "" {
		t = ref.NumText(n)
	}
	if !ref.ExactDec(n) {
		// the decimal type could not hold it exactly: keep the JSON spelling
		return json.Number(t)
	}
	d, err := decimal128.Parse(t)
	if err != nil {
		return json.Number(t)
	}
	return d
}

func c05Check(c *Ctx, text string, doc ref.V, mode ref.NumMode, route string) ref.Outcome {
	var goDoc any
	if doc != nil {
		goDoc = ref.ToGo(doc, mode)
	}
	m, l := c.CheckModel("C05", text, doc, goDoc, CheckOpts{Features: map[string]string{"route": route}})
	// no infinity / NaN value anywhere in a result, whatever the model says
	if l.Err == nil && l.Panic == nil && l.MErr != nil && strings.Contains(l.MErr.Error(), "non-finite") {
		c.Report(Violation{Rule: "C05/non-finite-result", Expr: text, Data: gen.Describe(goDoc), Got: gen.Describe(l.Res)})
	}
	return m
}

func c05PoolRun(c *Ctx, idx int) {
	np := len(c05Pool)
	x := c05Pool[idx%np]
	idx /= np
	y := c05Pool[idx%np]
	idx /= np
	op := c05Ops[idx%len(c05Ops)]
	sp := op
	if alts, ok := c05OpSpell[op]; ok {
		sp = alts[(idx/len(c05Ops)+len(x))%len(alts)]
	}
	doc := ref.NewObj()
	doc.Set("a", gen.Num(x))
	doc.Set("b", gen.Num(y))
	viaDoc := "a " + sp + " b"
	m := c05Check(c, viaDoc, doc, ref.JSONNumber, "json.Number")
	c05Check(c, viaDoc, doc, decimalMode, "decimal128")
	lit := "`" + x + "` " + sp + " `" + y + "`"
	c05Check(c, lit, nil, ref.JSONNumber, "literal")
	if !m.Unspec {
		c.Nontrivial(x, op, y)
		if m.Fault == 0 {
			if n, ok := m.Val.(ref.Num); ok && n.Ulp != nil {
				c.Count("results_needing_rounding", 1)
			}
		} else {
			c.Count("expected_errors", 1)
		}
	}
}

// random decimal operand with <= maxDigits significant digits
func c05Operand(r *gen.R, maxDigits int) string {
	nd := 1 + r.Intn(maxDigits)
	var b strings.Builder
	if r.Chance(35) {
		b.WriteByte('-')
	}
	switch r.Intn(5) {
	case 0: // all nines
		b.WriteString(strings.Repeat("9", nd))
	case 1: // 1 0...0 1
		if nd < 2 {
			b.WriteString("1")
		} else {
			b.WriteString("1" + strings.Repeat("0", nd-2) + "1")
		}
	case 2: // ...5 tie pattern
		for i := 0; i < nd-1; i++ {
			b.WriteByte(byte('0' + r.Intn(10)))
		}
		b.WriteByte('5')
	default:
		b.WriteByte(byte('1' + r.Intn(9)))
		for i := 1; i < nd; i++ {
			b.WriteByte(byte('0' + r.Intn(10)))
		}
	}
	s := b.String()
	// decimal point somewhere
	if r.Chance(50) {
		neg := strings.HasPrefix(s, "-")
		d := strings.TrimPrefix(s, "-")
		k := r.Intn(len(d) + 1)
		if k == 0 {
			d = "0." + d
		} else if k < len(d) {
			d = d[:k] + "." + d[k:]
		}
		if neg {
			d = "-" + d
		}
		s = d
	}
	// leading zeros are not JSON: strip (keep "0." forms)
	neg := strings.HasPrefix(s, "-")
	d := strings.TrimPrefix(s, "-")
	for len(d) > 1 && d[0] == '0' && d[1] != '.' {
		d = d[1:]
	}
	if neg {
		d = "-" + d
	}
	s = d
	switch r.Weighted([]int{50, 25, 10, 10, 5}) {
	case 1:
		mk := Pick3(r)
		ex := r.Intn(41) - 20
		if strings.HasSuffix(mk, "+") || strings.HasSuffix(mk, "-") {
			if ex < 0 {
				ex = -ex
			}
		}
		s += fmt.Sprintf("%s%d", mk, ex)
	case 2:
		s += fmt.Sprintf("E+%d", 6000+r.Intn(140))
	case 3:
		s += fmt.Sprintf("e-%d", 6000+r.Intn(140))
	case 4:
		s += fmt.Sprintf("e%d", r.Intn(801)-400)
	}
	return s
}

// Pick3: the exponent marker in its spellings
func Pick3(r *gen.R) string { return gen.Pick(r, []string{"e", "E", "e+", "E+", "e-", "E-", "e", "E"}) }

func c05Random(c *Ctx, idx int) {
	r := c.Rand("")
	maxd := 34
	if r.Chance(10) {
		maxd = 40
	}
	x := c05Operand(r, maxd)
	y := c05Operand(r, maxd)
	if r.Chance(15) {
		// cancelling pair: y = -x with the last digit changed
		y = x
		if strings.HasPrefix(y, "-") {
			y = y[1:]
		} else {
			y = "-" + y
		}
	}
	doc := ref.NewObj()
	doc.Set("a", gen.Num(x))
	doc.Set("b", gen.Num(y))
	var text string
	switch r.Weighted([]int{55, 10, 10, 10, 15}) {
	case 0:
		text = "a " + gen.Pick(r, c05Ops) + " b"
	case 1:
		text = gen.Pick(r, []string{"-a", "+a", "−a", "- - a", "abs(a)", "ceil(a)", "floor(a)", "abs(-a)"})
	case 2:
		text = gen.Pick(r, []string{"a + b - b", "(a + b) * `2`", "a * b / b", "a - b - a", "a / `3` * `3`", "[a, b] | sum(@)", "avg([a, b])", "max([a, b])", "min([a, b])", "sort([a, b])[0]", "contains([a], b)", "a == b || a < b"})
	case 3:
		text = "to_number('" + x + "') " + gen.Pick(r, c05Ops) + " b"
	default:
		// sum / avg over an array of small exact numbers
		n := r.Intn(50)
		arr := &ref.Arr{E: []ref.V{}}
		for i := 0; i < n; i++ {
			t := fmt.Sprintf("%d.%d", r.Intn(2000000)-1000000, r.Intn(100000))
			t = strings.TrimRight(strings.TrimRight(t, "0"), ".")
			if t == "" || t == "-" {
				t = "0"
			}
			if strings.HasPrefix(t, "-0.") || t == "-0" {
				// keep: negative fraction
			}
			arr.E = append(arr.E, gen.Num(fixNum(t)))
		}
		doc.Set("xs", arr)
		text = gen.Pick(r, []string{"sum(xs)", "avg(xs)", "sum(xs) / `7`", "avg(xs) * `3`", "max(xs) - min(xs)"})
	}
	mode := ref.NumMode(ref.JSONNumber)
	route := "json.Number"
	if r.Chance(40) {
		mode, route = decimalMode, "decimal128"
	}
	m := c05Check(c, text, doc, mode, route)
	if !m.Unspec {
		c.Nontrivial(text, x, y, route)
		c.Sample(map[string]any{"expr": text, "a": x, "b": y, "route": route, "model": m.String()})
		if m.Fault == 0 {
			if n, ok := m.Val.(ref.Num); ok && n.Ulp != nil {
				c.Count("results_needing_rounding", 1)
			}
		}
	}
}

func fixNum(t string) string {
	if !ref.IsJSONNumber(t) {
		return "0"
	}
	return t
}

// float-detour canaries and to_number strings: fixed lists
var c05Canaries = []struct{ expr, doc string }{
	{"`0.1` + `0.2` == `0.3`", "null"},
	{"a + b == c", `{"a":0.1,"b":0.2,"c":0.3}`},
	{"`9223372036854775809` + `0`", "null"},
	{"`9007199254740993` + `0` == `9007199254740993`", "null"},
	{"`9007199254740993` - `9007199254740992`", "null"},
	{"`1e400` * `1`", "null"},
	{"`1e-400` * `1`", "null"},
	{"`1e400` / `1e399`", "null"},
	{"`1234567890123456789012345678901234` + `0`", "null"},
	{"`0.1` * `3`", "null"},
	{"`1.1` * `1.1`", "null"},
	{"`1` / `3`", "null"},
	{"`2` / `3`", "null"},
	{"`1` / `0`", "null"},
	{"`0` / `0`", "null"},
	{"`1` // `0`", "null"},
	{"`1` % `0`", "null"},
	{"`1e6144` * `10`", "null"},
	{"`1e6144` + `1e6144`", "null"},
	{"`-1e6144` - `9e6144`", "null"},
	{"`1e6000` * `1e6000`", "null"},
	{"`7` // `2`", "null"},
	{"`7` % `2`", "null"},
	{"`-7` // `-2`", "null"},
	{"`-7` % `-2`", "null"},
	{"`7.5` // `2`", "null"},
	{"`7.5` % `2`", "null"},
	{"`1e40` // `3`", "null"},
	{"`1e40` % `3`", "null"},
	{"sum(`[0.1,0.2,0.3]`) == `0.6`", "null"},
	{"avg(`[0.1,0.2,0.3]`) == `0.2`", "null"},
	{"sum(`[1e20,1,-1e20]`)", "null"},
	{"abs(`-9223372036854775809`)", "null"},
	{"ceil(`1.000000000000000000000000000000001`)", "null"},
	{"floor(`-1.000000000000000000000000000000001`)", "null"},
	{"ceil(`-0.5`)", "null"},
	{"ceil(`15E-1`)", "null"},
	{"floor(`-25E-1`)", "null"},
	{"[ceil(a), floor(a), abs(a)]", `{"a":15E-1}`},
	{"[ceil(a), floor(a), abs(a)]", `{"a":-25E-1}`},
	{"[ceil(a), floor(a)]", `{"a":1E-40}`},
	{"floor(`9007199254740993.5`)", "null"},
	{"to_number('0.1') + to_number('0.2') == to_number('0.3')", "null"},
	{"to_number('9007199254740993')", "null"},
	{"to_number('1e400')", "null"},
	{"`1.0` == `1`", "null"},
	{"`1e2` == `100`", "null"},
	{"`100` < `1e2`", "null"},
	{"`0.30` == `0.3`", "null"},
	{"`9007199254740993` > `9007199254740992`", "null"},
	{"`0.1` + `0.2` > `0.3`", "null"},
	{"max(`[9007199254740993, 9007199254740992]`)", "null"},
	{"sort(`[0.3, 0.1, 0.2, 0.30000000000000004]`)", "null"},
}

var c05ToNumberRaw = []string{"", " ", "1", "-1", "+1", "0", "-0", "01", "1.", ".5", "0.5", "1e2", "1E2", "1e+2", "1e-2", "1e", "e1", "1.5e3", " 1", "1 ", "0x10", "Infinity", "-Infinity", "inf", "NaN", "nan", "1_0", "null", "true", "1,5", "١", "1e400", "12345678901234567890.123456789", "--1", "1.2.3", "1e2e3", "\t1", "1\n", "0.0", "-0.0", "00", strings.Repeat("9", 34), strings.Repeat("9", 35), "0." + strings.Repeat("3", 34)}

func c05Lists(c *Ctx, idx int) {
	nc := len(c05Canaries)
	if idx < nc {
		x := c05Canaries[idx]
		doc, _ := ref.FromJSON(x.doc)
		for _, rt := range []struct {
			m ref.NumMode
			n string
		}{{ref.JSONNumber, "json.Number"}, {decimalMode, "decimal128"}} {
			m := c05Check(c, x.expr, doc, rt.m, rt.n)
			if !m.Unspec {
				c.Nontrivial(x.expr, rt.n)
			}
		}
		return
	}
	s := c05ToNumberList()[idx-nc]
	for _, text := range []string{"to_number(" + ref.RawString(s) + ")", "to_number(s)"} {
		doc := ref.NewObj()
		doc.Set("s", s)
		m := c05Check(c, text, doc, ref.JSONNumber, "json.Number")
		if !m.Unspec {
			c.Nontrivial(text, s)
		}
	}
}

func c05ToNumberList() []string {
	out := []string{}
	for _, s := range c05ToNumberRaw {
		out = append(out, s)
	}
	return out
}

// c05Ladder: state that survives between evaluations (memo tables keyed by a
// number's text, scratch buffers sized by an earlier operand).  One long
// number text is fed prefix by prefix, shortest first, so that every text is
// evaluated right after all of its own prefixes, then the same texts
// longest first; each step is compared with the exact model.
func c05Ladder(c *Ctx, idx int) {
	r := c.Rand("")
	nd := 20 + r.Intn(15) // significant digits, at most 34: every prefix is exactly representable
	var b strings.Builder
	if r.Chance(30) {
		b.WriteByte('-')
	}
	point := -1
	if r.Chance(60) {
		point = 1 + r.Intn(nd-1)
	}
	for i := 0; i < nd; i++ {
		if i == point {
			b.WriteByte('.')
		}
		d := byte('0' + r.Intn(10))
		if i == 0 || r.Chance(25) {
			d = byte('1' + r.Intn(9))
		}
		if r.Chance(10) {
			d = '9'
		}
		b.WriteByte(d)
	}
	full := b.String()
	var steps []string
	for l := 1; l <= len(full); l++ {
		if p := full[:l]; ref.IsJSONNumber(p) {
			steps = append(steps, p)
		}
	}
	if r.Chance(50) {
		// and exponent forms sharing the mantissa text
		e := gen.Pick(r, []string{"e1", "E-2", "e+10", "e-20"})
		steps = append(steps, full+e)
	}
	order := append([]string{}, steps...)
	for i := len(steps) - 1; i >= 0; i-- {
		order = append(order, steps[i])
	}
	prev := "0"
	decided := 0
	for _, p := range order {
		doc := ref.NewObj()
		doc.Set("a", gen.Num(prev))
		doc.Set("b", gen.Num(p))
		for _, text := range []string{"[b - a, a == b, a < b, abs(b), sum([a, b]), floor(b), b * `1`]", "[`" + p + "` - `" + prev + "`, `" + prev + "` == `" + p + "`, -(`" + p + "`), ceil(`" + p + "`), to_number('" + p + "')]"} {
			for _, rt := range []struct {
				m ref.NumMode
				n string
			}{{ref.JSONNumber, "json.Number"}, {decimalMode, "decimal128"}} {
				m := c05Check(c, text, doc, rt.m, rt.n+"/ladder")
				if !m.Unspec {
					decided++
				}
			}
		}
		prev = p
	}
	if decided > 0 {
		c.Nontrivial("ladder", full)
		c.Count("ladder_steps_decided", int64(decided))
	}
}

func init() {
	Register(&Property{
		ID:            "C05",
		Rule:          "decimal operands (a 60-value boundary pool squared x 12 operators - exhaustive; seeded operands of 1..34 (sometimes 40) significant digits in nines/carry/tie/random patterns with exponents across the decimal128 range, cancelling pairs) through + - * / // % (all spellings), unary signs, comparisons, sum/avg/abs/ceil/floor/max/min/sort/to_number, each travelling as json.Number in the document, as a literal and as decimal128 values; outcomes compared with exact big.Rat arithmetic: equal when the exact result has <= 34 significant digits, within one unit of the 34th digit otherwise, not-a-number error for division by zero and overflow, never an infinity/NaN value; ladder stream: one 20..34-digit number text fed prefix by prefix (shortest first, then longest first) through the same operators within one process, so that every text is evaluated right after its own prefixes (text-keyed memo tables, reused buffers); non-trivial = the model decides the case; distinct by (expression, operands, route); long-sums stream: sum/avg over 2..1500 numbers in episodes of different magnitudes (10^-6000..10^6000), every left-to-right running total exact; every tenth long-sums case has 4095..70000 elements (sizes at and around 2^12..2^16; thorough also 2^17+1, 2^18+1, 10^6+1); long-number-texts stream: one number text of 6200..70000 bytes per case, 11 kinds: padded texts that denote 1, 0.5, 2500, 10, 1234.5, 0 must compute exactly; texts beyond the decimal range must give an error (or zero when tiny), never an unrelated finite number - the witnesses of the decimal128 scanner defect are open known findings; rounding-neighbours stream: abs / ceil / floor / unary minus / // 1 / comparisons on b +- {.5, .25, .75, .000000000001, .999999999999} for every boundary b of the shared pool, as json.Number and decimal128",
		MinNontrivial: 2000,
		Streams: []Stream{
			{Name: "lists", N: func(c *Ctx) int { return len(c05Canaries) + len(c05ToNumberList()) }, Run: c05Lists, Exhaustive: true},
			{Name: "pool", N: func(c *Ctx) int { return len(c05Pool) * len(c05Pool) * len(c05Ops) }, Run: c05PoolRun, Exhaustive: true},
			{Name: "random", N: func(c *Ctx) int { return tierN(c, 60000, 1500000) }, Run: c05Random},
			{Name: "ladder", N: func(c *Ctx) int { return tierN(c, 400, 20000) }, Run: c05Ladder},
			{Name: "long-sums", N: func(c *Ctx) int { return tierN(c, 600, 12000) }, Run: c05LongSums},
			{Name: "long-number-texts", N: c05LongTextsN, Run: c05LongTexts, Exhaustive: true},
			{Name: "rounding-neighbours", N: c05RoundingN, Run: c05Rounding, Exhaustive: true},
		},
	})
}

// c05LongSums: sum / avg over 2..1500 numbers that span far more than 34 orders of magnitude, built
// so that every left-to-right running total is exactly representable (the model decides exactly
// those): the array is a sequence of episodes, each at its own magnitude 10^k, each made of small
// multiples of 10^k that add up to zero, with only the last episode leaving a remainder.  Any
// regrouping of the additions (pairwise or blocked summation, sorting by magnitude, compensated
// sums, partial sums kept per worker) puts a partial total of one episode next to the members of
// another and loses them; the exact result has a handful of digits.
func c05LongSums(c *Ctx, idx int) {
	r := c.Rand("")
	n := gen.Pick(r, []int{2, 5, 64, 127, 128, 129, 130, 200, 255, 256, 257, 300, 511, 513, 700, 1023, 1025, 1500})
	if r.Chance(30) {
		n = 2 + r.Intn(600)
	}
	if idx%10 == 4 {
		// block sizes of accumulation strategies: around 2^12, 2^13, 2^14, 2^16 and odd sizes between
		n = gen.Pick(r, []int{4095, 4097, 8191, 8192, 8193, 8194, 10000, 16383, 16385, 20000, 32769, 40002, 65535, 65537, 70000})
		if c.Tier == "thorough" && idx%2000 == 4 {
			n = gen.Pick(r, []int{131073, 262145, 1000001})
		}
	}
	var els []string
	mant := func() int { return gen.Pick(r, []int{1, 1, 2, 3, 7, 10, 25, 99, 12345}) }
	for len(els) < n {
		k := gen.Pick(r, []int{-40, -20, -2, 0, 3, 17, 30, 35, 36, 40, 60, 100, 300, 6000, -6000})
		if n > 3000 {
			// (the reference adds exact rationals: keep their size moderate on long arrays)
			k = gen.Pick(r, []int{-40, -20, -2, 0, 3, 17, 30, 36, 40, 60})
		}
		left := n - len(els)
		ln := 2 + r.Intn(150)
		last := ln >= left
		if last {
			ln = left
		}
		total := 0
		for j := 0; j < ln; j++ {
			var v int
			switch {
			case !last && j == ln-1:
				v = -total
			case r.Chance(35):
				v = 0
			case r.Chance(50) && total != 0:
				v = -total
			default:
				v = mant()
				if r.Chance(40) {
					v = -v
				}
			}
			total += v
			switch {
			case v == 0 && r.Chance(50):
				els = append(els, "0")
			case k == 0:
				els = append(els, fmt.Sprint(v))
			default:
				els = append(els, fmt.Sprintf("%de%d", v, k))
			}
		}
	}
	arr := &ref.Arr{E: []ref.V{}}
	for _, t := range els {
		arr.E = append(arr.E, gen.Num(fixNum(t)))
	}
	doc := ref.NewObj()
	doc.Set("xs", arr)
	mode := ref.NumMode(ref.JSONNumber)
	route := "json.Number"
	if idx%3 == 1 {
		mode, route = decimalMode, "decimal128"
	}
	exprs := []string{"sum(xs)", "avg(xs)", "sum(xs) == sum(reverse(reverse(xs)))", "[sum(xs[:-1]), xs[-1]]"}
	if n > 3000 {
		exprs = exprs[:2]
	}
	for _, text := range exprs {
		if idx%3 == 2 && text == "sum(xs)" {
			// the same numbers written as a literal
			text = "sum(`[" + strings.Join(els, ",") + "]`)"
		}
		m := c05Check(c, text, doc, mode, route)
		if !m.Unspec {
			c.Nontrivial(clipS(text, 80), fmt.Sprint(idx), route)
			if n < 12 {
				c.Sample(map[string]any{"expr": text, "xs": strings.Join(els, ","), "route": route, "model": m.String()})
			}
		}
	}
}

// c05LongTexts: one number whose *text* is long - 32766..131072 bytes - because of padding that
// does not change its value (leading zeros of the exponent, trailing zeros of the fraction, zeros
// after the point), or because the number really is that large or small.  Padded texts denote small
// exact numbers and must compute exactly (direct oracle: the value is known by construction).  A
// text that denotes a number beyond the decimal range may be refused (error) or, when tiny, underflow
// to zero - but it must never turn into some unrelated finite number.
var c05TextLens = []int{6200, 32768, 40000, 65536, 70000}

type c05LongKind struct {
	name  string
	build func(n int) string
	// value: the exact value as a short text when in range ("" = out of range), huge: beyond the range upwards
	value string
	huge  bool
}

var c05LongKinds = []c05LongKind{
	{"1. followed by n zeros", func(n int) string { return "1." + strings.Repeat("0", n) }, "1", false},
	{"5e-(n zeros)1", func(n int) string { return "5e-" + strings.Repeat("0", n) + "1" }, "0.5", false},
	{"25e+(n zeros)2", func(n int) string { return "25e+" + strings.Repeat("0", n) + "2" }, "2500", false},
	{"0.(n zeros)1e(n+2)", func(n int) string { return "0." + strings.Repeat("0", n) + "1e" + fmt.Sprint(n+2) }, "10", false},
	{"1 followed by n zeros, e-n", func(n int) string { return "1" + strings.Repeat("0", n) + "e-" + fmt.Sprint(n) }, "1", false},
	{"1234.5(n zeros)", func(n int) string { return "1234.5" + strings.Repeat("0", n) }, "1234.5", false},
	{"-0.(n zeros)", func(n int) string { return "-0." + strings.Repeat("0", n) }, "0", false},
	{"1 followed by n zeros", func(n int) string { return "1" + strings.Repeat("0", n) }, "", true},
	{"n nines", func(n int) string { return strings.Repeat("9", n) }, "", true},
	{"0.(n zeros)1", func(n int) string { return "0." + strings.Repeat("0", n) + "1" }, "", false},
	{"-1 followed by n zeros .5", func(n int) string { return "-1" + strings.Repeat("0", n) + ".5" }, "", true},
}

func c05LongTextsN(c *Ctx) int { return len(c05TextLens) * len(c05LongKinds) }

func c05LongTexts(c *Ctx, idx int) {
	n := c05TextLens[idx%len(c05TextLens)]
	k := c05LongKinds[idx/len(c05TextLens)]
	t := k.build(n)
	desc := strings.ReplaceAll(strings.ReplaceAll(k.name, "(n+2)", fmt.Sprint(n+2)), "n", fmt.Sprint(n))
	if k.name == "n nines" {
		desc = fmt.Sprint(n) + " nines"
	}
	feats := map[string]string{"stream": "long-number-texts", "number_text": desc}
	doc := map[string]any{"a": json.Number(t), "s": t}
	if k.value != "" {
		v := k.value
		for _, x := range []struct{ expr, want string }{
			{"a == `" + v + "`", "true"}, {"a + `0` == `" + v + "`", "true"}, {"[a - `" + v + "`, a * `2` - `" + v + "` - `" + v + "`]", "[0,0]"}, {"a < `" + v + "` || a > `" + v + "`", "false"}, {"to_number(s) == `" + v + "`", "true"},
			{"sum([a, a]) == `" + v + "` * `2`", "true"}, {"abs(a) == abs(`" + v + "`)", "true"}, {"contains([a], `" + v + "`)", "true"}, {"type(a)", `"number"`}, {"max([a, `-1`]) == `" + v + "`", "true"},
		} {
			l := c.LibSearch(x.expr, doc)
			if got := strings.ReplaceAll(ShowOut(l), " ", ""); l.Panic != nil || l.Err != nil || got != x.want {
				c.Report(Violation{Rule: "C05/long-number-text", Expr: x.expr, Data: "a = json.Number(" + desc + "), s = the same text as a string", Got: clipS(ShowOut(l), 200), Want: x.want + " (the text denotes exactly " + v + ")", Features: feats})
			}
			c.Nontrivial(x.expr, desc)
		}
		if len(t) < 70000 {
			l := c.LibSearch("`"+t+"` == `"+v+"`", nil)
			if got := ShowOut(l); l.Panic != nil || l.Err != nil || got != "true" {
				c.Report(Violation{Rule: "C05/long-number-text", Expr: "`<" + desc + ">` == `" + v + "`", Got: clipS(got, 200), Want: "true", Features: feats})
			}
		}
		return
	}
	// beyond the range: an error, or (tiny) zero - never an unrelated finite number
	for _, expr := range []string{"a + `0`", "to_number(s)", "a * `1`", "[a][0] - `0`"} {
		l := c.LibSearch(expr, doc)
		c.Nontrivial(expr, desc)
		if l.Panic != nil || l.Err != nil || l.Res == nil {
			continue
		}
		num, isNum := l.M.(ref.Num)
		bad := !isNum
		if isNum {
			abs := new(big.Rat).Abs(num.R)
			if k.huge {
				bad = abs.Cmp(new(big.Rat).SetFrac(new(big.Int).Exp(big.NewInt(10), big.NewInt(6100), nil), big.NewInt(1))) < 0
			} else {
				bad = abs.Sign() != 0 && abs.Cmp(new(big.Rat).SetFrac(big.NewInt(1), new(big.Int).Exp(big.NewInt(10), big.NewInt(6100), nil))) > 0
			}
		}
		if bad {
			c.Report(Violation{Rule: "C05/long-number-text", Expr: expr, Data: "a = json.Number(" + desc + "), s = the same text as a string", Got: clipS(ShowOut(l), 120), Want: "an error" + map[bool]string{true: "", false: " or zero"}[k.huge] + " (the number is beyond the decimal range), never an unrelated finite number", Features: feats})
		}
	}
	for _, x := range []struct{ expr, want string }{{"a == `0`", "false"}, {"a == `1`", "false"}, {"a == `0.1`", "false"}} {
		if !k.huge && x.expr == "a == `0`" {
			continue // a tiny number may underflow to zero
		}
		l := c.LibSearch(x.expr, doc)
		if l.Panic == nil && l.Err == nil && ShowOut(l) != x.want {
			c.Report(Violation{Rule: "C05/long-number-text", Expr: x.expr, Data: "a = json.Number(" + desc + ")", Got: ShowOut(l), Want: x.want, Features: feats})
		}
	}
}

// c05Rounding: abs / ceil / floor / unary minus / // 1 / % 1 on the fractional neighbours of every
// boundary of the shared pool (b - 0.5, b + 0.5, b +- 0.25, b + 0.000...1): results handed back as
// machine integers wrap exactly where b +- 1 leaves the type.
func c05RoundingN(c *Ctx) int { return len(c01NumB) }

func c05Rounding(c *Ctx, idx int) {
	b := c01NumB[idx]
	if strings.ContainsAny(b, "eE") {
		return
	}
	for _, off := range []string{".5", ".25", ".75", ".000000000001", ".999999999999"} {
		for _, sign := range []string{"", "-"} {
			t := b
			if strings.Contains(t, ".") {
				continue
			}
			t = strings.TrimPrefix(t, "-")
			x := sign + t + off
			if len(strings.NewReplacer("-", "", ".", "").Replace(x)) > 34 {
				continue
			}
			doc := ref.NewObj()
			doc.Set("a", gen.Num(x))
			for _, text := range []string{"ceil(a)", "floor(a)", "abs(a)", "-a", "[ceil(a), floor(a)]", "ceil(a) - floor(a)", "floor(a) + `1` == ceil(a)", "ceil(`" + x + "`)", "floor(to_number('" + x + "'))", "ceil(a) > a", "floor(a) < a", "a // `1`", "ceil(a) == a // `1` + `1` || a < `0`", "sort([ceil(a), a, floor(a)])", "max([floor(a), a]) == a"} {
				m := c05Check(c, text, doc, ref.JSONNumber, "json.Number")
				c05Check(c, text, doc, decimalMode, "decimal128")
				if !m.Unspec {
					c.Nontrivial(text, x)
				}
			}
		}
	}
}
