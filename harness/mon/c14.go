package mon

import (
	"encoding/json"
	"fmt"
	"math"
	"math/big"
	"strconv"
	"strings"

	"github.com/woodsbury/decimal128"

	"verif/harness/gen"
	"verif/harness/ref"
)

// dyadic value k / 2^m with |k| < 2^11, m <= 4: exact in every Go numeric
// kind that can hold it, and products/sums of two stay exact in float32.
func c14Num(r *gen.R) ref.Num {
	m := r.Weighted([]int{55, 20, 15, 5, 5})
	k := int64(r.Intn(41) - 12)
	if r.Chance(20) {
		k = int64(r.Intn(2000) - 600)
	}
	rat := new(big.Rat).SetFrac(big.NewInt(k), big.NewInt(1<<uint(m)))
	return ref.Num{R: rat}
}

// reprs returns every Go representation holding n exactly.
func c14Reprs(n ref.Num) []any {
	plain := ref.NumText(n)
	out := []any{json.Number(plain)}
	f, _ := n.R.Float64()
	out = append(out, f, float32(f))
	if d, err := decimal128.Parse(plain); err == nil {
		out = append(out, d)
		// a decimal with trailing zeros / other exponent
		if d2, err := decimal128.Parse(plain + "e0"); err == nil {
			out = append(out, d2)
		}
	}
	if n.R.IsInt() {
		i := n.R.Num().Int64()
		out = append(out, json.Number(fmt.Sprintf("%d.0", i)), json.Number(fmt.Sprintf("%de0", i)), json.Number(fmt.Sprintf("%d.000", i)))
		if i != 0 {
			out = append(out, json.Number(fmt.Sprintf("%d0e-1", i)))
		}
		out = append(out, int(i), int64(i), int32(i), int16(i))
		if i >= -128 && i <= 127 {
			out = append(out, int8(i))
		}
		if i >= 0 {
			out = append(out, uint(i), uint64(i), uint32(i), uint16(i))
			if i <= 255 {
				out = append(out, uint8(i))
			}
		}
	} else {
		out = append(out, json.Number(plain+"0"), json.Number(plain+"e0"))
	}
	return out
}

func c14Assign(r *gen.R, v ref.V) any {
	switch x := v.(type) {
	case ref.Num:
		return gen.Pick(r, c14Reprs(x))
	case *ref.Arr:
		a := make([]any, len(x.E))
		for i, e := range x.E {
			a[i] = c14Assign(r, e)
		}
		return a
	case *ref.Obj:
		m := make(map[string]any, len(x.Keys))
		for _, k := range x.Keys {
			m[k] = c14Assign(r, x.M[k])
		}
		return m
	}
	return v
}

var c14Uniform = []string{"float64", "float32", "int", "int64", "uint", "decimal128", "json.Number-dot-zero"}

func c14AssignUniform(v ref.V, kind string) any {
	switch x := v.(type) {
	case ref.Num:
		f, _ := x.R.Float64()
		isInt := x.R.IsInt()
		var i int64
		if isInt {
			i = x.R.Num().Int64()
		}
		switch kind {
		case "float64":
			return f
		case "float32":
			return float32(f)
		case "int":
			if isInt {
				return int(i)
			}
		case "int64":
			if isInt {
				return i
			}
		case "uint":
			if isInt && i >= 0 {
				return uint(i)
			}
		case "decimal128":
			if d, err := decimal128.Parse(ref.NumText(x)); err == nil {
				return d
			}
		case "json.Number-dot-zero":
			if isInt {
				return json.Number(fmt.Sprintf("%d.0", i))
			}
		}
		return json.Number(ref.NumText(x))
	case *ref.Arr:
		a := make([]any, len(x.E))
		for i, e := range x.E {
			a[i] = c14AssignUniform(e, kind)
		}
		return a
	case *ref.Obj:
		m := make(map[string]any, len(x.Keys))
		for _, k := range x.Keys {
			m[k] = c14AssignUniform(x.M[k], kind)
		}
		return m
	}
	return v
}

var c14Templates = []string{
	"a + b", "a - b", "a * b", "a × b", "a / `2`", "a / `4`", "a ÷ `8`", "a // b", "a % b", "a // `2`", "a % `2`", "-a", "+a", "−a", "a + b * c", "(a + b) * c", "a - b - c", "a * b - c",
	"a < b", "a <= b", "a == b", "a != b", "a > b", "a >= b", "a == `1.5`", "a == `2`", "`3` == a", "a < `0`", "[a, b] == [b, a]", "{k: a} == {k: b}", "[a] == [`1`]",
	"contains(xs, a)", "contains(xs, `2`)", "sort(xs)", "sort_by(rs, &k)[*].id", "min(xs)", "max(xs)", "min_by(rs, &k).id", "max_by(rs, &k).id", "sum(xs)", "avg(xs)", "abs(a)", "ceil(a)", "floor(a)", "abs(a - b)",
	"!a", "a && 'x'", "a || 'y'", "`0` || a", "xs[?@]", "type(a)", "type(xs[0])", "to_number(a)", "to_number(a) + b", "to_number(to_string(a)) == a", "to_array(a)", "not_null(`null`, a)",
	"xs[?@ > a]", "xs[?@ == a]", "xs[?@ != a]", "rs[?k >= a].id", "length(xs[?@ < b])", "group_by(rs, &to_string(k == a))", "map(&(@ * `2`), xs)", "map(&(@ + a), xs)", "zip(xs, xs)[0][0] == xs[0]",
	"find_first('abcabc', 'c', i)", "find_first('abcabc', 'c', i, j)", "find_last('abcabc', 'c', i)", "find_last('abcabc', 'b', i, j)", "pad_left('x', i)", "pad_right('x', i, '-')", "pad_left('x', f)", "split('a,b,c', ',', i)", "split('a,b,c', ',', f)", "replace('aaa', 'a', 'b', i)", "replace('aaa', 'a', 'b', f)", "find_first('abc', 'c', f)",
	"let $v = a in [$v, $v + b]", "sort(xs)[0] == min(xs)", "max(xs) - min(xs)", "xs[*] | sum(@) == sum(xs)", "merge({k: a}, {k: b}).k", "[a, b, c] | sort(@)", "sort_by(rs, &(k * `-1`))[*].id", "sort_by(rs, &abs(k))[*].id",
	// the same constructs re-entered while an outer one is in progress (key expressions that sort,
	// comparisons evaluated per element with changing operands)
	"sort_by(rs, &sort([k, k])[0])[*].id", "sort_by(rs, &sort_by([@, @], &k)[0].k)[*].id", "sort_by(rs, &max([k, a]))[*].id", "sort_by(rs, &min_by([@], &k).k)[*].id", "max_by(rs, &sort([k, b])[1]).id", "min_by(rs, &sort_by([@, @], &k)[1].k).id",
	"sort(map(&sort([@, a])[0], xs))", "map(&sort([@, a, b]), xs)", "xs[*].[@ == a, @ < b, @ >= c]", "xs[*].[let $x = @ in $.xs[*].[@ == $x, @ < $x]]", "rs[*].[let $k = k in $.rs[?k == $k].id]", "sort_by(rs, &sum([k, sort([k, a])[0]]))[*].id",
}

func c14Run(c *Ctx, idx int) {
	r := c.Rand("")
	doc := ref.NewObj()
	for _, k := range []string{"a", "b", "c"} {
		doc.Set(k, c14Num(r))
	}
	doc.Set("i", ref.Num{R: new(big.Rat).SetInt64(int64(r.Intn(8)))})
	doc.Set("j", ref.Num{R: new(big.Rat).SetInt64(int64(r.Intn(8)))})
	// f: sometimes integral, sometimes not (then every kind must say invalid-value)
	fv := c14Num(r)
	if r.Chance(50) {
		fv = ref.Num{R: new(big.Rat).SetFrac64(int64(2*r.Intn(6)+1), 2)}
	}
	if r.Chance(20) {
		fv = ref.Num{R: new(big.Rat).SetInt64(int64(-1 - r.Intn(3)))}
	}
	doc.Set("f", fv)
	xs := &ref.Arr{}
	rs := &ref.Arr{}
	nrec := 1 + r.Intn(6)
	if r.Chance(15) {
		nrec = []int{13, 14, 20, 33, 40}[r.Intn(5)]
	}
	for k := 0; k < nrec; k++ {
		n := c14Num(r)
		xs.E = append(xs.E, n)
		o := ref.NewObj()
		o.Set("id", fmt.Sprint("r", k))
		kk := c14Num(r)
		if nrec > 6 {
			kk = ref.Num{R: new(big.Rat).SetInt64(int64(r.Intn(4)))}
		}
		o.Set("k", kk)
		rs.E = append(rs.E, o)
	}
	doc.Set("xs", xs)
	doc.Set("rs", rs)
	text := c14Templates[idx%len(c14Templates)]
	if idx%len(c14Templates) != idx && r.Chance(30) {
		// a random arithmetic/comparison expression over the fields
		g := &gen.ExprGen{R: r, Root: doc, Funcs: 30, Arith: true}
		text = ref.Print(g.Expr(doc, 2))
		// the property's precondition: intermediate values exactly representable
		// in every kind - a general division breaks it
		if strings.Contains(text, "pad_") || strings.Contains(text, "to_string") || strings.Contains(text, "/") || strings.Contains(text, "÷") {
			text = c14Templates[r.Intn(len(c14Templates))]
		}
	}
	m := ref.Search(text, doc)
	loose := Enumerates(text)
	if loose && m.Unspec {
		c.Count("skipped_order_dependent", 1)
		return
	}
	// precondition of the property: every number an evaluation may meet is
	// exactly representable in each kind; decided from the model's view
	base := ref.ToGo(doc, ref.JSONNumber)
	lb := c.LibSearch(text, base)
	if lb.Panic != nil {
		c.Report(Violation{Rule: "C14/panic", Expr: text, Data: gen.Describe(base), Got: ShowOut(lb)})
		return
	}
	if m.Unspec && strings.Contains(m.Why, "different sign") {
		c.Count("mixed_sign_division_cases", 1)
	}
	nontriv := false
	nv := 6 + len(c14Uniform)
	for v := 0; v < nv; v++ {
		var data any
		if v < 6 {
			data = c14Assign(r, doc)
		} else {
			// every leaf in one and the same kind (where it holds the value exactly)
			data = c14AssignUniform(doc, c14Uniform[v-6])
		}
		lv := c.LibSearch(text, data)
		if MultiFaultOK(m, lb, lv) {
			continue // several faults present: either may be reported
		}
		if !SameOutcome(lb, lv, loose) {
			feats := map[string]string{"template": c14Templates[idx%len(c14Templates)]}
			c.Report(Violation{Rule: "C14/representation-dependent", Expr: text, Data: gen.Describe(data), Got: ShowOut(lv), Want: ShowOut(lb) + "  (all numbers as json.Number: " + ref.ToJSONText(doc) + ")", Features: feats})
		}
		if gen.Describe(data) != gen.Describe(base) {
			nontriv = true
		}
	}
	// the model (exact rationals) must agree with the canonical run too
	if judged, ok, why := Agree(m, lb); judged && !ok {
		c.Report(Violation{Rule: "C14/model", Expr: text, Data: gen.Describe(base), Got: ShowOut(lb), Want: m.String(), Detail: why})
	}
	if nontriv && lb.M != nil {
		c.Nontrivial(text, ref.ToJSONText(doc))
		c.Sample(map[string]any{"expr": text, "doc": ref.ToJSONText(doc), "canonical_result": ShowOut(lb)})
	}
}

// boundary stream: large integral values in every kind that holds them exactly
var c14Big = []string{"2147483648", "4294967296", "9007199254740992", "4611686018427387904", "9223372036854774784", "9223372036854775807", "9223372036854775808", "18446744073709549568", "18446744073709551615", "-2147483649", "-9223372036854775808", "-9223372036854774784", "1267650600228229401496703205376"}

func c14BigReprs(t string) []any {
	out := []any{json.Number(t)}
	n := gen.Num(t)
	bi := n.R.Num()
	if bi.IsInt64() {
		out = append(out, bi.Int64(), int(bi.Int64()))
	}
	if bi.IsUint64() {
		out = append(out, bi.Uint64(), uint(bi.Uint64()))
	}
	f, exact := n.R.Float64()
	if exact {
		out = append(out, f)
		if float64(float32(f)) == f {
			out = append(out, float32(f))
		}
	}
	if ref.ExactDec(n) {
		out = append(out, decimal128.MustParse(t), decimal128.MustParse(t+".0"))
	}
	return out
}

var c14BigTemplates = []string{"v % d", "v // d", "[v % d, v // d]", "(v // d) * d + v % d == v", "v % d == w % d", "-v % d", "v % (d + d)",
	"find_first('abcabc', 'c', v)", "find_first('abcabc', 'c', `0`, v)", "find_last('abcabc', 'c', v)", "find_last('abcabc', 'c', `1`, v)", "split('a,b,c', ',', v)", "replace('aaa', 'a', 'b', v)", "v == w", "v < w", "v >= w", "[v] == [w]", "contains([w], v)", "sort([v, w])", "max([v, w]) == v", "v + `0` == w + `0`", "v - w", "type(v)", "!v", "to_number(v) == w", "abs(v) == abs(w)", "xs[?@ == v]", "sort_by(rs, &k)[*].id", "min_by(rs, &k).id", "v // `2` == w // `2`", "v % `7` == w % `7`"}

func c14Boundary(c *Ctx, idx int) {
	t := c14Big[idx%len(c14Big)]
	text := c14BigTemplates[idx/len(c14Big)%len(c14BigTemplates)]
	reprs := c14BigReprs(t)
	if strings.Contains(text, "//") {
		// the quotient must be exactly representable in every kind (the
		// property's precondition): only for |v| <= 2^52
		if n := gen.Num(t); new(big.Int).Abs(n.R.Num()).BitLen() > 52 {
			return
		}
	}
	// d: a small divisor in the same family of representations as v
	small := func(v any, k int64) any {
		switch v.(type) {
		case float64:
			return float64(k)
		case float32:
			return float32(k)
		case decimal128.Decimal:
			return decimal128.FromInt64(k)
		case int64:
			return k
		case int:
			return int(k)
		case uint64:
			return uint64(k)
		case uint:
			return uint(k)
		}
		return json.Number(fmt.Sprint(k))
	}
	dk := []int64{3, 7, 10, 1000003}[idx%4]
	mk := func(v, w any) any {
		return map[string]any{"v": v, "w": w, "d": small(v, dk), "xs": []any{w, json.Number("1"), v}, "rs": []any{map[string]any{"id": "a", "k": v}, map[string]any{"id": "b", "k": json.Number("5")}, map[string]any{"id": "c", "k": w}}}
	}
	base := mk(json.Number(t), json.Number(t))
	lb := c.LibSearch(text, base)
	if lb.Panic != nil {
		c.Report(Violation{Rule: "C14/panic", Expr: text, Data: gen.Describe(base), Got: ShowOut(lb)})
		return
	}
	for i, v := range reprs {
		w := reprs[(i*7+idx)%len(reprs)]
		data := mk(v, w)
		lv := c.LibSearch(text, data)
		if !SameOutcome(lb, lv, false) {
			c.Report(Violation{Rule: "C14/representation-dependent", Expr: text, Data: gen.Describe(data), Got: ShowOut(lv), Want: ShowOut(lb) + "  (v and w as json.Number " + t + ")", Features: map[string]string{"template": text, "stream": "boundary"}})
		}
		c.Nontrivial(text, gen.Describe(data))
	}
	// neighbours: v together with u = v - 1 and z = v + 1 (each in a kind that holds it exactly):
	// orderings and equalities between adjacent large integers must not depend on the kind
	if idx/len(c14Big)%len(c14BigTemplates) < len(c14NeighbourTemplates) {
		ntext := c14NeighbourTemplates[idx/len(c14Big)%len(c14BigTemplates)]
		bi := gen.Num(t).R.Num()
		ut := new(big.Int).Sub(bi, big.NewInt(1)).String()
		zt := new(big.Int).Add(bi, big.NewInt(1)).String()
		ur, zr := c14BigReprs(ut), c14BigReprs(zt)
		same := func(pool []any, like any, k int) any {
			for _, p := range pool {
				if fmt.Sprintf("%T", p) == fmt.Sprintf("%T", like) {
					return p
				}
			}
			return pool[k%len(pool)]
		}
		nb := map[string]any{"v": json.Number(t), "u": json.Number(ut), "z": json.Number(zt)}
		lnb := c.LibSearch(ntext, nb)
		for i, v := range reprs {
			data := map[string]any{"v": v, "u": same(ur, v, i), "z": same(zr, v, i+idx)}
			lv := c.LibSearch(ntext, data)
			if !SameOutcome(lnb, lv, false) {
				c.Report(Violation{Rule: "C14/representation-dependent", Expr: ntext, Data: gen.Describe(data), Got: ShowOut(lv), Want: ShowOut(lnb) + "  (as json.Number: v=" + t + ")", Features: map[string]string{"template": ntext, "stream": "boundary/neighbours"}})
			}
			c.Nontrivial(ntext, gen.Describe(data))
		}
	}
}

// precise: numbers that json.Number and decimal128 hold exactly but a float64 does not
// (near-integers, 2^63-1 with a fraction part, 30+ digit spellings of small integers),
// as integer arguments and operands: every carrier that holds the value exactly must agree.
var c14Precise = []string{"3.0000000000000000001", "2.99999999999999999999", "3.00000000000000000000", "9223372036854775807.0", "9223372036854775806.5", "9223372036854775807.5", "4.00000000000000000000000000000001", "0.99999999999999999999999999999999", "1.0000000000000000000000000000000", "30e-1", "0.3e1", "3000000000000000000000e-21", "2.5", "-0.0000000000000000001", "-1.0000000000000000001", "9007199254740993.0", "18446744073709551615.0"}

var c14PreciseTemplates = []string{"find_first('abcabcabc', 'c', v)", "find_first('abcabcabc', 'c', `0`, v)", "find_last('abcabcabc', 'c', v)", "find_last('abcabcabc', 'c', `1`, v)", "pad_left('x', v)", "pad_right('x', v, '-')", "split('a,b,c,d', ',', v)", "replace('aaaa', 'a', 'b', v)",
	"v == `3`", "v < `3`", "v >= `3`", "[v] == [`3`]", "sort([v, `3`])", "max([v, `3`]) == v", "ceil(v)", "floor(v)", "abs(v)", "v + `0`", "v * `1`", "v - v", "to_number(to_string(v)) == v", "type(v)", "!v", "contains([`3`, `1`], v)", "`[0,1,2,3,4,5]`[?@ == v]", "v // `1`", "v % `1`"}

func c14PreciseRun(c *Ctx, idx int) {
	t := c14Precise[idx%len(c14Precise)]
	text := c14PreciseTemplates[idx/len(c14Precise)]
	if strings.HasPrefix(text, "pad_") && len(t) > 12 && !strings.Contains(t, ".") {
		return
	}
	n := gen.Num(t)
	if strings.HasPrefix(text, "pad_") && n.R.Cmp(big.NewRat(1000, 1)) > 0 {
		return // a huge width legitimately drives the result size
	}
	carriers := []any{json.Number(t), json.Number(t + "0"), json.Number(t + "e0"), json.Number(t + "00E+0")}
	if !strings.Contains(t, ".") && !strings.Contains(t, "e") {
		carriers = carriers[:1]
	}
	if strings.Contains(t, "e") {
		carriers = []any{json.Number(t), json.Number(strings.Replace(t, "e", "E", 1))}
	}
	if ref.ExactDec(n) {
		if d, err := decimal128.Parse(t); err == nil {
			carriers = append(carriers, d)
		}
	}
	if n.R.IsInt() {
		bi := n.R.Num()
		if bi.IsInt64() {
			carriers = append(carriers, bi.Int64())
		}
		if bi.IsUint64() {
			carriers = append(carriers, bi.Uint64())
		}
		carriers = append(carriers, json.Number(bi.String()))
		if f, exact := n.R.Float64(); exact {
			carriers = append(carriers, f)
		}
	} else if f, exact := n.R.Float64(); exact {
		carriers = append(carriers, f)
	}
	base := c.LibSearch(text, map[string]any{"v": carriers[0]})
	if base.Panic != nil {
		c.Report(Violation{Rule: "C14/panic", Expr: text, Data: gen.Describe(carriers[0]), Got: ShowOut(base)})
		return
	}
	for _, v := range carriers[1:] {
		data := map[string]any{"v": v}
		lv := c.LibSearch(text, data)
		if !SameOutcome(base, lv, false) {
			c.Report(Violation{Rule: "C14/representation-dependent", Expr: text, Data: gen.Describe(data), Got: ShowOut(lv), Want: ShowOut(base) + "  (v as json.Number " + t + ")", Features: map[string]string{"template": text, "stream": "precise"}})
		}
	}
	// and the value itself must be what the model says (exact arithmetic)
	doc := ref.NewObj()
	doc.Set("v", n)
	if m := ref.Search(text, doc); !m.Unspec {
		if judged, ok, why := Agree(m, base); judged && !ok {
			c.Report(Violation{Rule: "C14/model", Expr: text, Data: gen.Describe(carriers[0]), Got: ShowOut(base), Want: m.String(), Detail: why, Features: map[string]string{"stream": "precise"}})
		}
	}
	c.Nontrivial(text, t)
}

// dyadic-deep: m / 2^k for odd m and k up to 60: exact in float64 (m < 2^53), exact in decimal128
// while the expansion has <= 34 digits, exact as json.Number text - 16 to 34 significant digits,
// the range where a float is easily mistaken for its shortest or 15/17-digit decimal neighbour.
func c14DyadicDeep(c *Ctx, idx int) {
	r := c.Rand("")
	k := 18 + r.Intn(43)
	m := int64(2*r.Intn(1<<uint(4+r.Intn(18))) + 1)
	if r.Chance(20) {
		m = -m
	}
	rat := new(big.Rat).SetFrac(big.NewInt(m), new(big.Int).Lsh(big.NewInt(1), uint(k)))
	n := ref.Num{R: rat}
	if !ref.ExactDec(n) {
		return
	}
	txt := ref.NumText(n)
	f, exact := rat.Float64()
	if !exact {
		return
	}
	d, err := decimal128.Parse(txt)
	if err != nil {
		return
	}
	// a second value: the same fraction written from numerator and denominator, and a neighbour
	carriers := []any{json.Number(txt), f, d, json.Number(txt + "0")}
	if float64(float32(f)) == f {
		carriers = append(carriers, float32(f))
	}
	templates := []string{"v == w", "v != w", "v < w", "v <= w", "v > w", "[v] == [w]", "contains([w, `1`], v)", "sort([v, w, `0`]) | length(@)", "max([v, w]) == min([v, w])", "xs[?@ == $.v] | length(@)", "v - w", "v == `" + txt + "`", "`" + txt + "` <= v", "p / q == v", "p / q == w", "sort_by(rs, &k)[*].id", "v * `1` == w", "type(v) == type(w)", "abs(v) == abs(w)", "[v, w] | sort(@) | [0] == [w, v] | sort(@) | [0]"}
	text := templates[idx%len(templates)]
	mk := func(v, w any) map[string]any {
		return map[string]any{"v": v, "w": w, "xs": []any{w, json.Number("1"), v}, "p": pq(m, v), "q": pq(int64(1)<<uint(min(k, 62)), v),
			"rs": []any{map[string]any{"id": "a", "k": v}, map[string]any{"id": "b", "k": json.Number("0")}, map[string]any{"id": "c", "k": w}}}
	}
	if k > 62 && strings.Contains(text, "p / q") {
		return
	}
	base := c.LibSearch(text, mk(carriers[0], carriers[0]))
	if base.Panic != nil {
		c.Report(Violation{Rule: "C14/panic", Expr: text, Data: txt, Got: ShowOut(base)})
		return
	}
	for i, v := range carriers {
		for j, w := range carriers {
			if i == 0 && j == 0 {
				continue
			}
			data := mk(v, w)
			lv := c.LibSearch(text, data)
			if !SameOutcome(base, lv, false) {
				c.Report(Violation{Rule: "C14/representation-dependent", Expr: text, Data: gen.Describe(data), Got: ShowOut(lv), Want: ShowOut(base) + "  (v and w as json.Number " + txt + ")", Features: map[string]string{"template": text, "stream": "dyadic-deep"}})
			}
		}
	}
	c.Nontrivial(text, txt)
}

// pq: an integer in the same family of Go kinds as like
func pq(i int64, like any) any {
	switch like.(type) {
	case float64:
		return float64(i)
	case float32:
		if float64(float32(i)) == float64(i) {
			return float32(i)
		}
		return float64(i)
	case decimal128.Decimal:
		return decimal128.FromInt64(i)
	}
	return json.Number(fmt.Sprint(i))
}

var c14NeighbourTemplates = []string{"sort([v, u, z])", "sort([z, v, u])", "sort([v, u])", "[u < v, v < z, u == v, v == z, u >= v, z <= v]", "max([u, v, z]) == z", "min([v, z, u]) == u", "sort_by([{k: v}, {k: u}, {k: z}], &k)[*].k", "max_by([{k: u}, {k: z}, {k: v}], &k).k == z", "min_by([{k: v}, {k: u}], &k).k == u",
	"[v, u, z][?@ > v]", "[v, u, z][?@ == v]", "contains([u, z], v)", "[u, v] == [v, u]", "v - u", "z - v", "sort([z, v, u])[1] == v", "[u, v, z] | sort(@) | [0] == u", "sort([v, u, z, u, v])", "(u < v) && (v < z)", "group_by([{k: u}, {k: v}, {k: z}], &to_string(k == v)) | keys(@) | sort(@)"}

func init() {
	Register(&Property{
		ID:            "C14",
		Rule:          "documents whose number leaves are dyadic rationals k/2^m (|k| < 2^11, m <= 4: exact in json.Number, every int/uint width that fits, float32, float64 and decimal128) with 100 expression templates (+ - x / by powers of two, // %, unary signs, comparisons, == != incl. against literals and inside containers, contains, sort, sort_by, min/max(_by), sum, avg, abs/ceil/floor, truthiness, type, to_number, to_string round trip, filters, map, group_by and every integer-argument coercion fed from the document with integral, non-integral and negative values) and seeded random arithmetic expressions; baseline = all leaves as canonical json.Number; 6 random assignments of Go representations per case plus 7 uniform ones (every leaf float64 / float32 / int / int64 / uint / decimal128 / 'n.0') (json.Number spellings 5 / 5.0 / 5e0 / 50e-1, int..int64, uint..uint64, float32, float64, decimal128 in two exponents) must give the same outcome in value and error category (metamorphic, library against itself); dyadic-deep stream: m/2^k with k = 18..60 (16-34 significant digits: exact in float64, decimal128 and as text) in every pair of carriers through 20 comparison/sorting/arithmetic templates; precise stream: 17 numbers that need more precision than a float64 has (near-integers, 2^63-1 with a fraction part, long spellings of small integers) through 27 templates (every integer-argument position, comparisons, rounding, arithmetic) in every carrier that holds them exactly (json.Number spellings, decimal128, int64/uint64/float64 where exact) and against the exact model; boundary stream: 13 large integral values (2^31 .. 2^64, -2^63, 2^100) in every kind that holds them exactly through 31 templates (integer arguments, comparisons, sorting, arithmetic), and each of them together with its neighbours v-1 and v+1 through 20 ordering/equality templates; non-trivial = at least one leaf changed representation and the result is non-null; shortest-repr stream: a float64 x (|x| >= 2^26, exact expansion <= 34 digits) against the short decimal d that prints it, 25 templates (comparisons, contains, filters, containers, sort / max / min_by, subtraction), x as json.Number, float64, decimal128 (and float32 where exact); float-quotients stream: // and % on operand pairs whose float quotient rounds across an integer (quotients in [2^50, 2^53) with a remainder; an operand one ulp below a multiple of the divisor), 9 templates, every carrier pair (json.Number, float64, decimal128, int64, float32 where exact), against exact arithmetic; integer-sums stream: sum / avg / max / min / sort over Go integers (int64, uint64, mixed small kinds, decimal128, floats where exact) whose total creeps across 2^31, 2^32, 2^53, 2^63, -2^63 or 2^64 by 3..70 addends, half of the cases with all addends below 512",
		MinNontrivial: 2000,
		Streams: []Stream{
			{Name: "assignments", N: func(c *Ctx) int { return tierN(c, 20000, 1000000) }, Run: c14Run},
			{Name: "dyadic-deep", N: func(c *Ctx) int { return tierN(c, 6000, 600000) }, Run: c14DyadicDeep},
			{Name: "shortest-repr", N: func(c *Ctx) int { return tierN(c, 1500, 150000) }, Run: c14Shortest},
			{Name: "float-quotients", N: func(c *Ctx) int { return tierN(c, 1500, 150000) }, Run: c14Quotients},
			{Name: "carrier-prefixes", N: c14PrefixN, Run: c14PrefixRun, Exhaustive: true},
			{Name: "integer-sums", N: func(c *Ctx) int { return tierN(c, 2000, 200000) }, Run: c14IntSums},
			{Name: "precise", N: func(c *Ctx) int { return len(c14Precise) * len(c14PreciseTemplates) }, Run: c14PreciseRun, Exhaustive: true},
			{Name: "boundary", N: func(c *Ctx) int { return len(c14Big) * len(c14BigTemplates) }, Run: c14Boundary, Exhaustive: true},
		},
	})
}

// c14Shortest: a float64 and the short decimal that prints it.  x is the float64 nearest to a
// decimal d of at most 15 (sometimes 16-17) significant digits that is not itself a binary
// fraction, chosen large enough (|x| >= 2^26) that x's exact value has at most 34 significant digits
// and so travels exactly in every carrier.  x and d are different numbers; a comparison between them
// must come out the same whether x arrives as float64, as json.Number (exact expansion) or as
// decimal128 - a shortcut that compares "the float" with "the float of the literal" says equal.
func c14Shortest(c *Ctx, idx int) {
	r := c.Rand("")
	var d string
	var x float64
	var exact string
	for try := 0; try < 50; try++ {
		ip := 1 + r.Intn(13)
		var b strings.Builder
		b.WriteByte(byte('1' + r.Intn(9)))
		for i := 1; i < ip; i++ {
			b.WriteByte(byte('0' + r.Intn(10)))
		}
		fd := 1 + r.Intn(4)
		if ip+fd > 15 && idx%4 != 0 {
			fd = 15 - ip
			if fd < 1 {
				continue
			}
		}
		b.WriteByte('.')
		for i := 0; i < fd; i++ {
			b.WriteByte(byte('0' + r.Intn(10)))
		}
		d = strings.TrimRight(b.String(), "0")
		if strings.HasSuffix(d, ".") {
			continue
		}
		if r.Chance(30) {
			d = "-" + d
		}
		f, err := strconv.ParseFloat(d, 64)
		if err != nil || math.Abs(f) < 1<<26 {
			continue
		}
		bf := new(big.Float).SetFloat64(f)
		exact = bf.Text('f', 60)
		exact = strings.TrimRight(strings.TrimRight(exact, "0"), ".")
		digits := len(strings.NewReplacer("-", "", ".", "").Replace(exact))
		if digits > 34 || exact == d {
			continue
		}
		x = f
		break
	}
	if x == 0 {
		return
	}
	dec, err := decimal128.Parse(exact)
	if err != nil {
		return
	}
	padded := exact + "0"
	if !strings.Contains(exact, ".") {
		padded = exact + ".0" // (x is an integer: a trailing zero needs the point)
	}
	carriers := []any{json.Number(exact), x, dec, json.Number(padded)}
	if float64(float32(x)) == x {
		carriers = append(carriers, float32(x))
	}
	templates := []string{"x == `D`", "x != `D`", "x > `D`", "x < `D`", "x >= `D`", "x <= `D`", "`D` == x", "contains([x], `D`)", "contains(`[D]`, x)", "[x] == `[D]`", "{a: x} == `{\"a\": D}`", "xs[?@ == `D`]", "xs[?@ > `D`] | length(@)",
		"x == d", "d == x", "x < d", "contains(xs, d)", "xs[?@ == $.d] | length(@)", "sort([x, d])[0] == x", "max([x, d]) == x", "min_by([{k: x}, {k: d}], &k).k == x", "x - d == `0`", "x - `D` > `0`", "[x, d] | @[0] == @[1]", "let $x = x in $x == `D`"}
	for _, tm := range templates {
		text := strings.ReplaceAll(tm, "D", d)
		var base LibOut
		for i, cv := range carriers {
			data := map[string]any{"x": cv, "d": json.Number(d), "xs": []any{cv, json.Number(d), json.Number("1")}}
			l := c.LibSearch(text, data)
			if l.Panic != nil {
				break
			}
			if i == 0 {
				base = l
				continue
			}
			if !SameOutcome(base, l, false) {
				c.Report(Violation{Rule: "C14/representation-dependent", Expr: text, Data: gen.Describe(data), Got: ShowOut(l), Want: ShowOut(base) + "  (x as json.Number " + exact + ")", Features: map[string]string{"stream": "shortest-repr", "template": tm}})
			}
		}
		doc := ref.NewObj()
		doc.Set("x", gen.Num(exact))
		doc.Set("d", gen.Num(d))
		doc.Set("xs", &ref.Arr{E: []ref.V{gen.Num(exact), gen.Num(d), gen.Num("1")}})
		if m := ref.Search(text, doc); !m.Unspec {
			if judged, ok, why := Agree(m, base); judged && !ok {
				c.Report(Violation{Rule: "C14/model", Expr: text, Data: "x = " + exact, Got: ShowOut(base), Want: m.String(), Detail: why, Features: map[string]string{"stream": "shortest-repr"}})
			}
		}
		c.Nontrivial(text)
	}
}

// c14Quotients: // and % where a float division would round across an integer.  Operands and exact
// results are integers or short dyadic fractions that every carrier holds exactly; only the
// *internal* quotient x/y is not a float.  Case A: quotients in [2^50, 2^53) with a non-zero
// remainder (the spacing of floats there is 1/4 .. 1, so x/y rounds to the next integer).  Case B: x
// just below a multiple of y (the quotient is an integer minus a few ulps).  Every carrier pair must
// give what exact arithmetic gives.
func c14Quotients(c *Ctx, idx int) {
	r := c.Rand("")
	var xf, yf float64
	ok := false
	for try := 0; try < 100 && !ok; try++ {
		if idx%2 == 0 {
			y := float64(gen.Pick(r, []int{3, 5, 7, 9, 11, 13, 33, 99, 1001, -3, -7}))
			sh := uint(50 + r.Intn(3))
			k := float64(uint64(1)<<sh + uint64(r.Intn(1<<20))<<uint(r.Intn(30)))
			rem := float64(1 + r.Intn(int(math.Abs(y))-1))
			x := k*math.Abs(y) + rem
			if r.Chance(30) {
				x = -x
			}
			xf, yf = x, y
		} else {
			y := gen.Pick(r, []float64{3, 7, 1.5, 0.75, 12, 100, 2.5, 6, 24, -3, -1.5})
			k := float64(int64(1)<<uint(30+r.Intn(12)) + int64(r.Intn(1<<16)))
			x := math.Nextafter(k*math.Abs(y), 0)
			if r.Chance(30) {
				x = -x
			}
			xf, yf = x, y
		}
		// both operands must be what we think they are: floats whose exact expansion has <= 34 digits
		xs := strings.TrimRight(strings.TrimRight(new(big.Float).SetFloat64(xf).Text('f', 60), "0"), ".")
		ys := strings.TrimRight(strings.TrimRight(new(big.Float).SetFloat64(yf).Text('f', 60), "0"), ".")
		if len(strings.NewReplacer("-", "", ".", "").Replace(xs)) <= 34 && len(ys) < 20 && !math.IsInf(xf, 0) {
			ok = true
		}
	}
	if !ok {
		return
	}
	xs := strings.TrimRight(strings.TrimRight(new(big.Float).SetFloat64(xf).Text('f', 60), "0"), ".")
	ys := strings.TrimRight(strings.TrimRight(new(big.Float).SetFloat64(yf).Text('f', 60), "0"), ".")
	if !strings.Contains(xs, ".") {
		xs = strings.TrimRight(xs, ".")
	}
	carrier := func(f float64, s string, kind int) any {
		switch kind {
		case 1:
			return f
		case 2:
			if d, err := decimal128.Parse(s); err == nil {
				return d
			}
		case 3:
			if f == math.Trunc(f) && math.Abs(f) < 1<<62 {
				return int64(f)
			}
		case 4:
			if float64(float32(f)) == f {
				return float32(f)
			}
		}
		return json.Number(s)
	}
	sameSign := (xf < 0) == (yf < 0)
	templates := []string{"a // b", "[a // b]", "a // b == `Q`", "a // b // `1`", "let $q = a // b in $q", "xs[0] // xs[1]", "map(&(@ // $.b), [a])", "a % b", "[a % b, a // b]"}
	// the exact truncated quotient, for the literal in the third template
	q := new(big.Rat).Quo(gen.Num(xs).R, gen.Num(ys).R)
	qi := new(big.Int).Quo(q.Num(), q.Denom())
	for _, tm := range templates {
		text := strings.ReplaceAll(tm, "Q", qi.String())
		var base LibOut
		for ka := 0; ka <= 4; ka++ {
			for kb := 0; kb <= 4; kb++ {
				if ka != kb && ka != 0 && kb != 0 && (ka+kb+idx)%3 != 0 {
					continue
				}
				av, bv := carrier(xf, xs, ka), carrier(yf, ys, kb)
				data := map[string]any{"a": av, "b": bv, "xs": []any{av, bv}}
				l := c.LibSearch(text, data)
				if l.Panic != nil {
					continue
				}
				if ka == 0 && kb == 0 {
					base = l
					continue
				}
				if !SameOutcome(base, l, false) {
					c.Report(Violation{Rule: "C14/representation-dependent", Expr: text, Data: gen.Describe(data), Got: ShowOut(l), Want: ShowOut(base) + "  (a, b as json.Number " + xs + ", " + ys + ")", Features: map[string]string{"stream": "float-quotients", "template": tm}})
				}
			}
		}
		if sameSign || !strings.Contains(text, "%") {
			doc := ref.NewObj()
			doc.Set("a", gen.Num(xs))
			doc.Set("b", gen.Num(ys))
			doc.Set("xs", &ref.Arr{E: []ref.V{gen.Num(xs), gen.Num(ys)}})
			if m := ref.Search(text, doc); !m.Unspec {
				if judged, okk, why := Agree(m, base); judged && !okk {
					c.Report(Violation{Rule: "C14/model", Expr: text, Data: "a = " + xs + ", b = " + ys, Got: ShowOut(base), Want: m.String(), Detail: why, Features: map[string]string{"stream": "float-quotients"}})
				}
			}
		}
		c.Nontrivial(text, xs, ys)
	}
}

// c14IntSums: sum / avg / max / min / sort over arrays of Go integers whose total creeps across
// 2^63, 2^64, 2^31 or 2^32 in small steps: a large first element a few thousand short of the
// boundary, then 3..40 small addends (1..2000) that carry the total across.  A native fast path that
// guards with a rounded float total, or that wraps, answers differently from the decimal path; the
// same numbers as json.Number and decimal128 are the reference.
func c14IntSums(c *Ctx, idx int) {
	r := c.Rand("")
	bound := gen.Pick(r, []string{"9223372036854775808", "18446744073709551616", "2147483648", "4294967296", "9007199254740992", "-9223372036854775808"})
	b, _ := new(big.Int).SetString(bound, 10)
	neg := b.Sign() < 0
	short := int64(1 + r.Intn(6000))
	first := new(big.Int).Sub(new(big.Int).Abs(b), big.NewInt(short))
	if neg {
		first.Neg(first)
		first.Sub(first, big.NewInt(0))
	}
	k := 3 + r.Intn(38)
	small := idx%2 == 0 // addends below half a float ulp at 2^63 (512): a float running total absorbs every one of them
	if small {
		k = 10 + r.Intn(60)
	}
	var vals []*big.Int
	vals = append(vals, first)
	var acc int64
	for i := 0; i < k; i++ {
		a := int64(1 + r.Intn(2000))
		if small {
			a = int64(1 + r.Intn(500))
		}
		if acc > short+3000 {
			a = int64(1 + r.Intn(5))
		}
		acc += a
		v := big.NewInt(a)
		if neg {
			v.Neg(v)
		}
		vals = append(vals, v)
	}
	if r.Chance(30) {
		// the large element somewhere else
		j := r.Intn(len(vals))
		vals[0], vals[j] = vals[j], vals[0]
	}
	mk := func(kind int) ([]any, bool) {
		out := make([]any, len(vals))
		for i, v := range vals {
			switch {
			case kind == 0:
				out[i] = json.Number(v.String())
			case kind == 1 && v.IsInt64():
				out[i] = v.Int64()
			case kind == 2 && v.IsUint64():
				out[i] = v.Uint64()
			case kind == 2 && v.IsInt64():
				out[i] = v.Int64()
			case kind == 3:
				d, err := decimal128.Parse(v.String())
				if err != nil {
					return nil, false
				}
				out[i] = d
			case kind == 4 && v.IsInt64() && i > 0 && v.Int64() > -30000 && v.Int64() < 30000:
				out[i] = []any{int16(v.Int64()), int32(v.Int64()), int(v.Int64()), uint16(uint64(new(big.Int).Abs(v).Int64()))}[map[bool]int{true: i % 3, false: i % 4}[v.Sign() < 0]]
			case kind == 4 && v.IsInt64():
				out[i] = v.Int64()
			case kind == 5 && new(big.Int).Abs(b).BitLen() > 54:
				return nil, false // (a float total beyond 2^53 is not exact: outside the property's precondition)
			case kind == 5:
				if f, acc := new(big.Float).SetInt(v).Float64(); acc == big.Exact {
					out[i] = f
				} else {
					out[i] = json.Number(v.String())
				}
			default:
				return nil, false
			}
		}
		return out, true
	}
	for _, text := range []string{"sum(a)", "avg(a) * `" + fmt.Sprint(len(vals)) + "` == sum(a)", "sum(a) > `0`", "sum(a) - a[0]", "[max(a), min(a)]", "sort(a)[-1]", "sum(a[1:])", "sum(a) == `" + new(big.Int).Add(first, map[bool]*big.Int{false: big.NewInt(acc), true: big.NewInt(-acc)}[neg]).String() + "`", "sum(reverse(a))", "sum(map(&(@ + `0`), a))"} {
		var base LibOut
		for kind := 0; kind <= 5; kind++ {
			a, ok := mk(kind)
			if !ok {
				continue
			}
			l := c.LibSearch(text, map[string]any{"a": a})
			if l.Panic != nil {
				continue
			}
			if kind == 0 {
				base = l
				continue
			}
			if !SameOutcome(base, l, false) {
				c.Report(Violation{Rule: "C14/representation-dependent", Expr: text, Data: clipS(gen.Describe(a), 400), Got: ShowOut(l), Want: ShowOut(base) + "  (the same numbers as json.Number)", Features: map[string]string{"stream": "integer-sums", "boundary": bound}})
			}
		}
		c.Nontrivial(text, fmt.Sprint(idx))
	}
}
