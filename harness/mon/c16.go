package mon

import (
	"encoding/json"
	"fmt"
	"strings"
	"unicode/utf16"

	"verif/harness/gen"
	"verif/harness/ref"
)

var c16Alphabet = []string{"'", "\"", "`", "\\", " ", "a", "u", "n", "/", "{", "[", "}", "]", ",", ":", "é", "✓", "😀", "�", "", "", "߿", "￿", "\U0010ffff", "\n", "\r", "\x00"}

func c16Len(c *Ctx) int { return tierN(c, 3, 4) }

func c16Count(L int) int {
	n := 0
	for l := 0; l <= L; l++ {
		n += pow(len(c16Alphabet), l)
	}
	return n
}

func c16String(idx int) string {
	l := 0
	for idx >= pow(len(c16Alphabet), l) {
		idx -= pow(len(c16Alphabet), l)
		l++
	}
	var b strings.Builder
	for i := 0; i < l; i++ {
		b.WriteString(c16Alphabet[idx%len(c16Alphabet)])
		idx /= len(c16Alphabet)
	}
	return b.String()
}

// rawSpellings: every backslash and quote escaped; or backslashes left alone
// where the grammar preserves them (not before ' or \ and not at the end)
func rawSpellings(s string) []string {
	out := []string{ref.RawString(s)}
	var b strings.Builder
	b.WriteByte('\'')
	rs := []rune(s)
	for i, r := range rs {
		switch {
		case r == '\'':
			b.WriteString("\\'")
		case r == '\\':
			if i+1 < len(rs) && rs[i+1] != '\'' && rs[i+1] != '\\' {
				b.WriteByte('\\') // preserved escape: stays a backslash
			} else {
				b.WriteString("\\\\")
			}
		default:
			b.WriteRune(r)
		}
	}
	b.WriteByte('\'')
	if alt := b.String(); alt != out[0] {
		out = append(out, alt)
	}
	return out
}

// jsonSpellings: JSON string encodings of s (minimal; everything as \u escapes
// with surrogate pairs; Go's encoder), each wrapped for use between backticks
func jsonSpellings(s string) []string {
	var esc strings.Builder
	esc.WriteByte('"')
	for _, r := range s {
		if r >= 0x10000 {
			r1, r2 := utf16.EncodeRune(r)
			fmt.Fprintf(&esc, "\\u%04x\\u%04X", r1, r2)
		} else {
			fmt.Fprintf(&esc, "\\u%04X", r)
		}
	}
	esc.WriteByte('"')
	goEnc, _ := json.Marshal(s)
	min := ref.ToJSONText(s)
	short := min
	short = strings.ReplaceAll(short, "/", "\\/")
	out := []string{min, esc.String(), string(goEnc)}
	if short != min {
		out = append(out, short)
	}
	return out
}

func (c *Ctx) c16Expect(text string, data any, want string, rule string, feats map[string]string) {
	l := c.LibSearch(text, data)
	got, ok := l.Res.(string)
	if l.Panic != nil || l.Err != nil || !ok || got != want {
		c.Report(Violation{Rule: rule, Expr: text, Data: gen.Describe(data), Got: ShowOut(l), Want: fmt.Sprintf("%q", want), Features: feats})
	}
}

// c16Rejected compiles malformed neighbours of the literals of s (a valid
// prefix followed by a bad escape, an unterminated literal) right before the
// valid spellings are evaluated: whatever a rejected literal leaves behind in
// the process (pooled buffers, partially decoded text) must not leak into
// the next literal.  The rejections themselves are C04's subject; here they
// are only counted.
func c16Rejected(c *Ctx, s string) {
	j := jsonSpellings(s)[0]
	body := j[:len(j)-1] // opening quote and content, no closing quote
	raw := rawSpellings(s)[0]
	for _, t := range []string{body + "\\x\"", body + "\\u12\"", body + "\\ud83d\\u0041\"", body, "`" + strings.ReplaceAll(body, "`", "\\`") + "\\x\"`", raw[:len(raw)-1], raw[:len(raw)-1] + "\\"} {
		_, lc := c.LibCompile(t)
		if lc.Err != nil {
			c.Count("rejected_neighbours", 1)
		} else {
			c.Count("accepted_neighbours", 1)
		}
	}
}

func c16Check(c *Ctx, s string) {
	c16Rejected(c, s)
	for _, t := range rawSpellings(s) {
		c.c16Expect(t, nil, s, "C16/raw-string", map[string]string{"syntax": "raw"})
	}
	for _, j := range jsonSpellings(s) {
		lit := "`" + strings.ReplaceAll(j, "`", "\\`") + "`"
		c.c16Expect(lit, nil, s, "C16/json-literal", map[string]string{"syntax": "json-literal"})
		// nested in a container
		c.c16Expect("`[["+strings.ReplaceAll(j, "`", "\\`")+"]]`[0][0]", nil, s, "C16/json-literal", map[string]string{"syntax": "json-literal-nested"})
		// quoted identifier: same JSON string syntax (no backtick escaping)
		doc := map[string]any{s: "hit", s + "x": "near-miss"}
		c.c16Expect(j, doc, "hit", "C16/quoted-identifier", map[string]string{"syntax": "quoted-identifier"})
		c.c16Expect("{"+j+": "+j+"}."+j, doc, "hit", "C16/quoted-identifier", map[string]string{"syntax": "quoted-identifier-as-key"})
	}
	c.Nontrivial(s)
}

// c16Ladder: identifiers, keys and string literals that are prefixes of one
// another, evaluated one after the other (shortest first, then longest
// first) in one process and inside one expression: tables keyed by a
// truncated or hashed text, and buffers sized by an earlier token, show as a
// neighbour's value.
func c16Ladder(c *Ctx, idx int) {
	r := c.Rand("")
	n := 20 + r.Intn(50)
	var b strings.Builder
	for i := 0; i < n; i++ {
		if r.Chance(85) {
			b.WriteByte(byte('a' + r.Intn(3)))
		} else {
			b.WriteString(gen.Pick(r, c16Alphabet))
		}
	}
	full := []rune(b.String())
	doc := map[string]any{}
	var keys []string
	for l := 1; l <= len(full); l++ {
		k := string(full[:l])
		doc[k] = "len" + fmt.Sprint(l)
		keys = append(keys, k)
	}
	order := append([]string{}, keys...)
	for i := len(keys) - 1; i >= 0; i-- {
		order = append(order, keys[i])
	}
	for _, k := range order {
		want := doc[k].(string)
		j := jsonSpellings(k)[0]
		c.c16Expect(j, doc, want, "C16/quoted-identifier", map[string]string{"syntax": "quoted-identifier/ladder"})
		if ref.IsBareIdentifier(k) {
			c.c16Expect(k, doc, want, "C16/quoted-identifier", map[string]string{"syntax": "bare-identifier/ladder"})
		}
		c.c16Expect(rawSpellings(k)[0], nil, k, "C16/raw-string", map[string]string{"syntax": "raw/ladder"})
		c.c16Expect("`"+strings.ReplaceAll(j, "`", "\\`")+"`", nil, k, "C16/json-literal", map[string]string{"syntax": "json-literal/ladder"})
	}
	// all of them inside one expression
	var parts []string
	var wants []string
	for i := 0; i < len(keys); i += 1 + r.Intn(3) {
		parts = append(parts, jsonSpellings(keys[i])[0])
		wants = append(wants, doc[keys[i]].(string))
	}
	text := "join(',', [" + strings.Join(parts, ", ") + "])"
	c.c16Expect(text, doc, strings.Join(wants, ","), "C16/quoted-identifier", map[string]string{"syntax": "quoted-identifier/ladder-in-one-expression"})
	hash := make([]string, len(parts))
	for i, p := range parts {
		hash[i] = p + ": " + p
	}
	text = "{" + strings.Join(hash, ", ") + "} | join(',', [" + strings.Join(parts, ", ") + "])"
	c.c16Expect(text, doc, strings.Join(wants, ","), "C16/quoted-identifier", map[string]string{"syntax": "quoted-identifier-as-key/ladder-in-one-expression"})
	c.Nontrivial("ladder", string(full))
}

func c16Exhaustive(c *Ctx, idx int) {
	s := c16String(idx)
	c16Check(c, s)
	if idx%977 == 0 {
		c.Sample(map[string]any{"s": s, "raw": rawSpellings(s), "json": jsonSpellings(s)})
	}
}

var c16Boundary = []rune{0x00, 0x01, 0x08, 0x09, 0x0a, 0x0b, 0x0c, 0x0d, 0x1b, 0x1f, 0x20, 0x21, 0x22, 0x23, 0x26, 0x27, 0x28, 0x2f, 0x5b, 0x5c, 0x5d, 0x60, 0x61, 0x7e, 0x7f, 0x80, 0x9f, 0xa0, 0xff, 0x100, 0x7ff, 0x800, 0xfff, 0x1000, 0xd7ff, 0xe000, 0xfffd, 0xfffe, 0xffff, 0x10000, 0x1f600, 0x10fffe, 0x10ffff, 0x2028, 0x2029, 0xfeff, 0x85}

func c16Random(c *Ctx, idx int) {
	r := c.Rand("")
	var b strings.Builder
	n := r.Intn(200)
	if idx < len(c16Boundary) {
		b.WriteRune(c16Boundary[idx])
	} else {
		for i := 0; i < n; i++ {
			switch r.Intn(6) {
			case 0:
				b.WriteString(gen.Pick(r, c16Alphabet))
			case 1:
				b.WriteRune(gen.Pick(r, c16Boundary))
			case 2: // runs of escapes / delimiters
				b.WriteString(strings.Repeat(gen.Pick(r, []string{"\\", "'", "`", "\"", "\\'", "\\`", "\\\""}), 1+r.Intn(4)))
			case 3:
				b.WriteString(gen.Pick(r, []string{"\\n", "\\u0041", "\\z", "\\\\n", "Φ", "\\ud83d"}))
			default:
				b.WriteRune(rune(0x20 + r.Intn(0x5f)))
			}
		}
	}
	c16Check(c, b.String())
}

// JSON values between backticks evaluate to themselves (numbers at full precision)
func c16Values(c *Ctx, idx int) {
	r := c.Rand("")
	v := c16Value(r, 3)
	js := gen.JSONLayout(r, v)
	lit := "`" + strings.ReplaceAll(js, "`", "\\`") + "`"
	l := c.LibSearch(lit, nil)
	if l.Panic != nil || l.Err != nil || l.MErr != nil || !ref.Match(v, l.M) {
		c.Report(Violation{Rule: "C16/json-value", Expr: lit, Got: ShowOut(l), Want: ref.Show(v)})
	}
	// the number spellings survive too (full precision, no float detour): compare as text
	if n, ok := v.(ref.Num); ok {
		if jn, ok2 := l.Res.(json.Number); ok2 {
			if g, ok3 := ref.ParseNumber(string(jn)); !ok3 || g.R.Cmp(n.R) != 0 {
				c.Report(Violation{Rule: "C16/json-value", Expr: lit, Got: string(jn), Want: n.Txt})
			}
		}
	}
	c.Nontrivial(lit)
	if idx%200 == 0 {
		c.Sample(map[string]any{"literal": lit})
	}
}

func c16Value(r *gen.R, depth int) ref.V {
	switch r.Weighted([]int{30, 25, 15, 15, 15}) {
	case 0: // long / odd numbers
		digits := 1 + r.Intn(40)
		var b strings.Builder
		if r.Chance(30) {
			b.WriteByte('-')
		}
		b.WriteByte(byte('1' + r.Intn(9)))
		for i := 1; i < digits; i++ {
			b.WriteByte(byte('0' + r.Intn(10)))
		}
		if r.Chance(40) {
			b.WriteByte('.')
			for i := 0; i < 1+r.Intn(20); i++ {
				b.WriteByte(byte('0' + r.Intn(10)))
			}
		}
		if r.Chance(30) {
			fmt.Fprintf(&b, "%s%d", gen.Pick(r, []string{"e", "E", "e+", "e-", "E-"}), r.Intn(400))
		}
		return gen.Num(b.String())
	case 1:
		var b strings.Builder
		for i := 0; i < r.Intn(8); i++ {
			b.WriteString(gen.Pick(r, c16Alphabet))
		}
		return b.String()
	case 2:
		return gen.Scalar(r)
	case 3:
		if depth <= 0 {
			return nil
		}
		a := &ref.Arr{E: []ref.V{}}
		for i := 0; i < r.Intn(4); i++ {
			a.E = append(a.E, c16Value(r, depth-1))
		}
		return a
	}
	if depth <= 0 {
		return true
	}
	o := ref.NewObj()
	for i := 0; i < r.Intn(4); i++ {
		k := gen.Pick(r, c16Alphabet) + gen.Pick(r, gen.Keys)
		o.Set(k, c16Value(r, depth-1))
	}
	return o
}

func init() {
	Register(&Property{
		ID:            "C16",
		Rule:          "every string of length <= 3 (quick) / <= 4 (thorough) over a 27-symbol hostile alphabet (LF, CR and NUL - written raw in raw strings, escaped in the JSON forms -, quotes, backslash, backtick, brackets, separators, 2-/3-/4-byte code points, U+FFFD, U+007F, U+0080, U+07FF, U+FFFF, U+10FFFF) - exhaustive - plus every code point of a boundary set and seeded strings up to 200 code points with runs of escapes and delimiters: written as a raw string (both spellings of preserved backslashes), as a JSON literal (minimal, all-\\u with surrogate pairs, Go's encoder, \\/), nested in a literal container, and as a quoted identifier (field access and multi-select key) - each must decode to exactly that string / select exactly that member; before the valid spellings of each string, malformed neighbours (valid prefix + bad escape, truncated surrogate pair, unterminated literal) are compiled in the same process so that state left behind by a rejected literal would show; ladder stream: 20-70 keys/strings that are prefixes of one another, as quoted and bare identifiers, raw strings and JSON literals, evaluated shortest-first then longest-first in one process and together inside one expression; generated JSON values (30-40 digit numbers, exponents, nested containers, odd keys) in random legal layouts between backticks must evaluate to themselves; direct oracle: the generator knows the answer; non-trivial = every string/value; long-offsets stream: one escape behind a plain prefix so that its byte offset is at / around 2^8, 2^12, 2^15, 2^16, 2^17, 3*2^16, 2^20 (27 offsets), prefixes of 1-, 2- and 3-byte characters, raw strings, quoted identifiers and JSON literals, with and without a later second escape; structural-strings stream: JSON-literal strings of 1..100001 brackets, braces, escaped quotes, commas, colons or escaped backticks after strings that end in an escaped backslash or quote, as elements, keys, values and bare strings",
		MinNontrivial: 5000,
		Streams: []Stream{
			{Name: "exhaustive", N: func(c *Ctx) int { return c16Count(c16Len(c)) }, Run: c16Exhaustive, Exhaustive: true},
			{Name: "random", N: func(c *Ctx) int { return tierN(c, 10000, 1000000) }, Run: c16Random},
			{Name: "ladder", N: func(c *Ctx) int { return tierN(c, 300, 20000) }, Run: c16Ladder},
			{Name: "long-offsets", N: c16LongOffsetsN, Run: c16LongOffsets, Exhaustive: true},
			{Name: "structural-strings", N: c16StructN, Run: c16Struct, Exhaustive: true},
			{Name: "values", N: func(c *Ctx) int { return tierN(c, 20000, 1500000) }, Run: c16Values},
		},
	})
}

// c16LongOffsets: one escape after a long plain prefix, so that its byte offset inside the token is
// at, just before and just after 2^8, 2^12, 2^15, 2^16, 2^17 and 2^20 (offsets kept in narrow integer
// fields wrap to "no escape" exactly there); prefixes of 1-, 2- and 3-byte characters; every literal
// syntax and every kind of escape; a second escape later on.
var c16Offsets = []int{254, 255, 256, 257, 4094, 4095, 4096, 4097, 32766, 32767, 32768, 32769, 65533, 65534, 65535, 65536, 65537, 65538, 131070, 131071, 131072, 131073, 196607, 196608, 1048575, 1048576, 1048577}

func c16LongOffsetsN(c *Ctx) int { return len(c16Offsets) * 3 }

func c16LongOffsets(c *Ctx, idx int) {
	off := c16Offsets[idx%len(c16Offsets)]
	unit := []string{"a", "é", "日"}[idx/len(c16Offsets)]
	// the prefix fills the token up to byte offset off (counted from the opening delimiter, which is
	// at offset 0); short by a few single-byte characters when the unit does not divide it
	build := func(n int) string {
		if n <= 0 {
			return ""
		}
		p := strings.Repeat(unit, n/len(unit))
		return p + strings.Repeat("x", n-len(p))
	}
	for _, lead := range []int{1, 2} { // raw strings and quoted identifiers: 1 delimiter byte; JSON literals: backtick + quote
		prefix := build(off - lead)
		for _, tail := range []string{"z", "", "tail\\\\more"} {
			tailDec := strings.ReplaceAll(tail, "\\\\", "\\")
			if lead == 1 {
				c.c16Expect("'"+prefix+"\\'"+tail+"'", nil, prefix+"'"+strings.ReplaceAll(tail, "\\\\", "\\"), "C16/raw-string", map[string]string{"syntax": "raw", "stream": "long-offsets", "offset": fmt.Sprint(off)})
				c.c16Expect("'"+prefix+"\\\\"+tail+"'", nil, prefix+"\\"+tailDec, "C16/raw-string", map[string]string{"syntax": "raw", "stream": "long-offsets", "offset": fmt.Sprint(off)})
				key := prefix + "\n" + tailDec
				c.c16Expect("\""+prefix+"\\n"+tail+"\"", map[string]any{key: "hit", prefix: "near-miss"}, "hit", "C16/quoted-identifier", map[string]string{"syntax": "quoted-identifier", "stream": "long-offsets", "offset": fmt.Sprint(off)})
				key2 := prefix + "é" + tailDec
				c.c16Expect("\""+prefix+"\\u00e9"+tail+"\"", map[string]any{key2: "hit"}, "hit", "C16/quoted-identifier", map[string]string{"syntax": "quoted-identifier", "stream": "long-offsets", "offset": fmt.Sprint(off)})
			} else {
				c.c16Expect("`\""+prefix+"\\`"+tail+"\"`", nil, prefix+"`"+tailDec, "C16/json-literal", map[string]string{"syntax": "json-literal", "stream": "long-offsets", "offset": fmt.Sprint(off)})
				c.c16Expect("`\""+prefix+"\\n"+tail+"\"`", nil, prefix+"\n"+tailDec, "C16/json-literal", map[string]string{"syntax": "json-literal", "stream": "long-offsets", "offset": fmt.Sprint(off)})
				c.c16Expect("`[\""+prefix+"\\\"q"+tail+"\"]`[0]", nil, prefix+"\"q"+tailDec, "C16/json-literal", map[string]string{"syntax": "json-literal-nested", "stream": "long-offsets", "offset": fmt.Sprint(off)})
			}
		}
	}
	c.Nontrivial("long-offsets", fmt.Sprint(idx))
}

// c16StructuralStrings: JSON literals whose *strings* are made of the characters that give JSON its
// structure - 1..70000 brackets, braces, quotes (escaped), commas, colons, backticks (escaped for the
// literal syntax) - placed after strings that end in an escaped backslash or an escaped quote, as
// elements, keys and values.  A pre-scan that tracks "inside a string" with anything less than the
// real rule miscounts here.  Direct oracle: the literal evaluates to the value it spells.
func c16StructN(c *Ctx) int { return 10 * 8 }

func c16Struct(c *Ctx, idx int) {
	n := []int{1, 100, 9999, 10000, 10001, 20000, 65536, 70000, 100001, 5}[idx%10]
	fill := []string{"[", "{", "]", "[{", "\\\"", ",", ":", "\\`"}[idx/10]
	dec := strings.NewReplacer("\\\"", "\"", "\\`", "`").Replace(fill)
	body := strings.Repeat(fill, n)
	want := strings.Repeat(dec, n)
	for _, first := range []struct{ text, dec string }{{"a\\\\", "a\\"}, {"C:\\\\", "C:\\"}, {"q\\\"", "q\""}, {"\\\\\\\\", "\\\\"}, {"plain", "plain"}, {"", ""}} {
		feats := map[string]string{"stream": "structural-strings", "fill": fill, "count": fmt.Sprint(n)}
		lit := "`[\"" + first.text + "\", \"" + body + "\"]`"
		c.c16Expect(lit+"[1]", nil, want, "C16/json-literal", feats)
		c.c16Expect(lit+"[0]", nil, first.dec, "C16/json-literal", feats)
		obj := "`{\"" + first.text + "\": \"" + body + "\", \"z\": \"" + first.text + "\"}`"
		c.c16Expect(obj+".z", nil, first.dec, "C16/json-literal", feats)
		c.c16Expect("`{\"k\": \""+first.text+"\", \"v\": [\""+body+"\"]}`.v[0]", nil, want, "C16/json-literal", feats)
		if !strings.Contains(fill, "`") {
			c.c16Expect("`\""+first.text+body+"\"`", nil, first.dec+want, "C16/json-literal", feats)
		}
	}
	c.Nontrivial("structural-strings", fmt.Sprint(idx))
}
