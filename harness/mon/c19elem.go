package mon

import (
	"fmt"
	"strings"
)

// per-element towers: an outer let evaluated once per element (of a projection, a flatten, a filter, a
// map / sort_by / group_by expression reference) with a different value each time, 1..5
// further lets nested in its body (binding other names, from constants, from the element, or from the
// outer variable), and the innermost body reading the outer variable - directly, through the
// intermediate names, inside a filter, inside an expression reference. Each element must see its own
// bindings, however many scopes lie in between and whatever the previous element left behind.
func c19PerElementShapes() []string {
	var out []string
	wraps := []string{"xs[*].[%s][]", "xs[].[%s]", "xs[?(%s)].id", "map(&(%s), xs)", "sort_by(xs, &to_string(%s))[*].id", "sort_by(xs, &n)[::-1][*].[%s]", "group_by(xs, &to_string(%s)) | keys(@) | sort(@)", "xs[*].xs[*].[%s]", "[xs[0], xs[2], xs[1], xs[0]][*].[%s]", "xs[*].{v: %s}.v"}
	inner := []string{"$a", "[$a, id]", "[$a, $p1]", "xs[?n > $a].id", "map(&[$a, @.id], xs)", "{a: $a, p: $p1}.a", "$a == id", "[$p1, $a, $p1]"}
	binds := []string{"'p'", "id", "$a", "[$a]", "n"}
	n := 0
	for depth := 1; depth <= 5; depth++ {
		for bi, b := range binds {
			var sb strings.Builder
			for k := 1; k <= depth; k++ {
				v := b
				if k > 1 && bi%2 == 1 {
					v = fmt.Sprintf("$p%d", k-1)
				}
				fmt.Fprintf(&sb, "let $p%d = %s in ", k, v)
			}
			for ii, in := range inner {
				for _, key := range []string{"id", "n"} {
					body := "let $a = " + key + " in " + sb.String() + in
					w := wraps[n%len(wraps)]
					n++
					if (ii+depth)%2 == 0 {
						w = wraps[(n+3)%len(wraps)]
					}
					out = append(out, fmt.Sprintf(w, body))
				}
			}
		}
	}
	return out
}

func init() { c19Shapes = append(c19Shapes, c19PerElementShapes()...) }
