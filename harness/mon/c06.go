package mon

import (
	"encoding/json"
	"fmt"
	"reflect"
	"sort"
	"strings"

	"github.com/woodsbury/jmespath"

	"verif/harness/gen"
	"verif/harness/ref"
)

const canary = "\x00CANARY\x00"

// toGoCanary converts a model value to Go data whose slices all have spare
// capacity filled with sentinel values (a library that appends into or
// reslices the caller's arrays overwrites them).
func toGoCanary(r *gen.R, v ref.V) any {
	switch x := v.(type) {
	case ref.Num:
		return ref.JSONNumber(x)
	case *ref.Arr:
		extra := 1 + r.Intn(3)
		s := make([]any, len(x.E)+extra)
		for i, e := range x.E {
			s[i] = toGoCanary(r, e)
		}
		for i := len(x.E); i < len(s); i++ {
			s[i] = canary
		}
		return s[:len(x.E)]
	case *ref.Obj:
		m := make(map[string]any, len(x.Keys))
		for _, k := range x.Keys {
			m[k] = toGoCanary(r, x.M[k])
		}
		return m
	}
	return v
}

// deepSnap renders a Go value completely: dynamic types, values, slice
// lengths, the capacity tails and the identity (pointer) of every container.
func deepSnap(v any) string {
	var b strings.Builder
	snap(&b, v)
	return b.String()
}

func snap(b *strings.Builder, v any) {
	switch x := v.(type) {
	case []any:
		if x == nil {
			b.WriteString("nil[]")
			return
		}
		fmt.Fprintf(b, "[@%x len=%d cap=%d:", reflect.ValueOf(x).Pointer(), len(x), cap(x))
		full := x[:cap(x)]
		for i, e := range full {
			if i == len(x) {
				b.WriteString(" |tail| ")
			}
			snap(b, e)
			b.WriteByte(',')
		}
		b.WriteByte(']')
	case map[string]any:
		if x == nil {
			b.WriteString("nilmap")
			return
		}
		fmt.Fprintf(b, "{@%x len=%d:", reflect.ValueOf(x).Pointer(), len(x))
		ks := make([]string, 0, len(x))
		for k := range x {
			ks = append(ks, k)
		}
		sort.Strings(ks)
		for _, k := range ks {
			fmt.Fprintf(b, "%q:", k)
			snap(b, x[k])
			b.WriteByte(',')
		}
		b.WriteByte('}')
	case string:
		fmt.Fprintf(b, "%q", x)
	case json.Number:
		fmt.Fprintf(b, "n%q", string(x))
	default:
		fmt.Fprintf(b, "%T(%v)", v, v)
	}
}

// valueSnap renders a value without identities (for results, which may alias inputs).
func valueSnap(v any) string { return gen.Describe(v) }

var c06Builders = []string{"sort(%s)", "reverse(%s)", "sort_by(%s, &@)", "sort_by(%s, &a)", "to_array(%s)", "%s[*]", "%s[]", "%s[::-1]", "%s[1:]", "%s[:2]", "merge(%s, %s)", "group_by(%s, &to_string(@))", "from_items(items(%s))", "[%s, %s]", "{k: %s}", "%s[?@]", "map(&@, %s)", "zip(%s, %s)", "values(%s)", "keys(%s)", "not_null(%s)", "max_by(%s, &@)", "%s || %s", "%s && %s", "%s | sort(@)", "%s | reverse(@)", "flatten_dummy"}

func (c *Ctx) c06Expr(r *gen.R, doc ref.V) string {
	g := &gen.ExprGen{R: r, Root: doc, Funcs: 60, Lets: true, Arith: false}
	switch r.Intn(4) {
	case 0:
		return ref.Print(g.Expr(doc, 3))
	case 1:
		return ref.Print(g.Call(doc, 2))
	}
	// a container-building wrapper around a path or a literal (literals are
	// shared between the compiled expression and every result)
	var inner string
	if r.Chance(45) {
		inner = ref.Print(gen.Lit(gen.Doc(r, 2)))
	} else if p := g.PathTo(doc, func(v ref.V) bool { _, ok := v.(*ref.Arr); return ok }); p != nil && r.Chance(70) {
		inner = ref.Print(p)
	} else {
		inner = ref.Print(g.Chain(doc, 1+r.Intn(2)))
	}
	b := gen.Pick(r, c06Builders[:len(c06Builders)-1])
	t := strings.ReplaceAll(b, "%s", inner)
	if r.Chance(30) {
		b2 := gen.Pick(r, c06Builders[:len(c06Builders)-1])
		if strings.Contains(b2, "(%s") || strings.HasPrefix(b2, "[") || strings.HasPrefix(b2, "{") {
			// argument / element position: no parentheses needed (and a
			// parenthesised argument is a different node for the evaluator)
			t = strings.ReplaceAll(b2, "%s", t)
		} else {
			t = strings.ReplaceAll(b2, "%s", "("+t+")")
		}
	}
	return t
}

func c06History(c *Ctx, idx int) {
	r := c.Rand("")
	ndocs := 2 + r.Intn(3)
	docs := make([]ref.V, ndocs)
	for i := range docs {
		docs[i] = gen.Doc(r, 3)
		if i > 0 && r.Chance(30) {
			docs[i] = gen.Clone(docs[0]) // an equal but distinct document
		}
	}
	text := c.c06Expr(r, docs[0])
	if strings.Contains(text, "pad_") {
		return
	}
	c06Calls(c, r, text, docs)
}

// c06Directed: every ordering / reversing / merging function applied to every
// way of handing it an array of the caller's document (or a literal of the
// compiled expression) without a copy, over unsorted homogeneous arrays.
func c06Directed(c *Ctx, idx int) {
	r := c.Rand("")
	d, _ := ref.FromJSON(c07DirectedDoc)
	c06Calls(c, r, c07Directed()[idx], []ref.V{d, gen.Clone(d)})
}

func c06Calls(c *Ctx, r *gen.R, text string, docs []ref.V) {
	ndocs := len(docs)
	godocs := make([]any, ndocs)
	snaps := make([]string, ndocs)
	for i := range docs {
		godocs[i] = toGoCanary(r, docs[i])
		snaps[i] = deepSnap(godocs[i])
	}
	pr := ref.Parse(text)
	e, lc := c.LibCompile(text)
	// MustCompile panics exactly when Compile fails
	c.Intent(text, "MustCompile")
	mcPanicked := func() (p bool) {
		defer func() {
			if recover() != nil {
				p = true
			}
		}()
		jmespath.MustCompile(text)
		return false
	}()
	if lc.Panic == nil && mcPanicked != (lc.Err != nil) {
		c.Report(Violation{Rule: "C06/mustcompile", Expr: text, Got: fmt.Sprintf("MustCompile panicked: %v", mcPanicked), Want: fmt.Sprintf("Compile error: %v", lc.Err)})
	}
	if lc.Err != nil || lc.Panic != nil {
		return
	}
	fp0, _ := jmespath.VerifASTFingerprint(e)
	type past struct {
		res  any
		snap string
		call int
	}
	var earlier []past
	ncalls := 3 + r.Intn(6)
	nontrivial := false
	for k := 0; k < ncalls; k++ {
		d := r.Intn(ndocs)
		if k%2 == 0 {
			d = 0 // d1 d? d1 d? d1 ...
		}
		got := c.LibExprSearch(e, text, godocs[d])
		if got.Panic != nil {
			return
		}
		// fresh one-shot evaluation on a deep copy
		fresh := c.LibSearch(text, ref.ToGo(docs[d], ref.JSONNumber))
		m := ref.SearchParsed(pr, docs[d])
		same := false
		if !m.Unspec {
			_, ok1, _ := Agree(m, got)
			_, ok2, _ := Agree(m, fresh)
			same = ok1 == ok2
			if m.Fault != 0 && got.Err != nil && fresh.Err != nil && m.Fault&got.Cats != 0 && m.Fault&fresh.Cats != 0 {
				same = true
			}
		} else if Enumerates(text) {
			same = true // order of enumeration may differ between any two calls
		} else {
			same = SameOutcome(fresh, got, false)
		}
		if !same {
			c.Report(Violation{Rule: "C06/differs-from-fresh-search", Expr: text, Data: gen.Describe(godocs[d]), Got: ShowOut(got), Want: ShowOut(fresh), Detail: fmt.Sprintf("call %d of the history on document %d", k+1, d)})
		}
		// the caller's data is untouched (values, lengths, capacity tails, identities)
		for i := range godocs {
			if s := deepSnap(godocs[i]); s != snaps[i] {
				c.Report(Violation{Rule: "C06/input-modified", Expr: text, Data: clipS(snaps[i], 1500), Got: clipS(s, 1500), Detail: fmt.Sprintf("document %d changed during call %d (on document %d)", i, k+1, d)})
				snaps[i] = s
			}
		}
		// the compiled expression is untouched
		if fp, _ := jmespath.VerifASTFingerprint(e); fp != fp0 {
			c.Report(Violation{Rule: "C06/expression-modified", Expr: text, Data: gen.Describe(godocs[d]), Detail: fmt.Sprintf("AST fingerprint changed during call %d", k+1)})
			fp0 = fp
		}
		// earlier results stay valid
		for _, p := range earlier {
			if s := valueSnap(p.res); s != p.snap {
				c.Report(Violation{Rule: "C06/earlier-result-changed", Expr: text, Data: gen.Describe(godocs[d]), Got: clipS(s, 1000), Want: clipS(p.snap, 1000), Detail: fmt.Sprintf("result of call %d changed during call %d", p.call, k+1)})
				p.snap = s
			}
		}
		if got.Err == nil {
			earlier = append(earlier, past{got.Res, valueSnap(got.Res), k + 1})
			switch x := got.Res.(type) {
			case []any:
				nontrivial = nontrivial || len(x) > 0
			case map[string]any:
				nontrivial = nontrivial || len(x) > 0
			}
		}
	}
	if nontrivial {
		c.Nontrivial(text, ref.ToJSONText(docs[0]))
		c.Sample(map[string]any{"expr": text, "documents": ndocs, "calls": ncalls, "first_document": clipS(ref.ToJSONText(docs[0]), 200)})
	}
}

// MustCompile vs Compile over member and non-member corpora
func c06Must(c *Ctx, idx int) {
	r := c.Rand("")
	c03Setup(c)
	text := gen.Pick(r, c03Corpus)
	if r.Chance(60) {
		text = gen.Mutate(r, text)
	}
	if idx%50 == 7 {
		// long texts (members and non-members): every entry point must give the same verdict
		n := []int{1000, 4096, 65535, 65536, 65537, 70000, 200000, 1 << 20}[(idx/50)%8]
		switch (idx / 400) % 6 {
		case 0:
			text = "'" + strings.Repeat("x", n) + "'"
		case 1:
			text = "a" + strings.Repeat(" || a", n/5)
		case 2:
			text = "a" + strings.Repeat(" ", n) + ".b"
		case 3:
			text = "`[1" + strings.Repeat(",1", n/2) + "]`"
		case 4:
			text = "a" + strings.Repeat(".a", n/2) + " ||"
		case 5:
			text = "[a" + strings.Repeat(", a", n/3) + "]"
		}
		c06EntryPoints(c, text)
	}
	_, lc := c.LibCompile(text)
	c.Intent(text, "MustCompile")
	var pv any
	func() {
		defer func() { pv = recover() }()
		jmespath.MustCompile(text)
	}()
	if lc.Panic == nil && (pv != nil) != (lc.Err != nil) {
		c.Report(Violation{Rule: "C06/mustcompile", Expr: text, Got: fmt.Sprintf("MustCompile panicked: %v", pv != nil), Want: fmt.Sprintf("Compile error: %v", lc.Err)})
	}
	c.Nontrivial(text)
}

// syncInPlace makes the Go value g equal to the model value v while keeping
// the identity (map header, backing array) of every container whose kind
// still matches: what a caller does when it edits its document between calls.
func syncInPlace(g any, v ref.V) any {
	switch x := v.(type) {
	case ref.Num:
		return ref.JSONNumber(x)
	case *ref.Arr:
		gs, ok := g.([]any)
		if !ok || gs == nil || cap(gs) < len(x.E) {
			gs = make([]any, len(x.E), len(x.E)+4)
		}
		old := len(gs)
		gs = gs[:len(x.E)]
		for i, e := range x.E {
			var prev any
			if i < old {
				prev = gs[i]
			}
			gs[i] = syncInPlace(prev, e)
		}
		return gs
	case *ref.Obj:
		gm, ok := g.(map[string]any)
		if !ok || gm == nil {
			gm = make(map[string]any, len(x.Keys))
		}
		for k := range gm {
			if _, keep := x.M[k]; !keep {
				delete(gm, k)
			}
		}
		for _, k := range x.Keys {
			gm[k] = syncInPlace(gm[k], x.M[k])
		}
		return gm
	}
	return v
}

// editDoc returns a modified copy of v: mostly shape-preserving edits (one
// leaf replaced, two elements swapped), sometimes a member or element added
// or removed.
func editDoc(r *gen.R, v ref.V) ref.V {
	v = gen.Clone(v)
	var containers []ref.V
	var walk func(x ref.V)
	walk = func(x ref.V) {
		switch y := x.(type) {
		case *ref.Arr:
			containers = append(containers, y)
			for _, e := range y.E {
				walk(e)
			}
		case *ref.Obj:
			containers = append(containers, y)
			for _, k := range y.Keys {
				walk(y.M[k])
			}
		}
	}
	walk(v)
	if len(containers) == 0 {
		return gen.Doc(r, 2)
	}
	nedits := 1 + r.Intn(2)
	for n := 0; n < nedits; n++ {
		switch y := gen.Pick(r, containers).(type) {
		case *ref.Arr:
			switch {
			case len(y.E) == 0 || r.Chance(12):
				y.E = append(y.E, gen.Scalar(r))
			case r.Chance(12):
				y.E = y.E[:len(y.E)-1]
			case len(y.E) > 1 && r.Chance(35):
				i, j := r.Intn(len(y.E)), r.Intn(len(y.E))
				y.E[i], y.E[j] = y.E[j], y.E[i]
			default:
				i := r.Intn(len(y.E))
				if _, leaf := y.E[i].(*ref.Arr); !leaf || r.Chance(30) {
					y.E[i] = gen.Scalar(r)
				}
			}
		case *ref.Obj:
			switch {
			case len(y.Keys) == 0 || r.Chance(12):
				y.Set(gen.Pick(r, gen.Keys), gen.Scalar(r))
			case len(y.Keys) > 1 && r.Chance(30):
				// two members exchange their values: same keys, same sizes
				a, b := gen.Pick(r, y.Keys), gen.Pick(r, y.Keys)
				y.M[a], y.M[b] = y.M[b], y.M[a]
			default:
				k := gen.Pick(r, y.Keys)
				y.M[k] = gen.Scalar(r)
			}
		}
	}
	return v
}

// c06Edited: the caller edits its document in place between calls; every call
// (compiled and one-shot, on the very same Go containers) must see the
// document as it is now, i.e. agree with a fresh Search on a deep copy.
func c06Edited(c *Ctx, idx int) {
	r := c.Rand("")
	cur := gen.Doc(r, 3)
	if _, ok := cur.(*ref.Arr); !ok {
		if _, ok := cur.(*ref.Obj); !ok {
			cur = gen.Object(r, 3)
		}
	}
	text := c.c06Expr(r, cur)
	if strings.Contains(text, "pad_") {
		return
	}
	pr := ref.Parse(text)
	e, lc := c.LibCompile(text)
	if lc.Err != nil || lc.Panic != nil {
		return
	}
	var g any
	g = syncInPlace(nil, cur)
	nsteps := 3 + r.Intn(5)
	nontrivial := false
	for k := 0; k < nsteps; k++ {
		if k > 0 {
			cur = editDoc(r, cur)
			g = syncInPlace(g, cur)
		}
		gotE := c.LibExprSearch(e, text, g)
		gotS := c.LibSearch(text, g)
		if gotE.Panic != nil || gotS.Panic != nil {
			return
		}
		fresh := c.LibSearch(text, ref.ToGo(cur, ref.JSONNumber))
		m := ref.SearchParsed(pr, cur)
		for which, got := range []LibOut{gotE, gotS} {
			same := false
			if !m.Unspec {
				_, ok1, _ := Agree(m, got)
				_, ok2, _ := Agree(m, fresh)
				same = ok1 == ok2
				if m.Fault != 0 && got.Err != nil && fresh.Err != nil && m.Fault&got.Cats != 0 && m.Fault&fresh.Cats != 0 {
					same = true
				}
			} else if Enumerates(text) {
				same = true
			} else {
				same = SameOutcome(fresh, got, false)
			}
			if !same {
				c.Report(Violation{Rule: "C06/stale-after-edit", Expr: text, Data: gen.Describe(g), Got: ShowOut(got), Want: ShowOut(fresh), Detail: fmt.Sprintf("step %d: the caller edited its document in place; %s on the same containers differs from a fresh Search on a copy", k+1, []string{"Expression.Search", "one-shot Search"}[which])})
			}
		}
		if gotE.Err == nil && k > 0 {
			switch x := gotE.Res.(type) {
			case []any:
				nontrivial = nontrivial || len(x) > 0
			case map[string]any:
				nontrivial = nontrivial || len(x) > 0
			}
		}
	}
	if nontrivial {
		c.Nontrivial(text, ref.ToJSONText(cur), "edited")
	}
}

// c06Foreign: documents whose plain containers hold foreign Go values (typed slices and maps,
// arrays, structs, pointers).  Whatever the library does with them (today: treats them as opaque
// values), it must not rewrite the caller's containers: same dynamic type and value at every
// position after every call, for any expression.
func c06Foreign(c *Ctx, idx int) {
	r := c.Rand("")
	type rec struct {
		Name string
		N    int
		Tags []string
	}
	mk := func() map[string]any {
		return map[string]any{
			"name": "doc", "strs": []string{"b", "a", "c"}, "ints": []int{3, 1, 2}, "f64s": []float64{1.5, 0.5}, "m": map[string]string{"a": "1", "b": "2"}, "mi": map[string]int{"k": 1},
			"arr": [3]int{3, 1, 2}, "st": rec{"s", 1, []string{"t"}}, "pt": &rec{Name: "p"}, "ms": []map[string]any{{"a": json.Number("1")}, {"a": json.Number("2")}}, "ifs": []any{[]string{"x"}, map[string]string{"y": "z"}, rec{Name: "in-array"}, json.Number("7")},
			"nested": map[string]any{"inner": []int{1, 2}, "deep": map[string]any{"deeper": map[string]string{"q": "r"}}}, "bytes": []byte("raw"), "nums": []any{json.Number("2"), json.Number("1")},
		}
	}
	doc := mk()
	before := fmt.Sprintf("%#v", doc)
	var text string
	switch idx % 3 {
	case 0:
		text = gen.Pick(r, []string{"name", "@", "strs", "ints", "m", "st", "pt", "ifs", "nested", "nested.inner", "nested.deep.deeper", "ms[*].a", "ms[0]", "ifs[0]", "ifs[*]", "ifs[]", "nums", "sort(nums)", "[strs, ints]", "{a: strs, b: m}", "to_array(strs)", "not_null(missing, strs)", "type(strs)", "type(st)", "length(strs)", "keys(@)", "values(@)", "strs[0]", "strs[::-1]", "m.a", "arr", "arr[0]", "merge(@, {k: `1`})", "merge({k: strs}, nested)", "reverse(ifs)", "sort_by(ms, &a)", "map(&@, ifs)", "ifs[?@]", "strs == strs", "contains(ifs, strs)", "bytes", "to_string(nums)", "*", "nested.*", "[*]", "@.*.inner"})
	case 1:
		g := &gen.ExprGen{R: r, Root: nil, Funcs: 50, Lets: true, Arith: false}
		jsonish, _ := ref.FromJSON(`{"name":"doc","strs":["b"],"ints":[1],"m":{"a":"1"},"nested":{"inner":[1]},"ifs":[["x"]],"nums":[2,1],"ms":[{"a":1}]}`)
		g.Root = jsonish
		text = ref.Print(g.Expr(jsonish, 3))
	default:
		text = c.c06Expr(r, nil)
	}
	if strings.Contains(text, "pad_") {
		return
	}
	e, lc := c.LibCompile(text)
	for k := 0; k < 3; k++ {
		var l LibOut
		if k == 1 && lc.Err == nil && lc.Panic == nil {
			l = c.LibExprSearch(e, text, doc)
		} else {
			l = c.LibSearch(text, doc)
		}
		if l.Panic != nil {
			return // C03's subject
		}
		if after := fmt.Sprintf("%#v", doc); after != before {
			c.Report(Violation{Rule: "C06/input-modified", Expr: text, Data: clipS(before, 1500), Got: clipS(after, 1500), Detail: fmt.Sprintf("a document holding foreign Go values changed (dynamic types or values) during call %d", k+1), Features: map[string]string{"stream": "foreign-containers"}})
			return
		}
	}
	c.Nontrivial(text)
}

// c06EntryPoints: Search, Compile+Search and MustCompile+Search give the same outcome for one text.
func c06EntryPoints(c *Ctx, text string) {
	doc := map[string]any{"a": map[string]any{"a": json.Number("1"), "b": "x"}, "b": json.Number("2")}
	ls := c.LibSearch(text, doc)
	e, lc := c.LibCompile(text)
	var le LibOut
	if lc.Err != nil || lc.Panic != nil {
		le = lc
		le.Res = nil
	} else {
		le = c.LibExprSearch(e, text, doc)
	}
	c.Intent(text, "MustCompile")
	lm := Observe(func() (res any, err error) {
		var me *jmespath.Expression
		func() {
			defer func() {
				if p := recover(); p != nil {
					err = fmt.Errorf("%w: MustCompile panicked", jmespath.ErrSyntax)
				}
			}()
			me = jmespath.MustCompile(text)
		}()
		if err != nil {
			return nil, err
		}
		return me.Search(doc)
	})
	feats := map[string]string{"text_bytes": fmt.Sprint(len(text))}
	if !SameOutcome(ls, le, false) {
		c.Report(Violation{Rule: "C06/differs-from-fresh-search", Expr: clipS(text, 200), Got: ShowOut(le) + " (Compile + Expression.Search)", Want: ShowOut(ls) + " (one-shot Search)", Features: feats})
	}
	if (ls.Err != nil) != (lm.Err != nil) || (ls.Err == nil && !SameOutcome(ls, lm, false)) {
		c.Report(Violation{Rule: "C06/mustcompile", Expr: clipS(text, 200), Got: ShowOut(lm) + " (MustCompile + Expression.Search)", Want: ShowOut(ls) + " (one-shot Search)", Features: feats})
	}
}

// c06Limits: the library documents depth limits (it returns an error instead of overflowing the
// stack).  A call that fails on a limit must leave nothing behind: the largest expression that
// succeeded before such failures must still succeed after them - compiled earlier, compiled
// afresh, and one-shot - and the smallest failing one must still fail.
func c06Limits(c *Ctx, idx int) {
	mk := []func(n int) string{
		func(n int) string { return "a" + strings.Repeat(" || a", n) },
		func(n int) string { return "a" + strings.Repeat(".a", n) },
		func(n int) string { return strings.Repeat("(", n) + "a" + strings.Repeat(")", n) },
		func(n int) string { return strings.Repeat("[", n) + "a" + strings.Repeat("]", n) },
		func(n int) string { return strings.Repeat("!", n) + "a" },
		func(n int) string { return "a" + strings.Repeat(" | a", n) },
		func(n int) string { return "a" + strings.Repeat(" && a", n) },
		func(n int) string { return "a" + strings.Repeat("[?a]", n) },
	}[idx%8]
	var doc any = map[string]any{"a": "v"}
	if idx%8 == 1 {
		// a.a.a...: a document as deep as the chain
		d := map[string]any{}
		cur := d
		for i := 0; i < 120000; i++ {
			nx := map[string]any{}
			cur["a"] = nx
			cur = nx
		}
		doc = d
	}
	ok := func(n int) bool {
		l := c.LibSearch(mk(n), doc)
		return l.Panic == nil && l.Err == nil
	}
	if !ok(100) {
		return
	}
	lo, hi := 100, 110000
	if ok(hi) {
		c.Count("limit_not_reached", 1)
		return // no limit below 110000 for this shape: nothing to probe
	}
	for hi-lo > 1 {
		mid := (lo + hi) / 2
		if ok(mid) {
			lo = mid
		} else {
			hi = mid
		}
	}
	// lo succeeds, lo+1 fails
	text := mk(lo)
	e, lc := c.LibCompile(text)
	if lc.Err != nil || lc.Panic != nil {
		return
	}
	first := c.LibExprSearch(e, "limit expression", doc)
	for round := 0; round < 4; round++ {
		for _, over := range []int{lo + 1, lo + 2, lo + 500, 2 * lo} {
			c.LibSearch(mk(over), doc)
			if e2, l2 := c.LibCompile(mk(over)); l2.Err == nil && l2.Panic == nil {
				c.LibExprSearch(e2, "over the limit", doc)
			}
		}
		again := c.LibExprSearch(e, "limit expression", doc)
		fresh := c.LibSearch(text, doc)
		for which, l := range []LibOut{again, fresh} {
			if !SameOutcome(first, l, false) {
				c.Report(Violation{Rule: "C06/differs-from-fresh-search", Expr: clipS(text, 120), Got: ShowOut(l), Want: ShowOut(first), Detail: fmt.Sprintf("an expression of %d levels (the largest that succeeds) no longer gives the same outcome after %d rounds of calls that failed on the depth limit (%s)", lo, round+1, []string{"compiled before the failures", "one-shot"}[which]), Features: map[string]string{"stream": "limits"}})
				return
			}
		}
		if ok(lo + 1) {
			c.Report(Violation{Rule: "C06/differs-from-fresh-search", Expr: clipS(mk(lo+1), 120), Got: "succeeds now", Want: "fails on the depth limit, as it did before", Features: map[string]string{"stream": "limits"}})
			return
		}
	}
	// an over-the-limit chain in an operand that this document never reaches (the other operand decides,
	// an earlier argument fails, the projected array is missing): whether the limit is hit is a
	// property of the evaluation, so every entry point must agree with the one-shot Search
	for _, n := range []int{lo + 100, lo - 200} {
		ch := mk(n)
		for _, text := range []string{"'first' || (" + ch + ")", "`false` && (" + ch + ")", "not_null('x', " + ch + ")", "none[*].[" + ch + "]", "abs('t') + (" + ch + ")", "none[?" + ch + "]", "[`1`, " + ch + "][0]", "`[]`[*].[" + ch + "]", "(" + ch + ") || 'last'", "{k: 'v', j: " + ch + "}.k"} {
			c06EntryPoints(c, text)
		}
	}
	c.Nontrivial("limit", fmt.Sprint(idx%8), fmt.Sprint(lo))
	c.Count(fmt.Sprintf("limit_shape_%d_levels", idx%8), int64(lo))
}

func init() {
	Register(&Property{
		ID:            "C06",
		Rule:          "histories of 3-8 Expression.Search calls of one compiled expression over 2-4 documents with repeats (d1 dx d1 dy ...); expressions biased to functions and selectors that build or reorder containers (sort, sort_by, reverse, merge, group_by, from_items, to_array, [*], slices, flatten, multi-select, filters, literals returned by reference and then sorted/reversed/merged); plus a directed list (every ordering/reversing/merging function x every way of passing an array of the document or a literal without a copy: x, x[*], x[:], x[], x[?`true`], to_array(x), (x), x | @, ...); every slice of every document carries 1-3 spare capacity slots filled with canaries; per call: outcome = fresh one-shot Search of the same text on a deep copy, deep snapshot of every document unchanged (dynamic types, values, lengths, capacity tails, container identities), AST fingerprint of the compiled expression unchanged (hook), every earlier result still equal to the snapshot taken when it was returned; edited-in-place stream: the caller edits its document in place between calls (leaf replaced, elements/values swapped, member added or removed; container identities kept) and both Expression.Search and one-shot Search on those same containers must equal a fresh Search on a deep copy of the current content; limits stream: for 8 nesting/chain shapes the largest expression that succeeds is found by bisection, then calls that fail on the documented depth limit are made, after which that expression (compiled before, compiled afresh, one-shot) must still give the same outcome; foreign-containers stream: documents whose plain containers hold typed slices/maps, arrays, structs and pointers keep the same dynamic type and value at every position after every call; MustCompile panics exactly when Compile fails (corpus expressions, mutants, and members/non-members of 1 KB .. 1 MiB, for which Search, Compile+Search and MustCompile+Search must give one outcome); non-trivial = a history that returned a non-empty container; distinct by (expression, first document); the limits stream also places chains just over and just under the limit in 10 operand positions that the document never reaches and requires Search, Compile+Search and MustCompile+Search to agree; the directed list also hands arrays to element-wise consumers (map with non-identity bodies, zip, join, multi-select projections), covers arrays of 700 and 1300 numbers with and without a late offender, and hands objects (empty and not) to merge through 15 wraps",
		MinNontrivial: 1000,
		Streams: []Stream{
			{Name: "histories", N: func(c *Ctx) int { return tierN(c, 8000, 2000000) }, Run: c06History},
			{Name: "directed", N: func(c *Ctx) int { return len(c07Directed()) }, Run: c06Directed, Exhaustive: true},
			{Name: "edited-in-place", N: func(c *Ctx) int { return tierN(c, 5000, 1000000) }, Run: c06Edited},
			{Name: "limits", N: func(c *Ctx) int { return 8 }, Run: c06Limits, Exhaustive: true},
			{Name: "foreign-containers", N: func(c *Ctx) int { return tierN(c, 3000, 150000) }, Run: c06Foreign},
			{Name: "mustcompile", N: func(c *Ctx) int { return tierN(c, 10000, 100000) }, Run: c06Must},
		},
	})
}
