package mon

import (
	"strings"

	"verif/harness/gen"
	"verif/harness/ref"
)

// CheckOpts tunes CheckModel.
type CheckOpts struct {
	// Compiled: also run Compile + Expression.Search and require the same outcome.
	Compiled bool
	// Features attached to violations.
	Features map[string]string
	// NoPanicReport: leave panics to C03 (still a mismatch, reported under rule "/panic").
}

// IsNontrivialOutcome: the model decided, and the outcome is a non-null,
// non-empty value or an expected error.
func IsNontrivialOutcome(m ref.Outcome) bool {
	if m.Unspec {
		return false
	}
	if m.Fault != 0 {
		return true
	}
	switch v := m.Val.(type) {
	case nil:
		return false
	case *ref.Arr:
		return len(v.E) > 0
	case *ref.Obj:
		return len(v.Keys) > 0
	}
	return true
}

// CheckModel runs text on doc through the library (Search, and optionally
// Compile+Search), compares with the model and reports disagreements under
// rule prefix+"/model".  It returns the model outcome and the Search outcome.
func (c *Ctx) CheckModel(prefix, text string, doc ref.V, goDoc any, opts CheckOpts) (ref.Outcome, LibOut) {
	m := ref.Search(text, doc)
	if m.Unspec {
		c.Count("abstained", 1)
		if strings.Contains(m.Why, "width beyond the model's bound") {
			// a huge pad width legitimately drives the result size (see the
			// known finding on pad widths in C03); do not execute it here
			c.Count("skipped_huge_pad", 1)
			return m, LibOut{}
		}
	}
	l := c.LibSearch(text, goDoc)
	judged, ok, why := Agree(m, l)
	if judged && !ok {
		rule := prefix + "/model"
		if l.Panic != nil {
			rule = prefix + "/panic"
		}
		c.Report(Violation{Rule: rule, Expr: text, Data: gen.Describe(goDoc), Got: ShowOut(l), Want: m.String(), Detail: why, Features: opts.Features})
	}
	if opts.Compiled {
		e, lc := c.LibCompile(text)
		var l2 LibOut
		if lc.Err != nil || lc.Panic != nil {
			l2 = lc
			l2.Res = nil
		} else {
			l2 = c.LibExprSearch(e, text, goDoc)
		}
		differs := false
		if !m.Unspec {
			_, ok2, _ := Agree(m, l2)
			differs = ok != ok2
		} else if !Enumerates(text) {
			// (results of enumerating expressions may legitimately vary between calls)
			differs = !SameOutcome(l, l2, false)
			if l.Err != nil && l2.Err != nil {
				// the model does not judge the text: several faults may be present,
				// and which one is reported may vary between calls
				differs = false
			}
		}
		if differs {
			c.Report(Violation{Rule: prefix + "/compiled-differs", Expr: text, Data: gen.Describe(goDoc), Got: ShowOut(l2), Want: ShowOut(l), Detail: "Compile+Expression.Search differs from Search", Features: opts.Features})
		}
	}
	return m, l
}
