package mon

import (
	"encoding/json"
	"fmt"
	"strings"

	"verif/harness/ref"
)

// number-conversions: strings that look like numbers, more or less, go through every builtin that
// turns text into a number. Whatever comes back - a number or null - is a plain JSON value: it passes
// the domain walk (a json.Number must spell a JSON number), serialises, and is re-queried like the
// piped form. The texts: every string of up to 4 (thorough 5) symbols over `0 1 9 - + . e E space`,
// and a panel of near-numbers (leading zeros of every length, hexadecimal, digit separators, words,
// digits of other scripts, white space around).
const c18NumAlphabet = "019-+.eE "

func c18NumMaxLen(c *Ctx) int { return tierN(c, 4, 5) }

func c18NumPanel() []string {
	p := []string{"", "0x1F", "0X1f", "1_000", "1,000", "Infinity", "-Infinity", "+Inf", "inf", "NaN", "nan", "１２", "٣", "१२", "1 ", " 1", "\u00a01", "1\u00a0", "\t1", "1\n", "\n1\n", "0b11", "0o17", "017", "1e", "1e+", "1E-", "-", "+", ".", "-.", "e1", "E1", "1.e1", "1.0e", ".5e1", "5.", "-5.", "-.5",
		"1e1.5", "1e+1", "1E+01", "1e-01", "1e0001", "-0", "-0.0", "-0e0", "0e0", "0.0", "0.", "-00", "1f", "1d", "1L", "1.5f", "0x1p3", "1e5_0", "١٢٣", "1\x00", "\x001", "1\ufeff", "\ufeff1", "true", "null", "\"1\"", "[1]", "1 2", "1,2", "--1", "+-1", "-+1", "1--", "1e--1", "1ee1", "1.2.3", "1..2",
		"9223372036854775808", "-9223372036854775809", "18446744073709551616", "1e400", "-1e400", "1e-400", "1e6145", "1e-6177", strings.Repeat("9", 34)}
	for _, n := range []int{1, 2, 3, 5, 17, 18, 19, 20, 33, 34, 35, 40, 100} {
		z := strings.Repeat("0", n)
		p = append(p, z, z+"7", "-"+z+"7", z+"7.5", z+".5", "7."+z, "7"+z, z+"e1", "7e"+z, "7e"+z+"1", "7e-"+z+"1", "0."+z+"7", strings.Repeat("9", n), "-"+strings.Repeat("9", n), strings.Repeat("1", n)+".5")
	}
	return p
}

func c18NumTexts(c *Ctx) int {
	n, k := 0, 1
	for l := 1; l <= c18NumMaxLen(c); l++ {
		k *= len(c18NumAlphabet)
		n += k
	}
	return n
}

func c18NumN(c *Ctx) int { return c18NumTexts(c) + len(c18NumPanel()) }

func c18NumText(c *Ctx, idx int) string {
	if idx >= c18NumTexts(c) {
		return c18NumPanel()[idx-c18NumTexts(c)]
	}
	k := len(c18NumAlphabet)
	block := k
	l := 1
	for idx >= block {
		idx -= block
		block *= k
		l++
	}
	b := make([]byte, l)
	for i := l - 1; i >= 0; i-- {
		b[i] = c18NumAlphabet[idx%k]
		idx /= k
	}
	return string(b)
}

var c18NumE1 = []string{"to_number(@)", "[to_number(@)]", "{n: to_number(@)}", "to_number(@) || `0`", "[@, @][*].to_number(@)", "to_number(to_number(@))", "not_null(to_number(@), 'none')", "to_number(join('', [@, '0']))", "to_number(join('', ['0', @]))", "map(&to_number(@), [@, '1', @])"}
var c18NumE2 = []string{"type(@)", "to_string(@)", "[@] | [0]", "@ == @", "[@, `0`] | [0]", "to_array(@) | length(@)", "not_null(@, 'null')", "to_array(@)[?type(@) == 'number'] | length(@)", "to_array(@)[0] | type(@)", "to_string(to_array(@)[0])"}

func c18Num(c *Ctx, idx int) {
	s := c18NumText(c, idx)
	var doc any = s
	for _, e1 := range c18NumE1 {
		l1 := c.LibSearch(e1, doc)
		if l1.Panic != nil {
			c.Report(Violation{Rule: "C18/panic", Expr: e1, Data: fmt.Sprintf("%q", s), Got: ShowOut(l1), Features: map[string]string{"stream": "number-conversions"}})
			continue
		}
		if l1.Err != nil {
			continue
		}
		if msg := domainCheck(l1.Res, "$"); msg != "" {
			c.Report(Violation{Rule: "C18/domain", Expr: e1, Data: fmt.Sprintf("%q", s), Got: msg, Want: "a plain JSON value", Features: map[string]string{"stream": "number-conversions"}})
			continue
		}
		js, err := json.Marshal(l1.Res)
		if err != nil {
			c.Report(Violation{Rule: "C18/not-serialisable", Expr: e1, Data: fmt.Sprintf("%q", s), Got: err.Error(), Want: "a result encoding/json accepts", Features: map[string]string{"stream": "number-conversions"}})
			continue
		}
		if judged, ok, why := Agree(ref.Search(e1, ref.V(s)), l1); judged && !ok {
			c.Report(Violation{Rule: "C18/model", Expr: e1, Data: fmt.Sprintf("%q", s), Got: clipS(string(js), 200), Want: why, Features: map[string]string{"stream": "number-conversions"}})
			continue
		}
		nonnull := string(js) != "null" && string(js) != "[null]" && string(js) != `{"n":null}`
		for _, e2 := range c18NumE2 {
			want := c.LibSearch("("+e1+") | "+e2, doc)
			got := c.LibSearch(e2, l1.Res)
			if !SameOutcome(want, got, false) {
				c.Report(Violation{Rule: "C18/requery", Expr: "(" + e1 + ") | " + e2, Data: fmt.Sprintf("%q", s), Got: ShowOut(got) + "  (Search(" + e2 + ", r1))", Want: ShowOut(want), Features: map[string]string{"stream": "number-conversions"}})
			}
		}
		if nonnull {
			c.Nontrivial("num", e1, s)
		}
	}
}

// c02NumTexts (C02 stream number-texts): the same texts, as argument of to_number in three routes
// (document, raw string literal, JSON literal) and of the builtins that must refuse a string where a
// number is expected however number-like it looks; against the model.
func c02NumTexts(c *Ctx, idx int) {
	s := c18NumText(c, idx)
	feat := map[string]string{"stream": "number-texts"}
	for _, e := range []string{"to_number(@)", "[to_number(@), type(to_number(@))]", "abs(@)", "sum([@])", "@ + `0`", "to_number(@) == to_number(@)", "to_number(to_string(to_number(@)))"} {
		m, _ := c.CheckModel("C02", e, ref.V(s), any(s), CheckOpts{Features: feat})
		if IsNontrivialOutcome(m) {
			c.Nontrivial("numtext", e, s)
		}
	}
	if !strings.ContainsAny(s, "'\\`\x00") {
		js, _ := json.Marshal(s)
		lit := strings.ReplaceAll(string(js), "`", "\\`")
		for _, e := range []string{"to_number('" + s + "')", "to_number(`" + lit + "`)"} {
			c.CheckModel("C02", e, nil, nil, CheckOpts{Features: feat, Compiled: idx%16 == 0})
		}
	}
}
