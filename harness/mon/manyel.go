package mon

import (
	"fmt"
	"strings"

	"verif/harness/ref"
)

// Many elements, one small piece of work each.  Counters that an evaluation keeps (nesting depth,
// work done, scratch space handed out) must return to where they were after every element, whichever
// way the element's evaluation ended: a selector chain that stops early on a missing member, a
// per-element builtin that returns from one of several exits, a let that is left through an error of
// a sibling.  A leak of one unit per element is invisible until some 10^4..10^5 elements have gone by,
// and then shows as a spurious limit error.  70000 elements (thorough: 150000), two thirds of which
// take the short way; every per-element construct; answers checked against the model.
func manyN(c *Ctx) int {
	if c.Tier == "thorough" {
		return 150000
	}
	return 70000
}

var manyDocs = map[int]ref.V{}

func manyDoc(n int) ref.V {
	if d, ok := manyDocs[n]; ok {
		return d
	}
	var b strings.Builder
	b.WriteString(`{"items":[`)
	for i := 0; i < n; i++ {
		if i > 0 {
			b.WriteByte(',')
		}
		switch i % 3 {
		case 0:
			fmt.Fprintf(&b, `{"id":%d,"meta":{"owner":{"name":"n%d","tags":["t"]}}}`, i, i%7)
		case 1:
			fmt.Fprintf(&b, `{"id":%d,"meta":{}}`, i)
		default:
			fmt.Fprintf(&b, `{"id":%d}`, i)
		}
	}
	b.WriteString(`],"groups":[`)
	for i := 0; i < n; i++ {
		if i > 0 {
			b.WriteByte(',')
		}
		fmt.Fprintf(&b, `[{"name":"b%d","n":%d},{"name":"a%d","n":%d}]`, i%5, i%11, i%3, i%4)
	}
	b.WriteString(`]}`)
	d, err := ref.FromJSON(b.String())
	if err != nil {
		panic(err)
	}
	manyDocs[n] = d
	return d
}

var manyForms = []string{
	"length(items[*].meta.owner.name)", "length(items[].meta.owner.name)", "length(items[?id >= `0`].meta.owner.name)", "length(items[0:].meta.owner.name)", "length(items[?meta.owner.name != `null`])",
	"length(items[*].meta.owner.name.first.x)", "length(items[*].a.b.c.d.e)", "length(map(&meta.owner.name, items))", "length(items[*].[meta.owner.name][0])", "items[*].meta.owner.name | [-1]",
	"length(items[*].meta.owner.tags[0])", "length(items[*].meta.owner.tags[])", "length(items[?meta.owner.tags[?@ == 't']])", "length(items[*].[meta || id][0])", "length(items[*].not_null(meta.owner.name, meta.x, id))",
	"length(items[*].[let $x = meta.owner.name in $x][0])", "length(items[*].{a: meta.owner.name}.a)", "length(items[?meta.owner.name && id > `10`])", "length(items[*].meta | [*].owner | [*].name)", "length(items[*].meta.*.name[])",
	"length(map(&min_by(@, &name).name, groups))", "length(map(&max_by(@, &name).name, groups))", "length(map(&sort_by(@, &name)[0].name, groups))", "length(map(&min_by(@, &n).n, groups))", "length(map(&max_by(@, &n).n, groups))",
	"length(map(&sort_by(@, &n)[0].n, groups))", "length(groups[*].min_by(@, &name).name)", "length(map(&keys(group_by(@, &name)), groups))", "length(map(&sort(@[*].name)[0], groups))", "length(map(&max(@[*].n), groups))",
	"length(map(&reverse(@)[0].name, groups))", "length(map(&join(',', @[*].name), groups))", "length(map(&length(@[?n > `2`]), groups))", "length(map(&contains(@[*].n, `3`), groups))", "length(map(&merge(@[0], @[1]).name, groups))",
	"length(groups[*][0].name)", "length(groups[*][?n > `5`][])", "length(map(&to_string(@[0].n), groups))", "length(map(&(@[0].n + @[1].n), groups))", "length(map(&(@[0].n // `0` || `1`), groups[:10]))",
	"map(&min_by(@, &name).name, groups) | [-1]", "map(&[min_by(@, &name)], groups) | map(&min_by(@, &name).name, @) | [-1]", "length(map(&zip(@, @), groups))", "length(map(&from_items(@[*].[name, n]), groups))", "sum(map(&length(@), groups))",
}

func manyRun(prop string) func(c *Ctx, idx int) {
	return func(c *Ctx, idx int) {
		n := manyN(c)
		doc := manyDoc(n)
		text := manyForms[idx]
		m, _ := c.CheckModel(prop, text, doc, ref.ToGo(doc, ref.JSONNumber), CheckOpts{Compiled: idx%3 == 0, Features: map[string]string{"stream": "many-elements", "elements": fmt.Sprint(n)}})
		if !m.Unspec {
			c.Nontrivial(text)
			c.Sample(map[string]any{"expr": text, "elements": n, "model": clipS(m.String(), 60)})
		}
	}
}

// manyRequery (C18): the stages of a pipe over many elements, in one search and in two.
func manyRequery(c *Ctx, idx int) {
	n := manyN(c)
	doc := manyDoc(n)
	pairs := [][2]string{
		{"map(&[min_by(@, &name)], groups)", "map(&min_by(@, &name).name, @)"}, {"map(&[max_by(@, &n)], groups)", "map(&max_by(@, &n).n, @) | [-1]"}, {"items[*].{m: meta}", "[*].m.owner.name | length(@)"},
		{"{items: items}", "length(items[*].meta.owner.name)"}, {"map(&sort_by(@, &name), groups)", "map(&sort_by(@, &n)[0].n, @) | sum(@)"}, {"items[?meta.owner]", "[*].meta.owner.tags[0] | length(@)"},
	}
	p := pairs[idx]
	goDoc := ref.ToGo(doc, ref.JSONNumber)
	l1 := c.LibSearch(p[0], goDoc)
	piped := "(" + p[0] + ") | (" + p[1] + ")"
	one := c.LibSearch(piped, ref.ToGo(doc, ref.JSONNumber))
	var two LibOut
	if l1.Err == nil && l1.Panic == nil {
		two = c.LibSearch(p[1], l1.Res)
	} else {
		two = l1
	}
	if m := ref.Search(piped, doc); !m.Unspec {
		if judged, ok, why := Agree(m, one); judged && !ok {
			c.Report(Violation{Rule: "C18/requery", Expr: piped, Data: fmt.Sprintf("%d items / groups", n), Got: clipS(ShowOut(one), 200), Want: clipS(m.String(), 200), Detail: why, Features: map[string]string{"stream": "many-elements"}})
		}
	}
	if !SameOutcome(one, two, false) {
		c.Report(Violation{Rule: "C18/requery", Expr: piped, Data: fmt.Sprintf("%d items / groups", n), Got: clipS(ShowOut(two), 200) + "  (two searches)", Want: clipS(ShowOut(one), 200) + "  (one search)", Features: map[string]string{"stream": "many-elements"}})
	}
	c.Nontrivial(piped)
}

// manyIdentity (C17): selectors inside a projection against the same selectors after a pipe or
// parentheses, over many elements most of which lack the selected members.
func manyIdentity(c *Ctx, idx int) {
	n := manyN(c)
	doc := manyDoc(n)
	pairs := [][2]string{
		{"items[*].meta.owner.name", "items[*].meta | [*].owner | [*].name"}, {"items[*].meta.owner.name", "(items[*].meta.owner)[*].name"}, {"items[?id >= `0`].meta.owner.name", "items[?id >= `0`] | [*].meta.owner.name"},
		{"items[].meta.owner.tags[0]", "items[] | [*].meta.owner.tags | [*][0]"}, {"items[1:].meta.owner.name", "items[1:] | [*].meta | [*].owner.name"}, {"items[*].a.b.c", "items[*].a | [*].b.c"},
		{"{k: items[*].meta.owner.name}.k", "items[*].meta.owner.name"}, {"groups[*][0].name", "groups[*] | [*][0] | [*].name"}, {"length(items[*].meta.owner.name)", "length(items[*].meta.owner | [*].name)"},
	}
	p := pairs[idx]
	l := c.LibSearch(p[0], ref.ToGo(doc, ref.JSONNumber))
	r := c.LibSearch(p[1], ref.ToGo(doc, ref.JSONNumber))
	if !SameOutcome(l, r, false) {
		c.Report(Violation{Rule: "C17/identity", Expr: p[0], Data: fmt.Sprintf("%d items / groups, two thirds of them without the selected members", n), Got: clipS(ShowOut(l), 200), Want: clipS(ShowOut(r), 200) + "  (= " + p[1] + ")", Features: map[string]string{"stream": "many-elements", "schema": "selectors-inside-vs-after-projection"}})
	}
	c.Nontrivial(p[0], p[1])
}
