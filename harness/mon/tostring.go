package mon

import (
	"encoding/json"
	"fmt"
	"reflect"
	"strings"

	"verif/harness/ref"
)

// to_string of a non-string value is its JSON text: whatever spelling the implementation prefers
// (escaped or raw '<', ' ', '/'), the text must be valid JSON that decodes to the value.  The
// strings are every sequence of up to three pieces from an alphabet of the characters a JSON writer
// treats specially and of the fragments its escapes are made of (a backslash followed by "u003c" is
// six ordinary characters, not an escape).  Direct oracle: encoding/json decodes the result.
var tsPieces = []string{"\\", "u003c", "u003e", "u0026", "u2028", "u0000", "<", ">", "&", "\"", "/", "n", "\n", " ", " ", "\x00", "\x1f", "\x7f", "é", "\\u00e9", "'", "`", "u", "\\\\", "�", "\U0001F600"}

func tsN(c *Ctx) int {
	k := len(tsPieces)
	if c.Tier == "thorough" {
		return k + k*k + k*k*k
	}
	return k + k*k
}

func tsRun(c *Ctx, idx int) {
	k := len(tsPieces)
	var s string
	switch {
	case idx < k:
		s = tsPieces[idx]
	case idx < k+k*k:
		i := idx - k
		s = tsPieces[i%k] + tsPieces[i/k]
	default:
		i := idx - k - k*k
		s = tsPieces[i%k] + tsPieces[i/k%k] + tsPieces[i/k/k]
	}
	vals := []struct {
		expr string
		data any
		want any
	}{
		{"to_string([s])", map[string]any{"s": s}, []any{s}},
		{"to_string({k: s})", map[string]any{"s": s}, map[string]any{"k": s}},
		{"to_string(@)", map[string]any{s: []any{s, "x"}}, map[string]any{s: []any{s, "x"}}},
		{"to_string([" + ref.RawString(s) + "])", nil, []any{s}},
		{"to_string(to_array(to_string([s])))", map[string]any{"s": s}, nil},
		{"to_string([to_string(s), s])", map[string]any{"s": s}, []any{s, s}},
	}
	for _, v := range vals {
		l := c.LibSearch(v.expr, v.data)
		if l.Panic != nil || l.Err != nil {
			c.Report(Violation{Rule: "C02/to_string-not-json", Expr: v.expr, Data: fmt.Sprintf("s = %q", s), Got: ShowOut(l), Want: "a JSON text"})
			continue
		}
		out, ok := l.Res.(string)
		var dec any
		err := fmt.Errorf("not a string")
		if ok {
			d := json.NewDecoder(strings.NewReader(out))
			err = d.Decode(&dec)
			if err == nil && d.More() {
				err = fmt.Errorf("trailing data")
			}
		}
		want := v.want
		if want == nil && err == nil {
			// nested to_string: the inner text, as a one-element array of strings, must itself decode to [s]
			if a, isArr := dec.([]any); isArr && len(a) == 1 {
				if inner, isStr := a[0].(string); isStr {
					var innerDec any
					if json.Unmarshal([]byte(inner), &innerDec) == nil && reflect.DeepEqual(innerDec, []any{s}) {
						c.Nontrivial(v.expr, s)
						continue
					}
				}
			}
			err = fmt.Errorf("inner text does not decode to [s]")
		}
		if err != nil || (want != nil && !reflect.DeepEqual(dec, want)) {
			c.Report(Violation{Rule: "C02/to_string-not-json", Expr: v.expr, Data: fmt.Sprintf("s = %q", s), Got: fmt.Sprintf("%q (decoding: %v, value %q)", out, err, fmt.Sprint(dec)), Want: fmt.Sprintf("a JSON text that decodes to %q", fmt.Sprint(want)), Features: map[string]string{"stream": "to_string-roundtrip"}})
		}
		c.Nontrivial(v.expr, s)
	}
}
