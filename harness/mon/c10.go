package mon

import (
	"encoding/json"
	"fmt"
	"strings"

	"github.com/woodsbury/jmespath"

	"verif/harness/gen"
	"verif/harness/ref"
)

var c10Ops = []string{"|", "||", "&&", "==", "!=", "<", "<=", ">", ">=", "+", "-", "−", "*", "×", "/", "÷", "//", "%"}

func c10Mk(op string, l, r *ref.Node) *ref.Node {
	switch op {
	case "|":
		return &ref.Node{Kind: ref.NPipe, Kids: []*ref.Node{l, r}}
	case "||":
		return &ref.Node{Kind: ref.NOr, Kids: []*ref.Node{l, r}}
	case "&&":
		return &ref.Node{Kind: ref.NAnd, Kids: []*ref.Node{l, r}}
	case "==", "!=", "<", "<=", ">", ">=":
		return &ref.Node{Kind: ref.NCmp, Op: op, Kids: []*ref.Node{l, r}}
	}
	o := op
	switch op {
	case "−":
		o = "-"
	case "×":
		o = "*"
	case "÷":
		o = "/"
	}
	return &ref.Node{Kind: ref.NArith, Op: o, Kids: []*ref.Node{l, r}}
}

// all binary trees over operands es with operators ops (in order)
func c10Trees(es []*ref.Node, ops []string) []*ref.Node {
	if len(es) == 1 {
		return []*ref.Node{es[0]}
	}
	var out []*ref.Node
	for i := range ops {
		for _, l := range c10Trees(es[:i+1], ops[:i]) {
			for _, r := range c10Trees(es[i+1:], ops[i+1:]) {
				out = append(out, c10Mk(ops[i], l, r))
			}
		}
	}
	return out
}

// operand texts; the document nests so that pipes change what they mean
var c10Operands = []string{"a", "b", "c", "n", "x", "x.n", "@.a", "a[0]", "xs[0]", "`1`", "`2`", "`0`", "`3`", "`true`", "`false`", "`null`", "'s'", "length(xs)", "(a)", "(n)", "abs(b)", "xs[*]", "ys[*]", "{n: n}.n", "[a][0]", "xs[]", "ys[]", "a[]", "xs[?@]", "x.xs[]", "xs[1:]", "*", "x.*", "x.[n]", "x.{n: n}", "x.[*]", "x.[n][0]", "x.{n: n}.n", "@.[a]", "x.[n, n]"}

var c10Vals = []string{"0", "1", "2", "3", "5", "-1", "-2", "0.5", "7", "10", "true", "false", "null", `"s"`, "[]", "[1]", "[2,3]", `{"n":4}`}

func c10Doc(r *gen.R, depth int) *ref.Obj {
	o := ref.NewObj()
	for _, k := range []string{"a", "b", "c", "n"} {
		t := gen.Pick(r, c10Vals)
		if r.Chance(65) {
			t = gen.Pick(r, c10Vals[:10])
		}
		v, _ := ref.FromJSON(t)
		o.Set(k, v)
	}
	mk := func() ref.V {
		a := &ref.Arr{}
		for i := 0; i < r.Intn(3); i++ {
			a.E = append(a.E, gen.IntV(int64(r.Intn(5))))
		}
		return a
	}
	o.Set("xs", mk())
	o.Set("ys", mk())
	if depth > 0 {
		o.Set("x", c10Doc(r, depth-1))
	}
	return o
}

func outcomeKey(v ref.V, f *ref.Fault) (string, bool) {
	if f != nil {
		if f.Cats&ref.CatUnspec != 0 {
			return "", false
		}
		return "error:" + f.Cats.String(), true
	}
	if !numbersExactV(v) {
		return "", false
	}
	return ref.Show(v), true
}

func numbersExactV(v ref.V) bool {
	switch x := v.(type) {
	case ref.Num:
		return x.Ulp == nil
	case *ref.Arr:
		for _, e := range x.E {
			if !numbersExactV(e) {
				return false
			}
		}
	case *ref.Obj:
		for _, k := range x.Keys {
			if !numbersExactV(x.M[k]) {
				return false
			}
		}
	}
	return true
}

// c10Chain checks one operator chain; returns the number of distinguishing
// instances found.
// astGrouping: the compiled form of a chain must be the very tree of the chain
// with its implied parentheses written out (parentheses leave no node behind),
// observed through the fingerprint hook: decides groupings that no document
// can distinguish (a + b - c).
func (c *Ctx) astGrouping(T, spec string, feats map[string]string) {
	e1, l1 := c.LibCompile(T)
	e2, l2 := c.LibCompile(spec)
	if l1.Err != nil || l2.Err != nil || l1.Panic != nil || l2.Panic != nil {
		if (l1.Err != nil) != (l2.Err != nil) {
			c.Report(Violation{Rule: "C10/ast-grouping", Expr: T, Got: ShowOut(l1), Want: ShowOut(l2) + " (compiling " + spec + ")", Features: feats})
		}
		return
	}
	f1, _ := jmespath.VerifASTFingerprint(e1)
	f2, _ := jmespath.VerifASTFingerprint(e2)
	c.Count("ast_groupings_compared", 1)
	if f1 != f2 {
		c.Report(Violation{Rule: "C10/ast-grouping", Expr: T, Got: "compiled tree differs from the tree of " + spec, Want: "identical trees (same grouping)", Features: feats})
	}
}

func (c *Ctx) c10Chain(r *gen.R, ops []string, unary bool) int {
	found := 0
	// structural check first, on plain field operands (needs no document)
	{
		names := []string{"a", "b", "c", "d"}
		var b strings.Builder
		for i := 0; i <= len(ops); i++ {
			if i > 0 {
				b.WriteString(" " + ops[i-1] + " ")
			}
			if unary && i%2 == 0 {
				b.WriteString(gen.Pick(r, []string{"!", "-", "+", "−"}))
			}
			b.WriteString(names[i])
		}
		T := b.String()
		if pr := ref.Parse(T); pr.Status == ref.ParseOK {
			c.astGrouping(T, ref.FullParen(pr.Node), map[string]string{"operators": strings.Join(ops, " ")})
			c.Nontrivial("ast", T)
		}
	}
	for attempt := 0; attempt < 400 && found < 3; attempt++ {
		texts := make([]string, len(ops)+1)
		for i := range texts {
			t := gen.Pick(r, c10Operands)
			if attempt < 200 && r.Chance(60) {
				t = gen.Pick(r, c10Operands[:9])
			}
			if unary && r.Chance(45) {
				t = gen.Pick(r, []string{"!", "-", "+", "−", "- ", "!!"}) + t
			}
			texts[i] = t
		}
		var b strings.Builder
		for i, t := range texts {
			if i > 0 {
				b.WriteString(" " + ops[i-1] + " ")
			}
			b.WriteString(t)
		}
		T := b.String()
		pr := ref.Parse(T)
		if pr.Status != ref.ParseOK {
			continue
		}
		doc := c10Doc(r, 2)
		specV, specF := ref.EvalNode(pr.Node, doc, doc, nil)
		specKey, ok := outcomeKey(specV, specF)
		if !ok || specF != nil {
			continue
		}
		// alternatives: every other tree shape over the same operands
		operands := make([]*ref.Node, len(texts))
		good := true
		for i, t := range texts {
			p := ref.Parse(t)
			if p.Status != ref.ParseOK {
				good = false
				break
			}
			n := *p.Node
			n.Paren = true
			operands[i] = &n
		}
		if !good {
			continue
		}
		specShape := ref.FullParen(pr.Node)
		distinguishing := true
		nAlt := 0
		for _, tr := range c10Trees(operands, ops) {
			v, f := ref.EvalNode(tr, doc, doc, nil)
			k, ok := outcomeKey(v, f)
			if !ok {
				distinguishing = false
				break
			}
			if k == specKey {
				// same outcome: fine only if it is the same grouping
				if shapeOf(tr) != shapeOfParsed(pr.Node, len(ops)) {
					distinguishing = false
					break
				}
			} else {
				nAlt++
			}
		}
		if !distinguishing || nAlt == 0 {
			continue
		}
		found++
		goDoc := ref.ToGo(doc, ref.JSONNumber)
		feats := map[string]string{"operators": strings.Join(ops, " ")}
		m, l := c.CheckModel("C10", T, doc, goDoc, CheckOpts{Features: feats})
		l2 := c.LibSearch(specShape, goDoc)
		if !SameOutcome(l, l2, Enumerates(T)) {
			c.Report(Violation{Rule: "C10/implied-parentheses", Expr: T, Data: ref.ToJSONText(doc), Got: ShowOut(l), Want: ShowOut(l2) + " (result of " + specShape + ")", Features: feats})
		}
		// parentheses override: each alternative grouping, written explicitly, must match the model
		for _, tr := range c10Trees(operands, ops) {
			alt := ref.Print(tr)
			c.CheckModel("C10", alt, doc, goDoc, CheckOpts{Features: feats})
		}
		if !m.Unspec {
			c.Nontrivial(T, ref.ToJSONText(doc))
			c.Sample(map[string]any{"chain": T, "implied": specShape, "doc": ref.ToJSONText(doc), "value": specKey})
		}
	}
	return found
}

// shape signatures: the nesting structure only
func shapeOf(n *ref.Node) string {
	switch n.Kind {
	case ref.NPipe, ref.NOr, ref.NAnd, ref.NCmp, ref.NArith:
		if !n.Paren {
			return "(" + shapeOf(n.Kids[0]) + shapeOf(n.Kids[1]) + ")"
		}
	}
	return "x"
}

func shapeOfParsed(n *ref.Node, nops int) string { return shapeOf(n) }

func c10Pairs(c *Ctx, idx int) {
	n := len(c10Ops)
	ops := []string{c10Ops[idx/n%n], c10Ops[idx%n]}
	unary := idx >= n*n
	r := c.Rand("")
	got := c.c10Chain(r, ops, unary)
	c.Count(fmt.Sprintf("pairs_with_%d_distinguishing_instances", got), 1)
}

func c10Triples(c *Ctx, idx int) {
	n := len(c10Ops)
	if c.Tier != "thorough" {
		// a seeded third of the triples
		r := c.Rand("pick")
		idx = r.Intn(n * n * n * 2)
	}
	unary := idx >= n*n*n
	idx %= n * n * n
	ops := []string{c10Ops[idx/(n*n)], c10Ops[idx/n%n], c10Ops[idx%n]}
	r := c.Rand("")
	got := c.c10Chain(r, ops, unary)
	c.Count(fmt.Sprintf("triples_with_%d_distinguishing_instances", got), 1)
}

// tighter-than-binary: selectors and unary operators against every binary operator
func c10Tight(c *Ctx, idx int) {
	r := c.Rand("")
	op := c10Ops[idx%len(c10Ops)]
	forms := []string{"xs[] %s b", "a %s xs[]", "xs[] %s ys[] %s c", "a %s xs[] %s c", "xs[?@] %s b", "xs[*] %s b %s c", "x.* %s a", "!a %s b", "a %s !b", "-a %s b", "a %s -b", "+a %s b", "a %s −b", "a.n %s b", "a %s x.n", "xs[0] %s b", "a %s xs[1]", "a %s xs[*]", "xs[*] %s ys[*]", "!x.n %s b", "-x.n %s b", "a %s abs(b)", "!a[0] %s b", "!xs %s b", "a %s {n: n}.n", "a %s [b][0]", "a %s (b)", "(a %s b)", "[a %s b][0]", "{k: a %s b}.k", "xs[?@ %s `1`]", "not_null(a %s b)", "let $v = a %s b in $v"}
	for k := 0; k < 4; k++ {
		doc := c10Doc(r, 2)
		goDoc := ref.ToGo(doc, ref.JSONNumber)
		for _, f := range forms {
			T := fmt.Sprintf(f, op)
			pr := ref.Parse(T)
			if pr.Status != ref.ParseOK {
				continue
			}
			m, l := c.CheckModel("C10", T, doc, goDoc, CheckOpts{Features: map[string]string{"operators": op}})
			spec := ref.FullParen(pr.Node)
			l2 := c.LibSearch(spec, goDoc)
			if Enumerates(T) && m.Unspec {
				continue
			}
			if l.Panic == nil && !SameOutcome(l, l2, Enumerates(T)) {
				c.Report(Violation{Rule: "C10/implied-parentheses", Expr: T, Data: ref.ToJSONText(doc), Got: ShowOut(l), Want: ShowOut(l2) + " (result of " + spec + ")"})
			}
			if IsNontrivialOutcome(m) {
				c.Nontrivial(T, ref.ToJSONText(doc))
			}
		}
	}
}

// c10ParenOverride: x op1 (y op2 z) and (x op1 y) op2 z over operands for which regrouping
// changes the value (decimal rounding at 34 digits, overflow, binary rounding of Go floats):
// the parenthesised group must be evaluated as a unit.  Oracles: the model where it decides,
// and the library against itself with the group bound to a let variable first
// (let $t = y op2 z in x op1 $t), which is the same computation spelled without parentheses.
var c10RoundPool = []string{"0.5", "1e34", "-1e34", "9999999999999999999999999999999999", "-9999999999999999999999999999999999", "1", "3", "0.1", "0.2", "0.3", "7", "1e33", "0.3333333333333333333333333333333333", "1e6000", "1e-6000", "0", "-1", "2", "1e6144", "5e-1", "1e17", "0.1e-17", "123456789012345678901234567890.1234"}
var c10FloatPool = []float64{0.1, 0.2, 0.3, 1e308, 1e-308, 3, 1e16, 1, 0.5, 1e17, 7, 1.1, 2.2, 1e200, 1e-200, 0}

func c10ParenOverride(c *Ctx, idx int) {
	r := c.Rand("")
	ops := []string{"+", "-", "*", "×", "/", "−"}
	op1, op2 := gen.Pick(r, ops), gen.Pick(r, ops)
	if idx%3 == 0 {
		op2 = op1 // the same operator on both sides: the case an evaluator may flatten
	}
	floats := idx%4 == 1
	doc := map[string]any{}
	mdoc := ref.NewObj()
	for _, k := range []string{"x", "y", "z", "w"} {
		if floats {
			doc[k] = gen.Pick(r, c10FloatPool)
		} else {
			t := gen.Pick(r, c10RoundPool)
			if idx%4 == 3 {
				doc[k] = decimalMode(gen.Num(t))
			} else {
				doc[k] = json.Number(t)
			}
			mdoc.Set(k, gen.Num(t))
		}
	}
	forms := []struct{ paren, viaLet string }{
		{"x " + op1 + " (y " + op2 + " z)", "let $t = y " + op2 + " z in x " + op1 + " $t"},
		{"(x " + op1 + " y) " + op2 + " z", "let $t = x " + op1 + " y in $t " + op2 + " z"},
		{"x " + op1 + " (y " + op2 + " (z " + op1 + " w))", "let $u = z " + op1 + " w in let $t = y " + op2 + " $u in x " + op1 + " $t"},
		{"x " + op1 + " (y " + op2 + " z) " + op1 + " w", "let $t = y " + op2 + " z in x " + op1 + " $t " + op1 + " w"},
		{"[x " + op1 + " (y " + op2 + " z)]", "[let $t = y " + op2 + " z in x " + op1 + " $t]"},
		{"xs[?@ " + op1 + " ($.y " + op2 + " $.z) > `0`]", "let $t = y " + op2 + " z in xs[?@ " + op1 + " $t > `0`]"},
	}
	doc["xs"] = []any{doc["x"], doc["w"]}
	mdoc.Set("xs", &ref.Arr{E: []ref.V{mdoc.M["x"], mdoc.M["w"]}})
	for _, f := range forms {
		l1 := c.LibSearch(f.paren, doc)
		l2 := c.LibSearch(f.viaLet, doc)
		if l1.Panic != nil || l2.Panic != nil {
			continue
		}
		if !SameOutcome(l1, l2, false) {
			c.Report(Violation{Rule: "C10/parentheses-override", Expr: f.paren, Data: gen.Describe(doc), Got: ShowOut(l1), Want: ShowOut(l2) + " (result of " + f.viaLet + ")", Features: map[string]string{"operators": op1 + " " + op2, "floats": fmt.Sprint(floats)}})
		}
		if !floats {
			if m := ref.Search(f.paren, mdoc); !m.Unspec {
				if judged, ok, why := Agree(m, l1); judged && !ok {
					c.Report(Violation{Rule: "C10/model", Expr: f.paren, Data: gen.Describe(doc), Got: ShowOut(l1), Want: m.String(), Detail: why, Features: map[string]string{"stream": "paren-override"}})
				}
			}
		}
		if l1.Err == nil && l1.M != nil {
			c.Nontrivial(f.paren, gen.Describe(doc))
		}
	}
}

// c10Literals: chains of arithmetic and comparison operators over a mix of
// fields and literal numbers, some at the machine-width boundaries: a parser
// that folds or regroups constant operands must still produce the value of
// the left-associated, precedence-ordered chain.
var c10LitPool = []string{"0", "1", "2", "3", "7", "10", "-1", "-3", "0.5", "1.5", "100", "65536", "2147483648", "3037000500", "4000000000", "4294967295", "4294967296", "9007199254740993", "1000000000000", "9223372036854775807", "-9223372036854775808", "9999999999999999999", "1e10", "1e-3", "123456789.125"}

func c10Literals(c *Ctx, idx int) {
	r := c.Rand("")
	doc := ref.NewObj()
	for _, k := range []string{"a", "b", "c", "n"} {
		doc.Set(k, gen.Num(gen.Pick(r, c10LitPool)))
	}
	nops := 2 + r.Intn(3)
	var b strings.Builder
	arith := []string{"+", "-", "*", "×", "*", "+", "/", "//", "%", "−"}
	same := r.Chance(40)
	op0 := gen.Pick(r, arith)
	for i := 0; i <= nops; i++ {
		if i > 0 {
			op := gen.Pick(r, arith)
			if same {
				op = op0
			}
			if r.Chance(8) {
				op = gen.Pick(r, []string{"==", "<", ">=", "!="})
			}
			b.WriteString(" " + op + " ")
		}
		switch {
		case r.Chance(60):
			b.WriteString("`" + gen.Pick(r, c10LitPool) + "`")
		case r.Chance(15):
			b.WriteString(gen.Pick(r, []string{"-", "+"}) + gen.Pick(r, []string{"a", "b", "`2`", "`4000000000`"}))
		default:
			b.WriteString(gen.Pick(r, []string{"a", "b", "c", "n"}))
		}
	}
	T := b.String()
	if idx%4 == 2 {
		// a left operand that already fills the 34-digit significand, followed by a run of one
		// additive (or multiplicative) operator over small literals: regrouping the literals
		// rounds once instead of twice
		x := gen.Pick(r, []string{"9.000000000000000000000000000000146", "1.234567890123456789012345678901235", "9999999999999999999999999999999.999", "0.3333333333333333333333333333333333", "8.999999999999999999999999999999995", "6.666666666666666666666666666666667", "123456789012345678901234567890.1235", "0.04545454545454545454545454545454545"})
		doc.Set("a", gen.Num(x))
		lead := gen.Pick(r, []string{"a", "`" + x + "`", "a / b", "b / c", "n / `22`", "a * `1`"})
		op := gen.Pick(r, []string{"+", "-", "+", "−", "*", "×"})
		var sb strings.Builder
		sb.WriteString(lead)
		for k := 0; k < 2+r.Intn(3); k++ {
			o := op
			if r.Chance(15) {
				o = gen.Pick(r, []string{"+", "-"})
			}
			sb.WriteString(" " + o + " `" + gen.Pick(r, []string{"2", "4", "11", "95", "117", "999", "1000", "5000", "3", "7", "121", "1", "10"}) + "`")
		}
		T = sb.String()
	}
	pr := ref.Parse(T)
	if pr.Status != ref.ParseOK {
		return
	}
	goDoc := ref.ToGo(doc, ref.JSONNumber)
	feats := map[string]string{"stream": "literals"}
	m, l := c.CheckModel("C10", T, doc, goDoc, CheckOpts{Compiled: idx%2 == 0, Features: feats})
	// the implied parentheses written out, and the same chain with every literal moved into the document
	spec := ref.FullParen(pr.Node)
	l2 := c.LibSearch(spec, goDoc)
	if !SameOutcome(l, l2, false) {
		c.Report(Violation{Rule: "C10/implied-parentheses", Expr: T, Data: ref.ToJSONText(doc), Got: ShowOut(l), Want: ShowOut(l2) + " (result of " + spec + ")", Features: feats})
	}
	lits := map[string]string{}
	T3 := T
	for i, t := range append(append([]string{}, c10LitPool...), "4", "11", "95", "117", "999", "1000", "5000", "121") {
		name := fmt.Sprintf("k%d", i)
		if strings.Contains(T3, "`"+t+"`") {
			T3 = strings.ReplaceAll(T3, "`"+t+"`", name)
			lits[name] = t
		}
	}
	if len(lits) > 0 {
		doc3 := ref.NewObj()
		for _, k := range doc.Keys {
			doc3.Set(k, doc.M[k])
		}
		for k, t := range lits {
			doc3.Set(k, gen.Num(t))
		}
		l3 := c.LibSearch(T3, ref.ToGo(doc3, ref.JSONNumber))
		if m3 := ref.Search(T3, doc3); !MultiFaultOK(m3, l, l3) && !SameOutcome(l, l3, false) {
			c.Report(Violation{Rule: "C10/literal-operands-differ-from-fields", Expr: T, Data: ref.ToJSONText(doc), Got: ShowOut(l), Want: ShowOut(l3) + " (result of " + T3 + " with the literals as document fields)", Features: feats})
		}
	}
	if !m.Unspec {
		c.Nontrivial(T, ref.ToJSONText(doc))
	}
}

func init() {
	Register(&Property{
		ID:            "C10",
		Rule:          "unparenthesised chains of binary operators: all 18x18 ordered pairs (with and without unary prefixes !, -, +, U+2212 on operands) and all 18^3 ordered triples (thorough; a seeded sample in quick) of the operator spellings | || && == != < <= > >= + - U+2212 * U+00D7 / U+00F7 // % around operands drawn from fields, literals, selectors, function calls, parenthesised expressions, projections and dotted multi-selects (x.[n], x.{n: n}, x.[*]); for each chain the generator searches documents on which the specified grouping gives a value that every other binary-tree grouping does not (only such distinguishing instances count); checks: compiled tree of the chain = compiled tree of the chain with the implied parentheses written out (AST fingerprint hook; decides groupings no document can distinguish), library(chain) = model(chain), library(chain) = library(chain with the implied parentheses written out), and every alternative grouping written with explicit parentheses = model; plus selectors/unary operators against every binary operator; literals stream: chains of 3-5 arithmetic/comparison operators over a mix of fields and literal numbers (incl. 2^31, 2^32, ~3.04e9, 4e9, 2^53+1, 2^63-1, -2^63, 10^19-1): value = model, = the same chain with implied parentheses, = the same chain with every literal moved into the document; paren-override stream: x op1 (y op2 z) and its variants over operands for which regrouping changes the value (34-digit rounding, overflow, binary rounding of Go floats), as json.Number / decimal128 / float64: value = model where decided, = the same computation with the group bound to a let variable first; postfix-operands stream: 70 left operands (a call of every builtin, type() of every kind of value, fields, literals, dotted multi-selects and wildcards) x 14 binary operators x 20 right operands (raw strings spelling type names and other words, literals, fields, calls, @, $, multi-selects) x 10 selector tails - the bare text against the implied parentheses (also inside a filter and a multi-select) and against the model",
		MinNontrivial: 500,
		Streams: []Stream{
			{Name: "pairs", N: func(c *Ctx) int { return 2 * len(c10Ops) * len(c10Ops) }, Run: c10Pairs, Exhaustive: true},
			{Name: "triples", N: func(c *Ctx) int {
				n := len(c10Ops)
				if c.Tier == "thorough" {
					return 2 * n * n * n
				}
				return n * n * n / 3
			}, Run: c10Triples},
			{Name: "tight", N: func(c *Ctx) int { return tierN(c, 18*4, 18*40) }, Run: c10Tight},
			{Name: "paren-override", N: func(c *Ctx) int { return tierN(c, 20000, 2000000) }, Run: c10ParenOverride},
			{Name: "literals", N: func(c *Ctx) int { return tierN(c, 20000, 3000000) }, Run: c10Literals},
			{Name: "postfix-operands", N: c10PostN, Run: c10Post, Exhaustive: true},
		},
	})
}

// ---- operands that carry their own selectors
//
// In `L op R.sel`, `L op R[0:5]`, `L op R | ...` the selectors after R bind tighter than every binary
// operator: the operand is (R.sel).  A parser (or a peephole in it) that takes R for the whole
// operand applies the selector to the result of the operator.  Every left operand from a list that
// contains a call of every builtin, every binary operator, right operands that begin with a raw
// string / literal / identifier / call / @, and six selector tails; the bare text must give the same
// outcome as the text with the implied parentheses written out, and both must agree with the model.
var c10PostOps = []string{"==", "!=", "<", "<=", ">", ">=", "+", "-", "*", "/", "//", "%", "&&", "||"}

var c10PostRights = []string{"'array'", "'boolean'", "'null'", "'number'", "'object'", "'string'", "'true'", "'text'", "''", "`\"string\"`", "`[1,2,3]`", "`{\"b\":\"number\"}`", "s", "o", "to_string(a)", "@", "$", "not_null(s)", "[s, a]", "{b: s}"}

var c10PostTails = []string{"[0:5]", "[0]", ".b", ".type(@)", "[::-1]", "[*]", ".length(@)", "[-1:]", ".[@]", ".to_string(@)"}

var c10PostLefts []string

func c10PostSetup() {
	if c10PostLefts != nil {
		return
	}
	c10PostLefts = []string{"a", "s", "o", "@", "a[0]", "o.b", "'array'", "`1`", "`true`", "!s", "-n", "[a]", "(a)", "a | @", "o.[b]", "o.{k: b}", "o.[*]", "o.*", "@.[s, n]", "o.[b][0]", "a[*]", "a[]"}
	for _, fn := range ref.FunctionNames() {
		mn, _, ex, _ := ref.Arity(fn)
		if mn == 0 {
			mn = 1
		}
		args := make([]string, mn)
		for i := range args {
			args[i] = c03Plausible(fn, i)
			for _, e := range ex {
				if e == i {
					args[i] = "&@"
				}
			}
		}
		c10PostLefts = append(c10PostLefts, fn+"("+strings.Join(args, ", ")+")")
	}
	// type() of every kind of value
	for _, x := range []string{"a", "s", "o", "n", "missing", "`true`", "@"} {
		c10PostLefts = append(c10PostLefts, "type("+x+")")
	}
}

func c10PostN(c *Ctx) int {
	c10PostSetup()
	return len(c10PostLefts) * len(c10PostOps) * len(c10PostRights)
}

func c10Post(c *Ctx, idx int) {
	c10PostSetup()
	l := c10PostLefts[idx%len(c10PostLefts)]
	idx /= len(c10PostLefts)
	op := c10PostOps[idx%len(c10PostOps)]
	idx /= len(c10PostOps)
	rt := c10PostRights[idx]
	doc, err := ref.FromJSON(`{"a":[1,2],"s":"string","o":{"b":"number"},"n":3}`)
	if err != nil {
		panic(err)
	}
	goDoc := ref.ToGo(doc, ref.JSONNumber)
	for ti, tail := range c10PostTails {
		if (ti+idx+len(l))%2 == 1 && c.Tier != "thorough" {
			continue
		}
		bare := l + " " + op + " " + rt + tail
		paren := l + " " + op + " (" + rt + tail + ")"
		if strings.Contains(bare, "pad_") {
			continue
		}
		feats := map[string]string{"stream": "postfix-operands", "operator": op, "tail": tail}
		lb := c.LibSearch(bare, goDoc)
		lp := c.LibSearch(paren, goDoc)
		m := ref.Search(bare, doc)
		if lb.Panic != nil || lp.Panic != nil {
			continue
		}
		if !MultiFaultOK(m, lb, lp) && !SameOutcome(lb, lp, Enumerates(bare)) {
			c.Report(Violation{Rule: "C10/implied-parentheses", Expr: bare, Data: ref.ToJSONText(doc), Got: ShowOut(lb), Want: ShowOut(lp) + "  (= " + paren + ")", Features: feats})
		}
		if judged, ok, why := Agree(m, lb); judged && !ok {
			c.Report(Violation{Rule: "C10/model", Expr: bare, Data: ref.ToJSONText(doc), Got: ShowOut(lb), Want: m.String(), Detail: why, Features: feats})
		}
		// in a filter and in a multi-select the operand ends in the same place
		for _, w := range []string{"[a, s][?%s]", "[%s]"} {
			wb, wp := fmt.Sprintf(w, bare), fmt.Sprintf(w, paren)
			b2, p2 := c.LibSearch(wb, goDoc), c.LibSearch(wp, goDoc)
			if b2.Panic == nil && p2.Panic == nil && !MultiFaultOK(ref.Search(wb, doc), b2, p2) && !SameOutcome(b2, p2, Enumerates(wb)) {
				c.Report(Violation{Rule: "C10/implied-parentheses", Expr: wb, Data: ref.ToJSONText(doc), Got: ShowOut(b2), Want: ShowOut(p2) + "  (= " + wp + ")", Features: feats})
			}
		}
		if !m.Unspec {
			c.Nontrivial(bare)
		}
	}
}
