package mon

import (
	"fmt"
	"strings"

	"verif/harness/gen"
	"verif/harness/ref"
)

// selector tails (applied after a dot or directly); each is a chain that may
// follow a projection
var c17Tails = []string{
	".a", ".b", ".a.b", ".a[0]", "[0]", "[-1]", "[0].a", ".a[*]", ".a[*].b", "[*]", "[*].a", ".*", ".*.a", ".a.*", "[?a]", "[?a].b", ".a[?@]", "[?@ == `1`]",
	"[1:]", "[::-1].a", ".a[:1]", ".[a, b]", ".{x: a, y: b}", ".[a]", ".{x: a}", ".length(@)", ".type(@)", ".not_null(a, b)", ".to_array(a)", ".keys(@)",
	".a.to_array(@)[*]", ".a.to_array(@)[0:]", ".a.keys(@)[*]", ".a.not_null(@, `[1]`)[*]", ".a.to_string(@)", ".a.type(@)", ".b.to_array(@)[*].a", ".a.length(to_array(@))",
	".[a, $u]", ".{x: $u}", ".abs(`\"s\"`)", ".a.abs(@)", ".[a, `1` / `0`]", ".pad_left('a', `-1`)", ".not_null($u, a)",
	"[127]", "[128]", "[200]", "[255]", "[256]", "[-128]", "[-129]", "[-256]", "[128].a", ".a[255]", ".b[200]", "[100:][130]",
	".a | [0]", " | [0]", " | [1]", " | [-1]", "[?!a] | [0]", "[?a != `1`] | [0]", "[?a == `null`] | [1]", "[?!@] | [0]", ".a[?!a] | [0]", ".a || `\"dflt\"`", ".a && b", ".a == `1`", "[].a", ".a[]", "[*][0]", "[*].*", ".[a, b][0]", ".{x: a}.x",
}

var c17Bases = []string{"@", "a", "b", "a.b", "b[0]", "c", "[a, b]", "*", "a[*]", "b[*].a", "`[{\"a\":1,\"b\":[2]},null,{\"a\":null},[1],\"s\"]`", "values(@)", "a[?a]", "not_null(a, b)", "[a, b][]", "c.c[:1].not_null($.a)", "c.c[0:].to_array($.b)"}

var c17Filters = []string{"a", "@", "!a", "a == `1`", "a != `null`", "b[0]", "a && b", "type(@) == 'object'", "a.a", "`true`", "`false`"}

var c17DocsText = []string{
	`{"a":[{"a":[1,2],"b":{"a":1}},5,{"a":3,"b":[{"a":4}]},"s",[7],{"a":{"k":1}},true],"b":[{"a":{"k":1,"j":2}},5,[{"a":1}],{"a":[1,[2]]}],"c":{"a":{"a":1},"b":2,"c":"x"}}`,
	`[{"a":{"a":[1],"b":2},"b":[1]},7,"x",[{"a":1}],{"a":[{"a":1},2,{"b":3}]},false]`,
	`{"a":[{"a":1,"b":[1,2]},{"a":null,"b":null},null,{"b":{"a":2}},[{"a":3}],"s",{}],"b":[{"a":{"a":1,"b":2}},{"a":[1,null,{"a":5}]}],"c":{"a":{"a":1},"b":null,"c":[{"a":1}]}}`,
	`{"a":{"a":{"a":1,"b":null},"b":[{"a":1},{"a":2,"b":3},null]},"b":[[{"a":1},{"a":null}],[],[null],{"a":7}],"c":null}`,
	`[{"a":[1,2],"b":{"a":1}},{"a":[],"b":null},{"a":null},null,[[{"a":1}]],{"a":{"a":[{"a":9}]}}]`,
	`{"a":[[1,[2,null]],[null],[],{"a":1},"x"],"b":{"a":[{"a":1,"b":1},{"a":1,"b":2}],"b":{}},"c":[]}`,
	`{"a":"string","b":5,"c":true}`,
	`{"a":[{"a":true,"b":false},{"a":false,"b":0},{"a":"","b":[]},{"a":0},{"a":[]},{"a":{}},{"a":null}],"b":[],"c":{}}`,
	`null`,
	`[]`,
	`{}`,
	`[[{"a":1,"b":2},{"a":3}],[{"a":null},{"b":4}],null,[[{"a":5}]]]`,
	`{"a":[{"a":[{"a":[{"a":1}]}]}],"b":[{"a":[{"b":2},{"b":3}]},{"a":[]},{"a":[{"b":null}]}]}`,
	`{"a":{"x":{"a":1},"y":null,"z":{"a":null,"b":2}},"b":[{"a":{"p":1,"q":null}}]}`,
	`{"a":[null,{"a":null,"b":1},null,{"a":1,"b":[1]},{"a":2}],"b":[null,null,{"a":{"a":1}},{"a":null}],"c":[null]}`,
	`[null,null,{"a":null},{"a":1,"b":2},null,{"a":[null,1]}]`,
}

var c17FixedDocs = len(c17DocsText)
var c17Docs []ref.V
var c17Go []any

func c17Setup(c *Ctx) {
	if c17Docs != nil {
		return
	}
	if len(c17DocsText) == c17FixedDocs {
		// a document with long arrays (index literals around the 8-bit boundaries select something)
		var a, b, ca strings.Builder
		for i := 0; i < 300; i++ {
			if i > 0 {
				a.WriteByte(',')
				b.WriteByte(',')
				ca.WriteByte(',')
			}
			fmt.Fprintf(&a, `{"a":%d,"b":[%d]}`, i, i)
			fmt.Fprintf(&b, "%d", 1000+i)
			fmt.Fprintf(&ca, `[%d]`, i)
		}
		c17DocsText = append(c17DocsText, `{"a":[`+a.String()+`],"b":[`+b.String()+`],"c":{"a":[`+ca.String()+`],"b":[`+b.String()+`]}}`, `[`+a.String()+`]`)
	}
	for _, t := range c17DocsText {
		v, err := ref.FromJSON(t)
		if err != nil {
			panic(err)
		}
		c17Docs = append(c17Docs, v)
		c17Go = append(c17Go, ref.ToGo(v, ref.JSONNumber))
	}
}

// tailAfterPipe rewrites a tail so that it can stand after "| [*]" or "| "
// (".a" -> "a" when applied to the current node directly).
func tailExpr(tail string) string {
	if strings.HasPrefix(tail, ".") {
		return tail[1:]
	}
	return tail
}

type c17Inst struct {
	schema   string
	lhs, rhs string
	// needArray: the identity only applies when base evaluates to an array
	needArray string
	// needNonNull: the identity only applies when this expression is non-null
	needNonNull string
	// dropNulls: remove nulls from the rhs result before comparing
	dropNulls bool
	// base: the expression whose value is projected (to look for null elements)
	base string
	// tail: the selectors following the projection
	tail string
}

func c17Instances(base, tail, filt string) []c17Inst {
	if isProjText(base) {
		base = "(" + base + ")"
	}
	te := tailExpr(tail)
	simpleTail := !strings.ContainsAny(tail, "|&=") && !strings.Contains(tail, "[]") // a pure selector chain (a flatten would end the projection)
	var out []c17Inst
	if simpleTail {
		for _, p := range []struct{ name, proj string }{{"array-projection", base + "[*]"}, {"flatten-projection", base + "[]"}, {"filter-projection", base + "[?" + filt + "]"}, {"object-projection", base + ".*"}, {"slice-projection", base + "[1:]"}, {"slice-projection-rev", base + "[::-1]"}} {
			if base == "@" {
				p.proj = strings.TrimPrefix(p.proj, "@")
				if strings.HasPrefix(p.proj, ".") {
					p.proj = p.proj[1:]
				}
			}
			// a projection followed by selectors == the projected array piped into a new projection of those selectors
			rhsTail := tail
			if strings.HasPrefix(tail, ".") {
				rhsTail = "[*]" + tail
			} else {
				rhsTail = "[*]" + tail
			}
			in := c17Inst{schema: p.name + "-then-selectors", lhs: p.proj + tail, rhs: p.proj + " | " + rhsTail}
			if strings.HasPrefix(p.name, "slice") {
				in.needArray = base
			}
			out = append(out, in)
			// a projection with a right-hand side, piped into a new projection of further selectors or
			// multi-selects == the same selectors written on (null results are dropped either way)
			if tail == ".a" || tail == ".[a, b]" || tail == ".{x: a, y: b}" || tail == ".[a]" || tail == ".{x: a}" || tail == "[0]" || tail == ".*" || tail == ".a[0]" || tail == ".[a, b][0]" || tail == ".{x: a}.x" {
				for _, t1 := range []string{".a", ".b", ".a.b", "[0]", ".a[0]"} {
					sp := c17Inst{schema: "split-projection", lhs: p.proj + t1 + tail, rhs: p.proj + t1 + " | [*]" + tail}
					if strings.HasPrefix(p.name, "slice") {
						sp.needArray = base
					}
					out = append(out, sp, c17Inst{schema: "split-projection", lhs: p.proj + t1 + tail, rhs: "(" + p.proj + t1 + ") | [*]" + tail, needArray: sp.needArray})
				}
			}
			// parenthesising or piping ends a projection
			out = append(out, c17Inst{schema: "paren-ends-projection", lhs: "(" + p.proj + ")" + tail, rhs: p.proj + " | " + headAsExpr(tail), needNonNull: headGuard(p.proj, tail)})
		}
		// x[*].e == map(&e, x) with nulls removed (x an array)
		if strings.HasPrefix(tail, ".") && !strings.HasPrefix(tail, ".*") {
			out = append(out, c17Inst{schema: "projection-vs-map", lhs: base + "[*]" + tail, rhs: "map(&" + te + ", " + base + ")", needArray: base, dropNulls: true})
		}
	}
	// a.b == a | b when a is not a projection (and a is not null, for b other than an identifier)
	if simpleTail && strings.HasPrefix(tail, ".") && !strings.HasPrefix(tail, ".*") && !isProjText(base) {
		out = append(out, c17Inst{schema: "dot-vs-pipe", lhs: "(" + base + ")" + tail, rhs: "(" + base + ") | " + te, needNonNull: base})
	}
	// {k: e}.k == e and [e1, e2] == [e1] ++ [e2] on a non-null current node
	e := base
	if tail != "" && simpleTail && base != "@" && !isProjText(base) {
		e = base + tail
	}
	for i := range out {
		out[i].base = base
		out[i].tail = tail
	}
	out = append(out, c17Inst{schema: "hash-select", lhs: "{k: " + e + "}.k", rhs: e, needNonNull: "@"})
	out = append(out, c17Inst{schema: "hash-select-2", lhs: "{j: " + filt + ", k: " + e + "}.k", rhs: e, needNonNull: "@"})
	return out
}

func isProjText(s string) bool {
	return strings.HasPrefix(s, "*") || strings.Contains(s, "[*]") || strings.Contains(s, "[]") || strings.Contains(s, "[?") || s == "*" || strings.Contains(s, ".*") || strings.Contains(s, ":")
}

// headAsExpr: "(P).a.b" == "P | a.b"; "(P)[0]" == "P | [0]"
func headAsExpr(tail string) string { return tailExpr(tail) }

// headGuard: "(P).[a]" on a null P is null while "P | [a]" is [null]: the
// identity is about non-null P for multi-select/function heads
func headGuard(proj, tail string) string {
	if strings.HasPrefix(tail, ".[") || strings.HasPrefix(tail, ".{") || (strings.HasPrefix(tail, ".") && strings.Contains(strings.SplitN(tail[1:], ".", 2)[0], "(")) {
		return proj
	}
	return ""
}

func dropNullsV(v ref.V) ref.V {
	a, ok := v.(*ref.Arr)
	if !ok {
		return v
	}
	out := &ref.Arr{E: []ref.V{}, Unordered: a.Unordered}
	for _, e := range a.E {
		if e != nil {
			out.E = append(out.E, e)
		}
	}
	return out
}

func (c *Ctx) c17Check(in c17Inst, d int) {
	goDoc := c17Go[d]
	if in.needArray != "" {
		l := c.LibSearch(in.needArray, goDoc)
		if _, ok := l.M.(*ref.Arr); !ok || l.Err != nil || l.Panic != nil {
			c.Count("dropped_not_applicable", 1)
			return
		}
	}
	if in.needNonNull != "" {
		l := c.LibSearch(in.needNonNull, goDoc)
		if l.Err != nil || l.Panic != nil || l.MErr != nil || l.M == nil {
			c.Count("dropped_not_applicable", 1)
			return
		}
	}
	if ref.Parse(in.lhs).Status != ref.ParseOK || ref.Parse(in.rhs).Status != ref.ParseOK {
		c.Count("dropped_not_grammatical", 1)
		return
	}
	if !c.c17Applicable(in, c17Docs[d], goDoc) {
		return
	}
	if strings.Contains(in.lhs, "pad_") {
		return
	}
	// each side on its own fresh copy of the document: a side that damages what it reads must not
	// be able to hide behind the other side seeing the same damage
	l := c.LibSearch(in.lhs, ref.ToGo(c17Docs[d], ref.JSONNumber))
	r := c.LibSearch(in.rhs, ref.ToGo(c17Docs[d], ref.JSONNumber))
	if in.dropNulls && r.Err == nil && r.Panic == nil && r.MErr == nil {
		r.M = dropNullsV(r.M)
	}
	if MultiFaultOK(ref.Search(in.lhs, c17Docs[d]), l, r) {
		return
	}
	if !SameOutcome(l, r, Enumerates(in.lhs)) {
		c.Report(Violation{Rule: "C17/identity", Expr: in.lhs, Data: c17DocsText[d], Got: ShowOut(l), Want: ShowOut(r) + "  (= " + in.rhs + ")", Features: map[string]string{"schema": in.schema}})
	}
	if l.Err == nil && l.Panic == nil && l.M != nil {
		if a, ok := l.M.(*ref.Arr); !ok || len(a.E) > 0 {
			c.Nontrivial(in.lhs, in.rhs, fmt.Sprint(d))
			if len(in.lhs) < 40 {
				c.Sample(map[string]any{"schema": in.schema, "lhs": in.lhs, "rhs": in.rhs, "doc": c17DocsText[d], "value": ShowOut(l)})
			}
		}
	}
}

func c17GridN(c *Ctx) int { return len(c17Bases) * len(c17Tails) }

func c17Grid(c *Ctx, idx int) {
	base := c17Bases[idx/len(c17Tails)]
	tail := c17Tails[idx%len(c17Tails)]
	for fi, filt := range c17Filters {
		if c.Tier != "thorough" && fi%3 != idx%3 {
			continue
		}
		for _, in := range c17Instances(base, tail, filt) {
			for d := range c17Docs {
				c.c17Check(in, d)
			}
		}
	}
	// multi-select list == concatenation of the single selections
	for d := range c17Docs {
		if c17Docs[d] == nil {
			continue
		}
		es := []string{base, tailExpr(tail), c17Filters[idx%len(c17Filters)]}
		if !isProjText(base) || strings.Contains(base, "not_null($") || strings.Contains(base, "to_array($") {
			// an element that pipes the base into a projection, next to elements that read the same members again
			es = append(es, base+" | [*].a", "a", "b")
		}
		if m := ref.Search("["+strings.Join(es, ", ")+"]", c17Docs[d]); m.Unspec {
			continue
		}
		whole := c.LibSearch("["+strings.Join(es, ", ")+"]", ref.ToGo(c17Docs[d], ref.JSONNumber))
		var parts []ref.V
		ok := true
		var firstErr LibOut
		for _, e := range es {
			if e == "*" {
				e = "(*)"
			}
			p := c.LibSearch("["+e+"]", ref.ToGo(c17Docs[d], ref.JSONNumber))
			if p.Err != nil || p.Panic != nil || p.MErr != nil {
				if ok {
					firstErr = p
				}
				ok = false
				continue
			}
			if a, isA := p.M.(*ref.Arr); isA && len(a.E) == 1 {
				parts = append(parts, a.E[0])
			} else {
				c.Report(Violation{Rule: "C17/identity", Expr: "[" + e + "]", Data: c17DocsText[d], Got: ShowOut(p), Want: "an array of one element", Features: map[string]string{"schema": "multi-select-list"}})
				ok = false
			}
		}
		if ok {
			want := LibOut{M: &ref.Arr{E: parts}}
			if !SameOutcome(whole, want, Enumerates("["+strings.Join(es, ", ")+"]")) {
				c.Report(Violation{Rule: "C17/identity", Expr: "[" + strings.Join(es, ", ") + "]", Data: c17DocsText[d], Got: ShowOut(whole), Want: ref.Show(want.M) + " (concatenation of the single selections)", Features: map[string]string{"schema": "multi-select-list"}})
			}
			c.Nontrivial("msl", strings.Join(es, ","), fmt.Sprint(d))
		} else if whole.Err == nil && whole.Panic == nil && firstErr.Err != nil {
			c.Report(Violation{Rule: "C17/identity", Expr: "[" + strings.Join(es, ", ") + "]", Data: c17DocsText[d], Got: ShowOut(whole), Want: "an error, as one of the single selections fails: " + ShowOut(firstErr), Features: map[string]string{"schema": "multi-select-list"}})
		}
	}
}

// random instantiations with generated sub-expressions
func c17Random(c *Ctx, idx int) {
	r := c.Rand("")
	doc := gen.Doc(r, 3)
	goDoc := ref.ToGo(doc, ref.JSONNumber)
	g := &gen.ExprGen{R: r, Root: doc, Funcs: 30, Lets: false, Arith: false}
	x := ref.Print(g.Chain(doc, 1+r.Intn(2)))
	xv, _ := ref.EvalNode(g.Chain(doc, 1), doc, doc, nil)
	_ = xv
	eNode := g.Chain(gen.Doc(r, 2), 1+r.Intn(3))
	e := ref.Print(eNode)
	if e == "@" || strings.Contains(e, "[]") || strings.HasPrefix(e, "[") || strings.HasPrefix(e, "*") || strings.ContainsAny(e[:1], "`'{") {
		return
	}
	if isProjText(x) {
		x = "(" + x + ")"
	}
	insts := []c17Inst{
		{schema: "array-projection-then-selectors", lhs: x + "[*]." + e, rhs: x + "[*] | [*]." + e},
		{schema: "flatten-projection-then-selectors", lhs: x + "[]." + e, rhs: x + "[] | [*]." + e},
		{schema: "filter-projection-then-selectors", lhs: x + "[?@]." + e, rhs: x + "[?@] | [*]." + e},
		{schema: "object-projection-then-selectors", lhs: x + ".*." + e, rhs: x + ".* | [*]." + e},
		{schema: "projection-vs-map", lhs: x + "[*]." + e, rhs: "map(&" + e + ", " + x + ")", needArray: x, dropNulls: true},
		{schema: "paren-ends-projection", lhs: "(" + x + "[*])." + e, rhs: x + "[*] | " + e, needNonNull: headGuard(x+"[*]", "."+e)},
		{schema: "hash-select", lhs: "{k: " + x + "." + e + "}.k", rhs: x + "." + e, needNonNull: "@"},
	}
	for _, in := range insts {
		in.base = x
		in.tail = "." + e
		if ref.Parse(in.lhs).Status != ref.ParseOK || ref.Parse(in.rhs).Status != ref.ParseOK {
			continue
		}
		if in.needArray != "" {
			l := c.LibSearch(in.needArray, goDoc)
			if _, ok := l.M.(*ref.Arr); !ok || l.Err != nil {
				continue
			}
		}
		if in.needNonNull != "" {
			l := c.LibSearch(in.needNonNull, goDoc)
			if l.Err != nil || l.Panic != nil || l.M == nil {
				continue
			}
		}
		if !c.c17Applicable(in, doc, goDoc) || strings.Contains(in.lhs, "pad_") {
			continue
		}
		l := c.LibSearch(in.lhs, ref.ToGo(doc, ref.JSONNumber))
		rr := c.LibSearch(in.rhs, ref.ToGo(doc, ref.JSONNumber))
		if in.dropNulls && rr.Err == nil && rr.MErr == nil && rr.Panic == nil {
			rr.M = dropNullsV(rr.M)
		}
		if MultiFaultOK(ref.Search(in.lhs, doc), l, rr) {
			continue
		}
		if !SameOutcome(l, rr, Enumerates(in.lhs)) {
			c.Report(Violation{Rule: "C17/identity", Expr: in.lhs, Data: ref.ToJSONText(doc), Got: ShowOut(l), Want: ShowOut(rr) + "  (= " + in.rhs + ")", Features: map[string]string{"schema": in.schema}})
		}
		if l.Err == nil && l.M != nil {
			c.Nontrivial(in.lhs, ref.ToJSONText(doc))
		}
	}
}

func init() {
	Register(&Property{
		ID:            "C17",
		Rule:          "identity schemata instantiated exhaustively over 17 bases (two of them reach an array of the document through a slice of a string) x 60 selector tails (incl. index literals around the 8-bit boundaries: 127, 128, 200, 255, 256, -128, -129, -256) x 11 filter conditions x 16 documents (nulls, non-containers and empty containers inside projected arrays; two documents with 300-element arrays) plus seeded random instantiations: projection (array, flatten, filter, object, slice) followed by selectors = projected array piped into [*] + selectors; x[*].e = map(&e, x) with nulls removed (x an array); (P).e = P | e; a.b = a | b (a not a projection, a non-null); {k: e}.k = e and [e1,e2,e3] = concatenation of [ei] on a non-null current node; slot rewrites: in generated expressions (core language, builtins, lets, arithmetic) 1-3 expression slots (function arguments, expression-reference bodies, multi-select elements, operands, pipe sides, filter conditions, let bindings and bodies, the whole text) are replaced by (e | @), (@ | e), (let $zz = e in $zz) or (e | @ | @), which keeps the meaning and the evaluation order but breaks the syntactic adjacency that peephole rewrites and fused fast paths key on; the library is compared with itself (values canonically, errors by category); instances on which the identity does not apply are dropped and counted; non-trivial = left-hand side evaluates to a non-null, non-empty value; joins stream: x[*].e == map(&e, x) for join-shaped e (a let bound from the element above a root-anchored filter / projection / sort reading it) over 2..257 elements; the idiom list includes find-record forms (filter on key == literal, project a field that some matches lack, take [0] / [-1] / [%N]); heavy stream: identities evaluated on 80 million node visits in one Search; many-elements stream: 9 pairs of spellings (selectors inside a projection vs after a pipe or parentheses) over 70000 records most of which lack the selected members",
		MinNontrivial: 2000,
		Streams: []Stream{
			{Name: "grid", Setup: c17Setup, N: c17GridN, Run: c17Grid, Exhaustive: true},
			{Name: "joins", N: func(c *Ctx) int { return joinN() }, Run: joinIdentity, Exhaustive: true},
			{Name: "per-element-reentry", N: reN, Run: reRun("C17"), Exhaustive: true},
			{Name: "heavy", N: heavyN, Run: heavyRun("C17"), Exhaustive: true},
			{Name: "many-elements", N: func(c *Ctx) int { return 9 }, Run: manyIdentity, Exhaustive: true},
			{Name: "random", N: func(c *Ctx) int { return tierN(c, 30000, 6000000) }, Run: c17Random},
			{Name: "slot-rewrites", N: func(c *Ctx) int { return tierN(c, 15000, 3000000) }, Run: c17SlotRewrites},
		},
	})
}

// nullSensitive: the tail's first selector does not map null to null
// (multi-select, function call); on null elements of the projected array the
// schemata "projection then selectors" and "x[*].e = map(&e, x) without nulls"
// contradict each other, so such instances are not judged.
func nullSensitiveTail(text string) bool {
	for _, m := range []string{".[", ".{", "(", "`", "'", "==", "!=", "!", "||", "&&"} {
		if strings.Contains(text, m) {
			return true
		}
	}
	return false
}

func containsNullNear(v ref.V, depth int) bool {
	switch x := v.(type) {
	case nil:
		return true
	case *ref.Arr:
		if depth == 0 {
			return false
		}
		for _, e := range x.E {
			if containsNullNear(e, depth-1) {
				return true
			}
		}
	case *ref.Obj:
		if depth == 0 {
			return false
		}
		for _, k := range x.Keys {
			if containsNullNear(x.M[k], depth-1) {
				return true
			}
		}
	}
	return false
}

func (c *Ctx) c17Applicable(in c17Inst, doc ref.V, goDoc any) bool {
	// the model is consulted only to drop instances whose meaning is not
	// pinned (order-dependent enumerations; null elements of a projection
	// meeting a multi-select or function, where the schemata contradict
	// each other)
	if in.base != "" && nullSensitiveTail(in.tail) && (strings.HasSuffix(in.schema, "-then-selectors") || in.schema == "projection-vs-map" || in.schema == "paren-ends-projection") {
		// the schemata contradict each other when the projected array has null
		// elements and a selector of the tail does not map null to null
		if b := ref.Search(in.base, doc); b.Unspec || b.Fault != 0 || containsNullNear(b.Val, 3) {
			c.Count("dropped_null_elements", 1)
			return false
		}
	}
	for _, t := range []string{in.lhs, in.rhs} {
		m := ref.Search(t, doc)
		if !m.Unspec {
			continue
		}
		if dropReason(m.Why) || Enumerates(t) {
			// (an enumerating expression the model does not judge may depend on member order)
			c.Count("dropped_not_judged_by_model", 1)
			return false
		}
		if strings.Contains(m.Why, "null element of a projection") || strings.Contains(m.Why, "sub-expression on null") {
			// the schemata contradict each other only when the projected array
			// really has null elements
			if in.base == "" {
				c.Count("dropped_not_judged_by_model", 1)
				return false
			}
			if b := ref.Search(in.base, doc); b.Unspec || b.Fault != 0 || containsNullNear(b.Val, 3) {
				c.Count("dropped_null_elements", 1)
				return false
			}
		}
	}
	return true
}

// dropReason: only these abstentions of the model make an identity instance
// unjudgeable (the comparison itself is library against library).
func dropReason(why string) bool {
	for _, m := range []string{"order", "undetermined", "width beyond", "grammar gap"} {
		if strings.Contains(why, m) {
			return true
		}
	}
	return false
}
