package mon

import (
	"bytes"
	"encoding/json"
	"fmt"
	"math"
	"strings"

	"github.com/woodsbury/decimal128"

	"verif/harness/gen"
	"verif/harness/ref"
)

// domainCheck walks a result: only nil, bool, string, []any, map[string]any
// and the supported numeric kinds; no typed nils; no non-finite numbers.
func domainCheck(v any, path string) string {
	switch x := v.(type) {
	case nil, bool, string:
		return ""
	case json.Number:
		if !ref.IsJSONNumber(string(x)) {
			return fmt.Sprintf("%s: json.Number %q is not a JSON number", path, string(x))
		}
		return ""
	case decimal128.Decimal:
		if x.IsNaN() || x.IsInf(0) {
			return path + ": non-finite decimal"
		}
		return ""
	case float64:
		if math.IsNaN(x) || math.IsInf(x, 0) {
			return path + ": non-finite float64"
		}
		return ""
	case float32:
		if math.IsNaN(float64(x)) || math.IsInf(float64(x), 0) {
			return path + ": non-finite float32"
		}
		return ""
	case int, int8, int16, int32, int64, uint, uint8, uint16, uint32, uint64:
		return ""
	case []any:
		if x == nil {
			return path + ": nil []any (an array that serialises as null)"
		}
		for i, e := range x {
			if s := domainCheck(e, fmt.Sprintf("%s[%d]", path, i)); s != "" {
				return s
			}
		}
		return ""
	case map[string]any:
		if x == nil {
			return path + ": nil map[string]any (an object that serialises as null)"
		}
		for k, e := range x {
			if s := domainCheck(e, path+"."+k); s != "" {
				return s
			}
		}
		return ""
	}
	return fmt.Sprintf("%s: value of type %T is not a plain JSON value", path, v)
}

var c18Panel = []string{"[0]", "[-1]", "[1]", "[0:1]", "[*]", "[]", "[?@]", "*", "a", "@", "type(@)", "@ == @", "[@][0]", "{k: @}.k", "to_array(@)", "length(to_array(@))", "@[0]", "@[-1]", "@[*]", "@[]", "@.*", "keys(@)", "values(@)", "sort(@)", "sort_by(@, &to_string(@))", "reverse(@)", "length(@)", "to_number(@)", "to_string(@)", "@ + `1`", "@ * `2`", "-@", "abs(@)", "@ < `2`", "@ == `1`", "@ == `[]`", "@ == `{}`", "!@", "@ && 'T'", "@ || 'F'", "[?@]", "[?@ == `1`]", "sum(@)", "max(@)", "min(@)", "avg(@)", "join(',', @)", "@[0].a", "@.a", "@[*].a", "@[?a].a", "contains(@, `1`)", "not_null(@, 'N')", "merge(@, `{\"zz\":1}`)", "@[::2]", "map(&type(@), @)", "zip(@, @)", "@[0] == @[1]", "group_by(@, &type(@))", "items(@)", "from_items(items(@))", "[@, @][]", "ceil(@)", "floor(@)", "find_first(@, 'a')", "pad_left(@, `3`)", "split(@, 'a')", "let $v = @ in [$v, $v]",
	"a.to_array(@)", "a.type(@)", "a[0].not_null(@, 'x')", "(a | to_string(@))", "a.length(to_array(@))", "a.b.type(@)", "[0].type(@)", "a.[@]", "a.{k: @}", "a | [@]", "a.not_null(@, `1`)", "@.type(@)", "a.b | type(@)", "[a.type(@), type(a)]"}

func c18Run(c *Ctx, idx int) {
	r := c.Rand("")
	doc := gen.Doc(r, 3)
	goDoc := ref.ToGo(doc, ref.JSONNumber)
	g := &gen.ExprGen{R: r, Root: doc, Funcs: 80, Lets: true, Arith: true}
	var node *ref.Node
	if r.Chance(55) {
		node = g.Call(doc, 2)
	} else {
		node = g.Expr(doc, 3)
	}
	e1 := ref.Print(node)
	if pr := ref.Parse(e1); pr.Status != ref.ParseOK {
		return
	}
	if m := ref.Search(e1, doc); m.Unspec && strings.Contains(m.Why, "width beyond") {
		return
	}
	l1 := c.LibSearch(e1, goDoc)
	if l1.Panic != nil || l1.Err != nil {
		return
	}
	r1 := l1.Res
	// (1) domain
	if s := domainCheck(r1, "result"); s != "" {
		c.Report(Violation{Rule: "C18/domain", Expr: e1, Data: gen.Describe(goDoc), Got: gen.Describe(r1), Detail: s})
		return
	}
	// (2) serialises, and the serialisation agrees with the structural view
	js, err := json.Marshal(r1)
	if err != nil {
		c.Report(Violation{Rule: "C18/marshal", Expr: e1, Data: gen.Describe(goDoc), Got: gen.Describe(r1), Detail: err.Error()})
		return
	}
	dec := json.NewDecoder(bytes.NewReader(js))
	dec.UseNumber()
	var back any
	if err := dec.Decode(&back); err != nil {
		c.Report(Violation{Rule: "C18/marshal", Expr: e1, Data: gen.Describe(goDoc), Got: string(js), Detail: "does not decode: " + err.Error()})
		return
	}
	mBack, err := ref.FromGo(back)
	if err != nil || l1.MErr != nil || !ref.Match(l1.M, mBack) {
		c.Report(Violation{Rule: "C18/views-disagree", Expr: e1, Data: gen.Describe(goDoc), Got: "json: " + clipS(string(js), 500), Want: "structure: " + clipS(ShowOut(l1), 500)})
		return
	}
	// (3) re-querying: e2 over r1 == "e1 | e2" over the document
	nontriv := false
	for k := 0; k < 6; k++ {
		e2 := gen.Pick(r, c18Panel)
		piped := "(" + e1 + ") | " + e2
		if k%2 == 1 && node.Kind != ref.NLet {
			// the pipe binds loosest: no parentheses needed (and the bare
			// spelling is the one evaluators special-case)
			piped = e1 + " | " + e2
		}
		want := c.LibSearch(piped, goDoc)
		got := c.LibSearch(e2, r1)
		loose := Enumerates(e1) || Enumerates(e2)
		if Enumerates(e1) {
			// the piped form re-evaluates e1, whose enumeration order may differ
			if m := ref.Search(piped, doc); m.Unspec {
				continue
			}
		}
		mp := ref.Search(piped, doc)
		if MultiFaultOK(mp, want, got) {
			continue
		}
		if !SameOutcome(want, got, loose) {
			c.Report(Violation{Rule: "C18/requery", Expr: piped, Data: gen.Describe(goDoc), Got: ShowOut(got) + "  (Search(" + e2 + ", r1) with r1 = " + clipS(gen.Describe(r1), 300) + ")", Want: ShowOut(want)})
		}
		if strings.Contains(e2, "to_string") {
			continue // text of numbers may differ after a JSON round trip
		}
		got2 := c.LibSearch(e2, back)
		if !SameOutcome(want, got2, loose) {
			c.Report(Violation{Rule: "C18/requery-after-json-roundtrip", Expr: piped, Data: gen.Describe(goDoc), Got: ShowOut(got2) + "  (r1 as JSON: " + clipS(string(js), 300) + ")", Want: ShowOut(want)})
		}
		if want.Err == nil && want.M != nil {
			nontriv = true
		}
	}
	if nontriv {
		c.Nontrivial(e1, ref.ToJSONText(doc))
		c.Sample(map[string]any{"e1": e1, "doc": ref.ToJSONText(doc), "r1": clipS(gen.Describe(r1), 200)})
	}
}

// null-elements: e1 ends in a bare projection over an array with nulls before
// the first match; the piped form must still equal the two-step form
func c18Nulls(c *Ctx, idx int) {
	r := c.Rand("")
	xs := &ref.Arr{}
	n := 2 + r.Intn(6)
	for i := 0; i < n; i++ {
		switch r.Intn(4) {
		case 0:
			xs.E = append(xs.E, nil)
		case 1:
			o := ref.NewObj()
			o.Set("a", gen.Pick(r, []ref.V{"x", "y", nil, gen.IntV(1), true, false}))
			xs.E = append(xs.E, o)
		case 2:
			o := ref.NewObj()
			o.Set("b", gen.IntV(int64(i)))
			xs.E = append(xs.E, o)
		default:
			xs.E = append(xs.E, gen.Scalar(r))
		}
	}
	if r.Chance(60) {
		xs.E[0] = nil
	}
	doc := ref.NewObj()
	doc.Set("xs", xs)
	doc.Set("o", gen.Object(r, 1))
	goDoc := ref.ToGo(doc, ref.JSONNumber)
	e1s := []string{"xs[?a != 'x']", "xs[?!a]", "xs[?a == `null`]", "xs[?@ == `null`]", "xs[?!@]", "xs[?b || !a]", "xs[?`true`]", "xs[*]", "xs[]", "xs[1:]", "xs[::-1]", "o.*", "xs[?a != 'x'].a", "xs", "xs[?a]", "[xs[0], xs[1]]", "xs[?@ != `1`]",
		// arrays built by functions keep their nulls (projections drop them)
		"map(&a, xs)", "map(&@, xs)", "map(&b, xs)", "to_array(xs)", "not_null(xs)", "reverse(xs)", "[xs[0].a, xs[1].a, xs[1].b]", "sort_by(xs, &type(@))", "zip(xs, xs)[*][0]", "zip(xs, xs)", "map(&[a, b], xs)", "map(&a, xs[?@])", "let $v = xs in map(&a, $v)", "xs[*].a | map(&@, @)", "map(&not_null(a, b), xs)", "not_null(map(&a, xs))"}
	e2s := []string{"[0]", "[-1]", "[1]", "[0:2]", "[*]", "[]", "length(@)", "[?@ == `null`]", "[0].a", "@[0]", "type([0])", "[0] == `null`", "not_null([0], 'N')", "reverse(@)[0]"}
	e1 := gen.Pick(r, e1s)
	l1 := c.LibSearch(e1, goDoc)
	if l1.Err != nil || l1.Panic != nil {
		return
	}
	for _, e2 := range e2s {
		for _, piped := range []string{e1 + " | " + e2, "(" + e1 + ") | " + e2} {
			want := c.LibSearch(piped, goDoc)
			got := c.LibSearch(e2, l1.Res)
			if strings.Contains(e1, "*") && strings.Contains(e1, "o.") {
				if m := ref.Search(piped, doc); m.Unspec {
					continue
				}
			}
			if !SameOutcome(want, got, Enumerates(e1)) {
				c.Report(Violation{Rule: "C18/requery", Expr: piped, Data: gen.Describe(goDoc), Got: ShowOut(got) + "  (Search(" + e2 + ", r1) with r1 = " + clipS(gen.Describe(l1.Res), 300) + ")", Want: ShowOut(want)})
			}
		}
	}
	c.Nontrivial(e1, ref.ToJSONText(doc))
}

// literal-results: a JSON literal in a random legal layout (white space inside
// the backticks, escapes, exponent spellings) evaluates to a value that is
// itself a plain JSON value: domain walk, serialisation, round trip, re-query.
func c18Literals(c *Ctx, idx int) {
	r := c.Rand("")
	v := gen.Doc(r, 3)
	if idx%4 == 0 {
		v = gen.Scalar(r)
	}
	js := gen.JSONLayout(r, v)
	if idx%3 == 0 {
		js = gen.Pick(r, []string{" ", "\t", "\n", "\r\n", "  "}) + js + gen.Pick(r, []string{" ", "\t", "\n", "\r", "  \n"})
	}
	lit := "`" + strings.ReplaceAll(js, "`", "\\`") + "`"
	for _, e1 := range []string{lit, "[" + lit + ", " + lit + "]", "{k: " + lit + "}", lit + " | @", "not_null(" + lit + ")", "[" + lit + "][0]"} {
		l := c.LibSearch(e1, nil)
		if l.Panic != nil || l.Err != nil {
			if l.Panic != nil {
				c.Report(Violation{Rule: "C18/panic", Expr: e1, Got: ShowOut(l)})
			}
			continue
		}
		if s := domainCheck(l.Res, "result"); s != "" {
			c.Report(Violation{Rule: "C18/domain", Expr: e1, Got: gen.Describe(l.Res), Detail: s})
			continue
		}
		js2, err := json.Marshal(l.Res)
		if err != nil {
			c.Report(Violation{Rule: "C18/marshal", Expr: e1, Got: gen.Describe(l.Res), Detail: err.Error()})
			continue
		}
		dec := json.NewDecoder(bytes.NewReader(js2))
		dec.UseNumber()
		var back any
		if err := dec.Decode(&back); err != nil {
			c.Report(Violation{Rule: "C18/marshal", Expr: e1, Got: string(js2), Detail: "does not decode: " + err.Error()})
			continue
		}
		for _, e2 := range []string{"@", "type(@)", "to_string(@) | length(@)", "[@, @]", "@ == @", "[0]", "k", "length(to_array(@))", "abs(@)", "@ + `1`", "sort(to_array(@))", "keys(@)"} {
			want := c.LibSearch("("+e1+") | "+e2, nil)
			got := c.LibSearch(e2, l.Res)
			got2 := c.LibSearch(e2, back)
			loose := Enumerates(e2)
			if !SameOutcome(want, got, loose) {
				c.Report(Violation{Rule: "C18/requery", Expr: "(" + e1 + ") | " + e2, Got: ShowOut(got) + "  (Search(" + e2 + ", r1))", Want: ShowOut(want)})
			}
			if !strings.Contains(e2, "to_string") && !SameOutcome(want, got2, loose) {
				c.Report(Violation{Rule: "C18/requery-after-json-roundtrip", Expr: "(" + e1 + ") | " + e2, Got: ShowOut(got2) + "  (r1 as JSON: " + clipS(string(js2), 200) + ")", Want: ShowOut(want)})
			}
		}
		c.Nontrivial(e1)
	}
}

// deep: documents nested d levels deep (arrays, objects, alternating) for d around the usual
// depth limits; e1 adds a few levels; the result must serialise (encoding/json accepts any depth
// when encoding), be acceptable as input, and re-query like the piped form.
var c18Depths = []int{10, 100, 1000, 9990, 9998, 9999, 10000, 10001, 10002, 10010, 20000, 49990}

func c18DeepN(c *Ctx) int { return len(c18Depths) * 3 }

func c18Deep(c *Ctx, idx int) {
	d := c18Depths[idx%len(c18Depths)]
	kind := idx / len(c18Depths)
	var doc any = json.Number("7")
	for i := 0; i < d; i++ {
		switch {
		case kind == 0 || (kind == 2 && i%2 == 0):
			doc = []any{doc}
		default:
			doc = map[string]any{"k": doc}
		}
	}
	for _, e1 := range []string{"@", "[@]", "{k: @}", "[[@]]", "to_array(@)", "[@, @]", "not_null(@)", "merge({k: @})", "[0] || k", "map(&[@], to_array(@))"} {
		l1 := c.LibSearch(e1, doc)
		if l1.Panic != nil {
			c.Report(Violation{Rule: "C18/panic", Expr: e1, Data: fmt.Sprintf("document nested %d levels", d), Got: ShowOut(l1)})
			continue
		}
		if l1.Err != nil {
			continue
		}
		for _, e2 := range []string{"length(@)", "type(@)", "[0] || k | type(@)", "@ == @", "[@][0] | type(@)", "keys(@) || length(@)", "not_null(@) | type(@)"} {
			want := c.LibSearch("("+e1+") | "+e2, doc)
			got := c.LibSearch(e2, l1.Res)
			if !SameOutcome(want, got, false) {
				c.Report(Violation{Rule: "C18/requery", Expr: "(" + e1 + ") | " + e2, Data: fmt.Sprintf("document nested %d levels (kind %d)", d, kind), Got: ShowOut(got) + "  (Search(" + e2 + ", r1))", Want: ShowOut(want)})
			}
		}
		c.Nontrivial(e1, fmt.Sprint(d, kind))
	}
}

// big-shared: e1 passes a large array of the document through by reference while also searching it;
// e2 searches it again (membership, equality filters, sorting) with needles that are equal in value
// but not in spelling or sign: what one evaluation remembers about an array must not make the piped
// form differ from the two-step form.
func c18BigShared(c *Ctx, idx int) {
	r := c.Rand("")
	n := 32 + r.Intn(40)
	if idx%4 == 0 {
		n = 8 + r.Intn(20)
	}
	xs := make([]any, n)
	for i := range xs {
		xs[i] = json.Number(gen.Pick(r, []string{"1", "2", "3", "-7", "-7.00", "40", "1.0", "1e0", "100", "0.5", "5e-1", "12", "9007199254740993", "-1", "2.50"}))
	}
	for _, z := range []string{"0", "-0", "0.0", "-0.0", "0e3"} {
		if r.Chance(40) {
			xs[r.Intn(n)] = json.Number(z)
		}
	}
	strs := make([]any, n)
	for i := range strs {
		strs[i] = gen.Pick(r, gen.StrPool)
	}
	doc := map[string]any{"xs": xs, "strs": strs, "refund": json.Number("0"), "rate": json.Number("-1")}
	needles := []string{"`-0`", "`0`", "`0.0`", "`-7.00`", "`-7`", "`1.0`", "`1`", "`5e-1`", "`2.5`", "refund * rate", "`0` * `-1`", "'a'", "''"}
	x, y := gen.Pick(r, needles), gen.Pick(r, needles)
	if strings.Contains(y, "refund") {
		y = "`-0`" // e2 must not mention members that e1 does not pass on
	}
	e1s := []string{"{f: contains(xs, " + x + "), xs: xs, strs: strs}", "{xs: xs, n: length(xs[?@ == " + x + "]), strs: strs}", "{xs: xs, strs: strs}", "{xs: xs[*], strs: strs, g: contains(strs, " + x + ")}", "{xs: xs, f: contains(xs, " + x + "), g: contains(xs, " + y + "), strs: strs}"}
	e2s := []string{"contains(xs, " + y + ")", "[contains(xs, " + y + "), contains(xs, `0`), contains(xs, `-0`)]", "length(xs[?@ == " + y + "])", "contains(strs, " + y + ")", "xs[?@ == `0`] | length(@)", "sort(xs)[0]", "contains(xs, xs[0]) && contains(xs, " + y + ")"}
	e1 := gen.Pick(r, e1s)
	l1 := c.LibSearch(e1, doc)
	if l1.Err != nil || l1.Panic != nil {
		return
	}
	for _, e2 := range e2s {
		for _, piped := range []string{e1 + " | " + e2, "(" + e1 + ") | (" + e2 + ")"} {
			want := c.LibSearch(piped, doc)
			got := c.LibSearch(e2, l1.Res)
			if !SameOutcome(want, got, false) {
				c.Report(Violation{Rule: "C18/requery", Expr: piped, Data: clipS(gen.Describe(doc), 600), Got: ShowOut(got) + "  (Search(" + e2 + ", r1))", Want: ShowOut(want)})
			}
		}
	}
	c.Nontrivial(e1, fmt.Sprint(n), x, y)
}

// extremes: arithmetic near the ends of each numeric representation must give
// an error or a finite number, never an infinity/NaN value
func c18Extremes(c *Ctx, idx int) {
	r := c.Rand("")
	f64 := []any{1e308, -1e308, math.MaxFloat64, 1e-300, -1e-300, math.SmallestNonzeroFloat64, 1e200, 1e-200, float64(3), float64(0), 2.5e307}
	f32 := []any{float32(3e38), float32(-3e38), float32(math.MaxFloat32), float32(1e-38), float32(1e-45), float32(2), float32(0)}
	dec := []any{decimal128.MustParse("9e6144"), decimal128.MustParse("-9e6144"), decimal128.MustParse("1e-6143"), decimal128.MustParse("1e6100"), decimal128.MustParse("3"), decimal128.MustParse("0")}
	jn := []any{json.Number("9e6144"), json.Number("1e-6143"), json.Number("1e6100"), json.Number("3"), json.Number("0"), json.Number("1e400"), json.Number("1e-400"), json.Number("12e6144"), json.Number("250e6143"), json.Number("-123456789012345678e6130"), json.Number("99e6144"), json.Number("1e6145"), json.Number("-12e6144"), json.Number("0.001e6148"), json.Number("1e-6177"), json.Number("123e-6178")}
	pools := [][]any{f64, f32, dec, jn, append(append([]any{}, f64...), f32...)}
	pool := pools[idx%len(pools)]
	a, b := gen.Pick(r, pool), gen.Pick(r, pool)
	data := map[string]any{"a": a, "b": b, "xs": []any{a, b, a}}
	forms := []string{"a / b", "a * b", "a + b", "a - b", "a // b", "a % b", "-a", "abs(a)", "[a / b]", "{k: a * b}", "sum(xs)", "avg(xs)", "a * a * a", "a / b / b", "max(xs) * min(xs)", "map(&(@ * a), xs)", "xs[?@ / b > `1`]", "ceil(a / b)", "floor(a * b)", "to_number(to_string(a)) * b", "let $v = a * b in $v", "not_null(a / b)", "a * b == a * b", "max(xs)", "min(xs)", "ceil(a)", "floor(a)", "[abs(a), -a]", "sort(xs)", "max_by([{k: a}, {k: b}], &k)", "sort_by([{k: a}, {k: b}], &k)", "a", "[a, b]", "to_number(to_string(a))", "xs[?@ == a]", "a == b", "a < b"}
	for _, f := range forms {
		l := c.LibSearch(f, data)
		c.Nontrivial(f, gen.Describe(data))
		if l.Panic != nil {
			c.Report(Violation{Rule: "C18/panic", Expr: f, Data: gen.Describe(data), Got: ShowOut(l)})
			continue
		}
		if l.Err != nil {
			continue
		}
		if s := domainCheck(l.Res, "result"); s != "" {
			c.Report(Violation{Rule: "C18/domain", Expr: f, Data: gen.Describe(data), Got: gen.Describe(l.Res), Detail: s})
			continue
		}
		if _, err := json.Marshal(l.Res); err != nil {
			c.Report(Violation{Rule: "C18/marshal", Expr: f, Data: gen.Describe(data), Got: gen.Describe(l.Res), Detail: err.Error()})
		}
	}
}

func init() {
	Register(&Property{
		ID:            "C18",
		Rule:          "seeded (e1, document) pairs with e1 weighted towards functions and operators that construct values (length, find_*, arithmetic, keys, items, zip, group_by, split, to_array, map, sum, avg, literals): the result r1 is walked (only nil/bool/string/[]any/map[string]any/supported numeric kinds, no typed nils, no non-finite numbers), serialised with encoding/json and decoded again (structural view and JSON view must agree), and then re-queried with 6 of 59 inspecting expressions e2 (types, equality, sorting, indexing, arithmetic, string functions; none mentions $ or outer variables): Search(e2, r1) and Search(e2, JSON round trip of r1) must equal Search(\"(e1) | e2\", document); extremes stream: 23 arithmetic forms over operands near the ends of float64, float32, decimal128 and json.Number must return an error or finite, serialisable numbers; non-trivial = at least one e2 yields a non-null value; distinct by (e1, document); literal-results stream: JSON literals in random legal layouts (white space inside the backticks, escapes, exponent spellings) alone and inside multi-selects / pipes / function calls: the result passes the domain walk, serialises, and re-queries like its JSON round trip; deep stream: documents nested 10 .. 49990 levels deep (arrays, objects, alternating), with e1 adding levels: the result re-queries like the piped form; big-shared stream: e1 hands on arrays of 32-70 elements while searching them, e2 searches them again with needles equal in value but not in spelling or sign (zeros of both signs); requery-aliasing stream: r1 = Search(e1, d) for 3 e1, every directed copy-free ordering form as e2: Search(e2, r1) asked twice must both times equal Search('(e1) | (e2)', pristine copy); heavy stream: two stages of 35-40 million node visits each, in one pipe and in two searches; many-elements stream: 6 pairs of stages over 70000 records / groups, one search against two and against the model; number-conversions stream: every string of up to 4 (thorough 5) symbols over '0 1 9 - + . e E space' and ~280 near-numbers (leading zeros of every length, other radices, digit separators, digits of other scripts, white space around, words) through 10 forms of to_number: the result passes the domain walk (a json.Number spells a JSON number), serialises, agrees with the model and re-queries like the piped form under 10 e2",
		MinNontrivial: 2000,
		Streams: []Stream{
			{Name: "requery", N: func(c *Ctx) int { return tierN(c, 20000, 3000000) }, Run: c18Run},
			{Name: "extremes", N: func(c *Ctx) int { return tierN(c, 3000, 60000) }, Run: c18Extremes},
			{Name: "big-shared", N: func(c *Ctx) int { return tierN(c, 4000, 200000) }, Run: c18BigShared},
			{Name: "requery-aliasing", N: func(c *Ctx) int { return 3 * len(c07Directed()) }, Run: c18Aliasing, Exhaustive: true},
			{Name: "heavy", N: heavyN, Run: heavyRun("C18"), Exhaustive: true},
			{Name: "many-elements", N: func(c *Ctx) int { return 6 }, Run: manyRequery, Exhaustive: true},
			{Name: "deep", N: c18DeepN, Run: c18Deep, Exhaustive: true},
			{Name: "literal-results", N: func(c *Ctx) int { return tierN(c, 4000, 200000) }, Run: c18Literals},
			{Name: "number-conversions", N: c18NumN, Run: c18Num, Exhaustive: true},
			{Name: "null-elements", N: func(c *Ctx) int { return tierN(c, 3000, 60000) }, Run: c18Nulls},
		},
	})
}

// c18Aliasing: a result handed back as input is searched by expressions that pass one of its arrays
// to an ordering / reversing / merging builtin in every way that involves no copy (the directed list
// shared with C06/C07: fields, [*], [:], pipes, lets, not_null, to_array, a string slice handing on
// $.member, ...).  r1 = Search(e1, d) shares structure with d; Search(e2, r1), asked twice, must both
// times equal Search("(e1) | (e2)", d') on a pristine copy d' - a builtin that reorders its argument in
// place answers differently the second time.
func c18Aliasing(c *Ctx, idx int) {
	dir := c07Directed()
	e2 := dir[idx%len(dir)]
	e1 := []string{"@", "{label: label, nums: nums, strs: strs, recs: recs, nested: nested, objs: objs, big: big, bigbad: bigbad, bigstrs: bigstrs, bignums: bignums, huge: huge, hugebad: hugebad, mid: mid, midbad: midbad, eo: eo, eo2: eo2}", "merge(@, {extra: `1`})"}[idx/len(dir)]
	d, _ := ref.FromJSON(c07DirectedDoc)
	doc := ref.ToGo(d, ref.JSONNumber)
	l1 := c.LibSearch(e1, doc)
	if l1.Err != nil || l1.Panic != nil {
		return
	}
	piped := "(" + e1 + ") | (" + e2 + ")"
	want := c.LibSearch(piped, ref.ToGo(d, ref.JSONNumber))
	for call := 1; call <= 2; call++ {
		got := c.LibSearch(e2, l1.Res)
		if got.Panic != nil || want.Panic != nil {
			return
		}
		if !MultiFaultOK(ref.Search(piped, d), want, got) && !SameOutcome(want, got, Enumerates(e2)) {
			c.Report(Violation{Rule: "C18/requery", Expr: piped, Data: clipS(c07DirectedDoc, 300), Got: clipS(ShowOut(got), 300) + fmt.Sprintf("  (Search(e2, r1), call %d)", call), Want: clipS(ShowOut(want), 300), Features: map[string]string{"stream": "requery-aliasing"}})
			break
		}
	}
	c.Nontrivial(e1, e2)
}
