// Package mon holds the runtime monitors: one file per property plus the
// shared observation, comparison and reporting code.  Monitors run inside a
// child process next to the library call.
package mon

import (
	"bufio"
	"crypto/sha256"
	"encoding/binary"
	"encoding/hex"
	"encoding/json"
	"errors"
	"fmt"
	"hash/fnv"
	"os"
	"path/filepath"
	"runtime/debug"
	"sort"
	"strings"
	"sync/atomic"
	"syscall"
	"time"

	"github.com/woodsbury/jmespath"

	"verif/harness/gen"
	"verif/harness/ref"
)

// Stream is a named family of cases of one property.
type Stream struct {
	Name string
	// N returns the number of cases for a tier ("quick"/"thorough").
	N func(c *Ctx) int
	// Run executes case idx.  It must depend only on (c.Seed, idx).
	Run func(c *Ctx, idx int)
	// Exhaustive: the stream enumerates a finite space completely.
	Exhaustive bool
	// Setup runs once per process before the first case.
	Setup func(c *Ctx)
}

// Property groups the streams that decide one property.
type Property struct {
	ID      string
	Rule    string // how cases are generated / what makes one non-trivial
	Streams []Stream
	// MinNontrivial: below this many distinct non-trivial cases the run is
	// inconclusive.
	MinNontrivial int
}

var Registry = map[string]*Property{}

func Register(p *Property) { Registry[p.ID] = p }

// Ctx is the per-process monitor context.
type Ctx struct {
	Prop   string
	Tier   string
	Seed   int64
	Batch  int
	NBatch int
	OutDir string

	stream string
	idx    int

	ev        *bufio.Writer
	evFile    *os.File
	hashes    *bufio.Writer
	hashFile  *os.File
	intent    []byte
	seen      map[uint64]struct{}
	Counters  map[string]int64
	samples   []any
	nViol     int
	violByRul map[string]int
	Verbose   bool

	sinceStats int
	caseStart  atomic.Int64
	// CaseTimeout: wall-clock watchdog per case (0: 120 s).  Its firing is
	// never a verdict: the driver records the case as not judged.
	CaseTimeout time.Duration
}

// StartWatchdog starts the per-case wall-clock watchdog.
func (c *Ctx) StartWatchdog() {
	to := c.CaseTimeout
	if to == 0 {
		to = 120 * time.Second
	}
	go func() {
		for {
			time.Sleep(500 * time.Millisecond)
			st := c.caseStart.Load()
			if st != 0 && time.Since(time.Unix(0, st)) > to {
				fmt.Printf("CASE-TIMEOUT stream=%s idx=%d after %v\n", c.stream, c.idx, to)
				os.Exit(4)
			}
		}
	}()
}

const intentSize = 1 << 16

// NewCtx opens the event log, the hash log and the intent slot.
func NewCtx(prop, tier string, seed int64, batch, nbatch int, outDir string, part int) (*Ctx, error) {
	c := &Ctx{Prop: prop, Tier: tier, Seed: seed, Batch: batch, NBatch: nbatch, OutDir: outDir,
		seen: map[uint64]struct{}{}, Counters: map[string]int64{}, violByRul: map[string]int{}}
	f, err := os.Create(filepath.Join(outDir, fmt.Sprintf("events.%d.%d.jsonl", batch, part)))
	if err != nil {
		return nil, err
	}
	c.evFile = f
	c.ev = bufio.NewWriter(f)
	h, err := os.Create(filepath.Join(outDir, fmt.Sprintf("hashes.%d.%d.bin", batch, part)))
	if err != nil {
		return nil, err
	}
	c.hashFile = h
	c.hashes = bufio.NewWriterSize(h, 1<<16)
	ip := filepath.Join(outDir, fmt.Sprintf("intent.%d", batch))
	fi, err := os.OpenFile(ip, os.O_RDWR|os.O_CREATE|os.O_TRUNC, 0o644)
	if err != nil {
		return nil, err
	}
	if err := fi.Truncate(intentSize); err != nil {
		return nil, err
	}
	m, err := syscall.Mmap(int(fi.Fd()), 0, intentSize, syscall.PROT_READ|syscall.PROT_WRITE, syscall.MAP_SHARED)
	if err != nil {
		return nil, err
	}
	fi.Close()
	c.intent = m
	return c, nil
}

// Close flushes everything and writes the final stats record.
func (c *Ctx) Close() {
	c.Intent("", "")
	c.emitStats()
	c.ev.Flush()
	c.evFile.Close()
	c.hashes.Flush()
	c.hashFile.Close()
}

// emitStats writes a cumulative stats record; the driver uses the last one of
// each event log, so a child that dies later still accounts for what it ran.
func (c *Ctx) emitStats() {
	c.emit(map[string]any{"kind": "stats", "batch": c.Batch, "counters": c.Counters, "samples": c.samples, "nontrivial_local": len(c.seen)})
	c.ev.Flush()
	c.hashes.Flush()
}

func (c *Ctx) emit(rec map[string]any) {
	b, err := json.Marshal(rec)
	if err != nil {
		b, _ = json.Marshal(map[string]any{"kind": "harness-error", "err": err.Error()})
	}
	c.ev.Write(b)
	c.ev.WriteByte('\n')
}

// Intent records what is about to be executed in the crash-surviving slot
// (a MAP_SHARED page: it outlives a fatal error of this process).
func (c *Ctx) Intent(expr, note string) {
	b := c.intent
	hdr := fmt.Sprintf("%s\x00%d\x00%s\x00", c.stream, c.idx, note)
	n := copy(b[8:], hdr)
	max := intentSize - 8 - n
	e := expr
	if len(e) > max {
		e = e[:max]
	}
	m := copy(b[8+n:], e)
	binary.LittleEndian.PutUint32(b[0:], uint32(n+m))
	binary.LittleEndian.PutUint32(b[4:], uint32(len(expr)))
}

// Rand returns the PRNG of the current case (optionally a named sub-stream).
func (c *Ctx) Rand(sub string) *gen.R {
	return gen.New(c.Seed, c.Prop+"/"+c.stream+"/"+sub, c.idx)
}

// Count adds to a named counter.
func (c *Ctx) Count(key string, n int64) { c.Counters[key] += n }

// Eval counts one evaluation (an execution of the real library).
func (c *Ctx) Eval() { c.Counters["evaluations"]++ }

// Nontrivial records a distinct non-trivial case by its hash.
func (c *Ctx) Nontrivial(parts ...string) {
	h := fnv.New64a()
	for _, p := range parts {
		h.Write([]byte(p))
		h.Write([]byte{0})
	}
	x := h.Sum64()
	if _, ok := c.seen[x]; ok {
		return
	}
	c.seen[x] = struct{}{}
	var b [8]byte
	binary.LittleEndian.PutUint64(b[:], x)
	c.hashes.Write(b[:])
}

// Sample keeps a few actual cases for the evidence file.
func (c *Ctx) Sample(v any) {
	if len(c.samples) < 4 {
		c.samples = append(c.samples, v)
	}
}

// Violation is what a monitor reports.
type Violation struct {
	Rule     string            `json:"rule"`
	Expr     string            `json:"expr,omitempty"`
	Data     string            `json:"data,omitempty"`
	Got      string            `json:"got,omitempty"`
	Want     string            `json:"want,omitempty"`
	Detail   string            `json:"detail,omitempty"`
	Features map[string]string `json:"features,omitempty"`
}

const maxViolPerRule = 12

// Report emits a violation record (capped per rule; all are counted).
func (c *Ctx) Report(v Violation) {
	c.nViol++
	c.Counters["violations"]++
	c.Counters["violations:"+v.Rule]++
	c.violByRul[v.Rule+featKey(v.Features)]++
	if c.violByRul[v.Rule+featKey(v.Features)] > maxViolPerRule {
		return
	}
	clip := func(s string) string {
		if len(s) > 4000 {
			return s[:4000] + fmt.Sprintf("...(%d bytes)", len(s))
		}
		return s
	}
	rec := map[string]any{"kind": "violation", "prop": c.Prop, "rule": v.Rule, "stream": c.stream, "idx": c.idx,
		"seed": c.Seed, "tier": c.Tier, "expr": clip(v.Expr), "data": clip(v.Data), "got": clip(v.Got), "want": clip(v.Want), "detail": clip(v.Detail), "features": v.Features}
	if len(v.Expr) > 4000 {
		sum := sha256.Sum256([]byte(v.Expr))
		rec["expr_sha256"] = hex.EncodeToString(sum[:])
		rec["expr_len"] = len(v.Expr)
	}
	c.emit(rec)
	c.ev.Flush()
}

func featKey(f map[string]string) string {
	if len(f) == 0 {
		return ""
	}
	ks := make([]string, 0, len(f))
	for k := range f {
		ks = append(ks, k)
	}
	sort.Strings(ks)
	var b strings.Builder
	for _, k := range ks {
		b.WriteString("|" + k + "=" + f[k])
	}
	return b.String()
}

// RunStreams runs this batch's share of every stream of the property.
// only: "stream:idx" restricts to a single case (replay).
// resume: "stream:idx" continues after that case (after a child death).
func (c *Ctx) RunStreams(p *Property, only, resume string) {
	resStream, resIdx := "", -1
	if resume != "" {
		parts := strings.SplitN(resume, ":", 2)
		resStream = parts[0]
		fmt.Sscanf(parts[1], "%d", &resIdx)
	}
	skipping := resStream != ""
	for _, s := range p.Streams {
		c.stream = s.Name
		if only != "" {
			parts := strings.SplitN(only, ":", 2)
			if parts[0] != s.Name {
				continue
			}
			var idx int
			fmt.Sscanf(parts[1], "%d", &idx)
			if s.Setup != nil {
				s.Setup(c)
			}
			c.idx = idx
			c.runCase(s, idx)
			continue
		}
		from := c.Batch
		if skipping {
			if s.Name != resStream {
				continue
			}
			skipping = false
			from = resIdx + c.NBatch
		}
		n := s.N(c)
		if s.Setup != nil {
			s.Setup(c)
		}
		for idx := from; idx < n; idx += c.NBatch {
			c.idx = idx
			c.runCase(s, idx)
			c.Counters["stream_cases:"+s.Name]++
			c.sinceStats++
			if c.sinceStats >= 2000 {
				c.sinceStats = 0
				c.emitStats()
			}
		}
		if s.Exhaustive && c.Batch == 0 && resume == "" {
			c.Counters["exhaustive:"+s.Name] = int64(n)
		}
	}
}

// ---------------------------------------------------------------------------
// Observing the library

// LibOut is one observed call.
type LibOut struct {
	Panic   any
	Stack   string
	Err     error
	Cats    ref.Cat // categories the error matches under errors.Is
	NCats   int
	Res     any
	M       ref.V // model view of Res (when MErr == nil)
	MErr    error
	ErrText string
}

var sentinels = []struct {
	e error
	c ref.Cat
}{
	{jmespath.ErrSyntax, ref.CatSyntax},
	{jmespath.ErrInvalidArity, ref.CatArity},
	{jmespath.ErrUnknownFunction, ref.CatUnknownFn},
	{jmespath.ErrInvalidType, ref.CatType},
	{jmespath.ErrInvalidValue, ref.CatValue},
	{jmespath.ErrUndefinedVariable, ref.CatUndefVar},
	{jmespath.ErrNotANumber, ref.CatNaN},
	{jmespath.ErrEvaluationFailed, ref.CatEvalFailed},
}

// Classify returns the set of exported categories err matches.
func Classify(err error) (ref.Cat, int) {
	var cs ref.Cat
	n := 0
	for _, s := range sentinels {
		if errors.Is(err, s.e) {
			cs |= s.c
			n++
		}
	}
	return cs, n
}

// Observe runs fn, recovering panics, and classifies the outcome.
func Observe(fn func() (any, error)) (out LibOut) {
	defer func() {
		if r := recover(); r != nil {
			out.Panic = r
			out.Stack = string(debug.Stack())
		}
	}()
	res, err := fn()
	out.Res, out.Err = res, err
	if err != nil {
		out.Cats, out.NCats = Classify(err)
		out.ErrText = safeErrText(err)
		return out
	}
	out.M, out.MErr = ref.FromGo(res)
	return out
}

func safeErrText(err error) (s string) {
	defer func() {
		if r := recover(); r != nil {
			s = fmt.Sprintf("<Error() panicked: %v>", r)
		}
	}()
	return err.Error()
}

// LibSearch observes jmespath.Search.
func (c *Ctx) LibSearch(expr string, data any) LibOut {
	c.Intent(expr, "Search")
	c.Eval()
	return Observe(func() (any, error) { return jmespath.Search(expr, data) })
}

// LibCompile observes jmespath.Compile.
func (c *Ctx) LibCompile(expr string) (*jmespath.Expression, LibOut) {
	c.Intent(expr, "Compile")
	c.Eval()
	var e *jmespath.Expression
	o := Observe(func() (any, error) {
		x, err := jmespath.Compile(expr)
		e = x
		return nil, err
	})
	return e, o
}

// LibExprSearch observes (*Expression).Search.
func (c *Ctx) LibExprSearch(e *jmespath.Expression, expr string, data any) LibOut {
	c.Intent(expr, "Expression.Search")
	c.Eval()
	return Observe(func() (any, error) { return e.Search(data) })
}

// ShowOut renders a library outcome.
func ShowOut(o LibOut) string {
	switch {
	case o.Panic != nil:
		return fmt.Sprintf("PANIC: %v", o.Panic)
	case o.Err != nil:
		return fmt.Sprintf("error[%s]: %s", o.Cats, o.ErrText)
	case o.MErr != nil:
		return fmt.Sprintf("value outside the JSON domain (%v): %s", o.MErr, gen.Describe(o.Res))
	}
	return ref.Show(o.M)
}

// Agree compares a library outcome with the model's verdict.
// Returns (judged, ok, why).
func Agree(m ref.Outcome, l LibOut) (judged bool, ok bool, why string) {
	if m.Unspec {
		return false, true, ""
	}
	if l.Panic != nil {
		return true, false, "panic"
	}
	if l.Err != nil {
		if l.NCats != 1 {
			return true, false, fmt.Sprintf("error matches %d categories", l.NCats)
		}
		if m.Fault&l.Cats != 0 || m.OptFault&l.Cats != 0 {
			return true, true, ""
		}
		if m.Fault != 0 {
			return true, false, "wrong error category"
		}
		return true, false, "unexpected error"
	}
	if m.Fault != 0 {
		return true, false, "missing error"
	}
	if l.MErr != nil {
		return true, false, "result outside the JSON domain"
	}
	if !ref.Match(m.Val, l.M) {
		return true, false, "wrong value"
	}
	return true, true, ""
}

// SameOutcome compares two library outcomes (values canonically, errors by
// category).  loose: arrays are compared as multisets (used when the
// expression enumerates object members, whose order may vary per call).
func SameOutcome(a, b LibOut, loose bool) bool {
	if (a.Panic != nil) != (b.Panic != nil) {
		return false
	}
	if a.Panic != nil {
		return true
	}
	if (a.Err != nil) != (b.Err != nil) {
		return false
	}
	if a.Err != nil {
		return a.Cats == b.Cats
	}
	if (a.MErr != nil) != (b.MErr != nil) {
		return false
	}
	if a.MErr != nil {
		return true
	}
	if loose {
		return ref.Match(Loosen(a.M), b.M)
	}
	return ref.Match(a.M, b.M)
}

// Loosen marks every array of v as unordered (copy).
func Loosen(v ref.V) ref.V {
	switch v := v.(type) {
	case *ref.Arr:
		a := &ref.Arr{E: make([]ref.V, len(v.E)), Unordered: true}
		for i, e := range v.E {
			a.E[i] = Loosen(e)
		}
		return a
	case *ref.Obj:
		o := ref.NewObj()
		for _, k := range v.Keys {
			o.Set(k, Loosen(v.M[k]))
		}
		return o
	}
	return v
}

// Enumerates reports whether the expression enumerates object members
// (object wildcard, keys, values, items): decided on the reference AST; for
// texts the reference parser does not accept, a crude textual test.
func Enumerates(text string) bool {
	if v, ok := enumCache[text]; ok {
		return v
	}
	pr := ref.Parse(text)
	var res bool
	if pr.Status == ref.ParseOK {
		res = astEnumerates(pr.Node)
	} else {
		// not judged by the reference parser: be conservative
		res = strings.Contains(text, "*") || strings.Contains(text, "keys") || strings.Contains(text, "values") || strings.Contains(text, "items")
	}
	if len(enumCache) > 50000 {
		enumCache = map[string]bool{}
	}
	enumCache[text] = res
	return res
}

var enumCache = map[string]bool{}

func astEnumerates(n *ref.Node) bool {
	if n == nil {
		return false
	}
	if n.Kind == ref.NValProj {
		return true
	}
	if n.Kind == ref.NFunc && (n.Name == "keys" || n.Name == "values" || n.Name == "items") {
		return true
	}
	for _, k := range n.Kids {
		if astEnumerates(k) {
			return true
		}
	}
	return false
}

// runCase runs one case; a panic that escapes here is a defect of the harness
// itself (library panics are recovered inside Observe): say so and stop, the
// driver turns it into an inconclusive verdict.
func (c *Ctx) runCase(s Stream, idx int) {
	c.caseStart.Store(time.Now().UnixNano())
	defer c.caseStart.Store(0)
	defer func() {
		if r := recover(); r != nil {
			fmt.Printf("HARNESS-PANIC stream=%s idx=%d: %v\n%s\n", s.Name, idx, r, debug.Stack())
			c.ev.Flush()
			os.Exit(3)
		}
	}()
	s.Run(c, idx)
}

// MultiFaultOK: two failing outcomes with different categories are acceptable
// when the model lists both categories (several faults are present and the
// property lets either be reported), or when the model does not judge the
// text at all (then only the fact that both fail is compared).
func MultiFaultOK(m ref.Outcome, a, b LibOut) bool {
	if a.Err == nil || b.Err == nil {
		return false
	}
	if m.Unspec {
		return true
	}
	return m.Fault&a.Cats != 0 && m.Fault&b.Cats != 0
}
