package mon

import (
	"fmt"
	"strings"
)

// c15SiblingScopeForms: members of one multi-select hash (or bindings of one let) are evaluated in
// map order; a let inside one member must not be visible to its siblings - not its names, not the
// values it gave them. Each form puts single- and multi-binding lets into some members and reads
// the same names (bound further out, or nowhere) from the siblings, under 0..2 enclosing lets that
// do or do not bind those names. The outcome (a value or an undefined-variable error) must be the
// same on every repetition, whatever order the members were evaluated in.
func c15SiblingScopeForms() []string {
	var out []string
	outers := []string{"", "let $o = a in ", "let $t = 'T' in ", "let $o = a, $p = b in ", "let $t = 'T' in let $o = a, $p = b in ", "let $o = a in let $t = 'T' in ", "let $t = 'T', $u = 'U' in let $o = a in ", "rs[*].", "let $o = a in rs[:2].", "let $t = 'T' in let $o = a in rs[:2]."}
	bodies := []string{
		"{x: let $t = b in $t, y: $t}",
		"{x: let $t = b in [$t], y: [$t], z: let $u = c in $u, w: $u}",
		"{x: let $t = b in $t, y: let $u = c in [$t, $u]}",
		"{x: let $t = b, $u = c in [$t, $u], y: $t, z: $u}",
		"{p: (let $t = b in $t), q: {r: $t}}",
		"{x: [let $t = b in let $u = c in [$t, $u]], y: $u, z: $t}",
		"{x: let $t = b in {i: $t, j: let $u = $t in $u}, y: $t, z: $u}",
		"let $q = (let $t = b in $t), $r = $t in [$q, $r]",
		"let $q = (let $t = b in $t), $r = (let $u = c in [$u]), $s = [$t, $u] in [$q, $r, $s]",
		"{x: not_null(let $t = b in $t, 'n'), y: not_null($t, 'n')}",
		"{x: rs[*].[let $t = id in $t], y: $t}",
		"{x: map(&(let $t = @ in $t), [a, b]), y: $t}",
		"{x: let $t = b in $t, y: $o, z: $t}",
	}
	for _, o := range outers {
		for _, b := range bodies {
			out = append(out, o+b)
		}
	}
	// wider hashes: the more members, the more evaluation orders
	for n := 3; n <= 9; n += 3 {
		var m []string
		for i := 0; i < n; i++ {
			m = append(m, fmt.Sprintf("m%d: let $v%d = %s in $v%d, r%d: $v%d", i, i, []string{"a", "b", "c"}[i%3], i, i, (i+1)%n))
		}
		out = append(out, "{"+strings.Join(m, ", ")+"}", "let $o = a in {"+strings.Join(m, ", ")+"}", "let $v0 = 'V' in let $o = a in {"+strings.Join(m, ", ")+"}")
	}
	return out
}

func init() { c15Forms = append(c15Forms, c15SiblingScopeForms()...) }
