package mon

import (
	"encoding/json"
	"fmt"
	"strings"

	"github.com/woodsbury/decimal128"

	"verif/harness/gen"
	"verif/harness/ref"
)

var c20PoolText = []string{
	`1e-400`, `2e-400`, `4e-324`, `5e-324`, `1e400`, `1e-6000`, `[1e-400]`, `{"a":2e-400}`, `0.1e-399`,
	`1844674407370955162`, `0.4`, `184467440737095517`, `0.84`, `18446744073709552`, `0.384`, `184467440737096`, `0.48384`, `922337203685477581`, `0.2`, `92233720368547759`, `0.92`, `9223372036854776`, `0.192`, `92233720368548`, `0.24192`, `429496730`, `42949673`, `0.04`, `4294968`, `0.704`, `42950`, `0.32704`,
	`9223372036854775807`, `9223372036854775808`, `-9223372036854775808`, `9999999999999999999`, `-8446744073709551617`, `18446744073709551615`, `18446744073709551616`, `-1.0`, `[9223372036854775808]`, `{"a":-9223372036854775808}`,
	`null`, `true`, `false`, `0`, `1`, `-1`, `1.0`, `1e0`, `10e-1`, `100`, `1e2`, `0.1`, `0.10`, `-0`, `0.0`, `2`, `9007199254740993`, `9007199254740992`,
	`""`, `"0"`, `"1"`, `"true"`, `"false"`, `"null"`, `"a"`, `"A"`, `"é"`, `"é"`, `" "`, `"[]"`, `"{}"`,
	`[]`, `[null]`, `[[]]`, `[0]`, `[1]`, `[1.0]`, `["1"]`, `[1,2]`, `[2,1]`, `[1,2,3]`, `[1,[2]]`, `[1,[2.0]]`, `[[1],2]`, `[true]`, `[false]`, `[""]`, `[{}]`, `[{"a":1}]`,
	`{}`, `{"a":null}`, `{"a":1}`, `{"a":1.0}`, `{"a":"1"}`, `{"b":1}`, `{"a":1,"b":2}`, `{"b":2,"a":1}`, `{"a":1,"b":3}`, `{"a":{"b":[1,2]}}`, `{"a":{"b":[1,2.0]}}`, `{"a":{"b":[2,1]}}`, `{"a":[]}`, `{"a":{}}`, `{"":0}`,
}

var c20Pool []ref.V

func c20Setup(c *Ctx) {
	if c20Pool != nil {
		return
	}
	for _, t := range c20PoolText {
		v, err := ref.FromJSON(t)
		if err != nil {
			panic(t + ": " + err.Error())
		}
		c20Pool = append(c20Pool, v)
	}
}

// number carriers: each converts a number only when the kind holds it exactly
var c20Carriers = []ref.NumMode{
	func(n ref.Num) any {
		if f, exact := n.R.Float64(); exact {
			return f
		}
		return ref.JSONNumber(n)
	},
	func(n ref.Num) any {
		if n.R.IsInt() && n.R.Num().IsInt64() {
			return n.R.Num().Int64()
		}
		return ref.JSONNumber(n)
	},
	func(n ref.Num) any {
		if ref.ExactDec(n) {
			if d, err := decimal128.Parse(ref.NumText(n)); err == nil {
				return d
			}
		}
		return ref.JSONNumber(n)
	},
	func(n ref.Num) any {
		if f, exact := n.R.Float64(); exact && float64(float32(f)) == f {
			return float32(f)
		}
		return ref.JSONNumber(n)
	},
	func(n ref.Num) any {
		if n.R.IsInt() && n.R.Num().IsUint64() {
			return n.R.Num().Uint64()
		}
		return ref.JSONNumber(n)
	},
}

func lit(i int) string { return "`" + c20PoolText[i] + "`" }

// libBool evaluates text and returns the boolean result.
func (c *Ctx) libBool(text string, data any) (bool, bool) {
	l := c.LibSearch(text, data)
	if l.Panic != nil || l.Err != nil {
		c.Report(Violation{Rule: "C20/unexpected-failure", Expr: text, Data: gen.Describe(data), Got: ShowOut(l)})
		return false, false
	}
	b, ok := l.Res.(bool)
	if !ok {
		c.Report(Violation{Rule: "C20/not-a-boolean", Expr: text, Data: gen.Describe(data), Got: ShowOut(l)})
		return false, false
	}
	return b, true
}

func c20Pairs(c *Ctx, idx int) {
	n := len(c20Pool)
	i, j := idx/n, idx%n
	x, y := c20Pool[i], c20Pool[j]
	want, ok := ref.Equal(x, y)
	if !ok {
		return
	}
	doc := ref.NewObj()
	doc.Set("x", x)
	doc.Set("y", y)
	doc.Set("ys", &ref.Arr{E: []ref.V{"pad", y, "pad2"}})
	doc.Set("ns", &ref.Arr{E: []ref.V{"pad", nil}})
	goDoc := ref.ToGo(doc, ref.JSONNumber)
	pair := c20PoolText[i] + " vs " + c20PoolText[j]
	check := func(text string, want bool, rule string) {
		got, ok := c.libBool(text, goDoc)
		if ok && got != want {
			c.Report(Violation{Rule: rule, Expr: text, Data: ref.ToJSONText(doc), Got: fmt.Sprint(got), Want: fmt.Sprint(want), Detail: pair})
		}
	}
	// the same relation when the numbers travel in other Go kinds (each where it holds the value
	// exactly): x as float64 / int64 against y as json.Number or decimal128, and both converted
	for ci, carrier := range c20Carriers {
		alt := map[string]any{"x": ref.ToGo(x, carrier), "y": ref.ToGo(y, c20Carriers[(ci+1+i+j)%len(c20Carriers)]), "ys": []any{"pad", ref.ToGo(y, carrier), "pad2"}}
		for _, t := range []struct {
			text string
			want bool
			rule string
		}{{"x == y", want, "C20/equality"}, {"y == x", want, "C20/symmetry"}, {"x != y", !want, "C20/negation"}, {"contains(ys, x)", want, "C20/contains"}, {"x == " + lit(j), want, "C20/equality"}, {lit(i) + " == y", want, "C20/equality"}, {"[x] == [y]", want, "C20/container-equality"}, {"length(ys[?@ == $.x]) == `1`", want && y != nil, "C20/filter-equality"}} {
			got, ok := c.libBool(t.text, alt)
			if ok && got != t.want {
				c.Report(Violation{Rule: t.rule, Expr: t.text, Data: gen.Describe(alt), Got: fmt.Sprint(got), Want: fmt.Sprint(t.want), Detail: pair, Features: map[string]string{"carrier": fmt.Sprint(ci)}})
			}
		}
	}
	check("x == y", want, "C20/equality")
	check("y == x", want, "C20/symmetry")
	check("x != y", !want, "C20/negation")
	check(lit(i)+" == "+lit(j), want, "C20/equality")
	check(lit(i)+" != y", !want, "C20/negation")
	check("x == "+lit(j), want, "C20/equality")
	check("contains(ys, x)", want, "C20/contains")
	check("contains(`["+c20PoolText[j]+", \"pad\"]`, x)", want, "C20/contains")
	if x != nil {
		check("contains(ns, x)", false, "C20/contains")
	}
	check("length(ys[?@ == $.x]) == `1`", want && y != nil, "C20/filter-equality")
	check("[x] == [y]", want, "C20/container-equality")
	check("{k: x} == {k: y}", want, "C20/container-equality")
	check("{k: x, j: `1`} == {j: `1`, k: y}", want, "C20/container-equality")
	check("[x, y] == [y, x]", want, "C20/container-equality")
	// one container standing at several places of an operand (results share structure)
	check("[x, x] == [x, y]", want, "C20/container-equality")
	check("[x, y] == [x, x]", want, "C20/container-equality")
	check("[y, y, y] == [y, y, x]", want, "C20/container-equality")
	check("{p: x, q: x} == {p: x, q: y}", want, "C20/container-equality")
	check("{p: x, q: y} == {q: x, p: x}", want, "C20/container-equality")
	check("contains([[x, x]], [x, y])", want, "C20/contains")
	check("[[x, x], [x, x]] == [[x, x], [x, y]]", want, "C20/container-equality")
	check("let $v = x in [$v, $v] != [$v, y]", !want, "C20/negation")
	check("length([[x, x]][?@ == [$.x, $.y]]) == `1`", want, "C20/filter-equality")
	if i == j {
		check("x == x", true, "C20/reflexivity")
		check("x != x", false, "C20/reflexivity")
	}
	c.Nontrivial(pair)
	if idx%211 == 0 {
		c.Sample(map[string]any{"x": c20PoolText[i], "y": c20PoolText[j], "equal": want})
	}
}

func c20Triples(c *Ctx, idx int) {
	n := len(c20Pool)
	if c.Tier != "thorough" {
		r := c.Rand("")
		idx = r.Intn(n * n * n)
	}
	i, j, k := idx/(n*n), (idx/n)%n, idx%n
	doc := ref.NewObj()
	doc.Set("x", c20Pool[i])
	doc.Set("y", c20Pool[j])
	doc.Set("z", c20Pool[k])
	goDoc := ref.ToGo(doc, ref.JSONNumber)
	xy, ok1 := c.libBool("x == y", goDoc)
	yz, ok2 := c.libBool("y == z", goDoc)
	xz, ok3 := c.libBool("x == z", goDoc)
	if ok1 && ok2 && ok3 && xy && yz && !xz {
		c.Report(Violation{Rule: "C20/transitivity", Expr: "x == y && y == z but not x == z", Data: ref.ToJSONText(doc)})
	}
	if xy || yz {
		c.Nontrivial(fmt.Sprint(i, j, k))
	}
}

func falseLike(v ref.V) bool { return !ref.Truthy(v) }

func c20Truth(c *Ctx, idx int) {
	n := len(c20Pool)
	i, j := idx/n, idx%n
	v, w := c20Pool[i], c20Pool[j]
	doc := ref.NewObj()
	doc.Set("v", v)
	doc.Set("w", w)
	doc.Set("vs", &ref.Arr{E: []ref.V{v, w}})
	goDoc := ref.ToGo(doc, ref.JSONNumber)
	fl := falseLike(v)
	vt := c20PoolText[i]
	eq := func(text string, want ref.V, rule string) {
		l := c.LibSearch(text, goDoc)
		if l.Panic != nil || l.Err != nil || l.MErr != nil || !ref.Match(want, l.M) {
			c.Report(Violation{Rule: rule, Expr: text, Data: ref.ToJSONText(doc), Got: ShowOut(l), Want: ref.Show(want)})
		}
	}
	eq("!v", fl, "C20/truthiness-not")
	eq("!"+lit(i), fl, "C20/truthiness-not")
	eq("!!v", !fl, "C20/truthiness-not")
	// && and || return one of their operands unchanged
	if fl {
		eq("v && w", v, "C20/and-or-operand")
		eq("v || w", w, "C20/and-or-operand")
		eq(lit(i)+" && 'T'", v, "C20/and-or-operand")
		eq(lit(i)+" || 'F'", "F", "C20/and-or-operand")
	} else {
		eq("v && w", w, "C20/and-or-operand")
		eq("v || w", v, "C20/and-or-operand")
		eq(lit(i)+" && 'T'", "T", "C20/and-or-operand")
		eq(lit(i)+" || 'F'", v, "C20/and-or-operand")
	}
	// filter predicates use the same rule
	keep := &ref.Arr{E: []ref.V{}}
	for _, e := range []ref.V{v, w} {
		if !falseLike(e) {
			keep.E = append(keep.E, e)
		}
	}
	eq("vs[?@]", keep, "C20/truthiness-filter")
	notKeep := &ref.Arr{E: []ref.V{}}
	for _, e := range []ref.V{v, w} {
		if falseLike(e) && e != nil {
			notKeep.E = append(notKeep.E, e)
		}
	}
	eq("vs[?!@]", notKeep, "C20/truthiness-filter")
	one := &ref.Arr{E: []ref.V{}}
	if !fl {
		one.E = append(one.E, "hit")
	}
	eq("[`1`][?$.v].to_array('hit')[]", one, "C20/truthiness-filter")
	eq("[`1`][?"+lit(i)+"] | length(@)", gen.IntV(int64(len(one.E))), "C20/truthiness-filter")
	eq("(v && `true`) == `true`", !fl, "C20/truthiness-and")
	c.Nontrivial(vt, c20PoolText[j])
}

// random nested values with one controlled perturbation
func c20Random(c *Ctx, idx int) {
	r := c.Rand("")
	x := gen.Doc(r, 3)
	y := gen.Clone(x)
	kind := r.Intn(4)
	switch kind {
	case 0: // identical
	case 1: // respell numbers / reorder members: still equal
		y = respell(r, y)
	case 2: // change one leaf
		y = perturb(r, y)
	case 3:
		y = gen.Doc(r, 2)
	}
	want, ok := ref.Equal(x, y)
	if !ok {
		return
	}
	doc := ref.NewObj()
	doc.Set("x", x)
	doc.Set("y", y)
	goDoc := ref.ToGo(doc, ref.JSONNumber)
	for _, t := range []struct {
		text string
		want bool
		rule string
	}{{"x == y", want, "C20/equality"}, {"y == x", want, "C20/symmetry"}, {"x != y", !want, "C20/negation"}, {"contains([y], x)", want, "C20/contains"}, {"x == x && y == y", true, "C20/reflexivity"}} {
		got, ok := c.libBool(t.text, goDoc)
		if ok && got != t.want {
			c.Report(Violation{Rule: t.rule, Expr: t.text, Data: ref.ToJSONText(doc), Got: fmt.Sprint(got), Want: fmt.Sprint(t.want), Features: map[string]string{"perturbation": fmt.Sprint(kind)}})
		}
	}
	c.Nontrivial(ref.ToJSONText(doc))
}

// c20Matrix: the same comparison node evaluated many times with different
// operands inside ONE evaluation (operands rebound per element through let,
// the current node, or a pipe), so anything remembered per node or per
// evaluation from the first operands shows on the later ones.
var c20MatrixForms = []string{
	"pool[*].[let $x = @ in $.pool[*].[@ == $x, $x != @]]",
	"pool[*].[let $x = @ in $.pool[*].[$x == @]]",
	"map(&[let $x = @ in map(&($x == @), $.pool)], pool)",
	"pool[*].[let $x = @ in length($.pool[?@ == $x])]",
	"pool[*].[let $x = @ in length($.pool[?$x != @])]",
	"pool[*].[let $x = @, $y = [@] in $.pool[*].[[@] == $y, {k: @} == {k: $x}]]",
	"pool[*].[let $x = @ in $.pool[*].[contains([$x], @), contains([@, `0`], $x)]]",
	"pool[*].[let $x = @ in $.pool[*].[!(@ == $x), @ == $x && `true`, @ == $x || `false`]]",
	"pool[*].[let $x = @ in [!$x, $x && `1`, $x || `2`, $.pool[?$x] | length(@)]]",
	"pool[*].[@ == $.pool[0], @ == $.pool[1], @ != $.pool[-1]]",
	"pool[*].[let $x = @ in $.pool[*].[let $y = @ in $x == $y]]",
}

func c20Matrix(c *Ctx, idx int) {
	r := c.Rand("")
	n := 4 + r.Intn(9)
	if idx%5 == 4 {
		n = 33 + r.Intn(40) // above the sizes where a membership test might switch to an index
	}
	pool := &ref.Arr{E: make([]ref.V, 0, n)}
	for len(pool.E) < n {
		v := c20Pool[r.Intn(len(c20Pool))]
		if _, ok := ref.Equal(v, v); !ok {
			continue // numbers a decimal128 cannot hold: not judged
		}
		if v == nil && r.Chance(70) {
			continue // null elements are dropped by projections; keep them rare
		}
		pool.E = append(pool.E, v)
		if r.Chance(30) {
			pool.E = append(pool.E, respell(r, gen.Clone(v)))
		}
	}
	if idx%5 == 4 {
		for _, z := range []string{"0", "-0", "0.0", "-0.0", "0e5", "1", "1.0", "-1"} {
			if r.Chance(50) {
				pool.E[r.Intn(len(pool.E))] = gen.Num(z)
			}
		}
	}
	doc := ref.NewObj()
	doc.Set("pool", pool)
	goDoc := ref.ToGo(doc, ref.JSONNumber)
	text := c20MatrixForms[idx%len(c20MatrixForms)]
	if idx%5 == 4 {
		text = gen.Pick(r, []string{"[contains(pool, `-0`), contains(pool, `0`), contains(pool, `0.0`), contains(pool, `-0.0`), contains(pool, `1.0`), contains(pool, `-1.0`)]", "pool[*].[contains($.pool, @)]", "{first: contains(pool, `7`), again: contains(pool, `-0`), third: contains(pool, `0`), pool: pool} | [again, third, contains(pool, `-0.0`)]", "[contains(pool, `0`), contains(pool, `-0`)] == [contains(pool, `-0`), contains(pool, `0`)]", "pool[?contains($.pool, @)] | length(@)", "let $z = `0` * `-1` in [contains(pool, $z), contains(pool, `0`)]"})
	}
	m, _ := c.CheckModel("C20", text, doc, goDoc, CheckOpts{Compiled: idx%2 == 0, Features: map[string]string{"form": "matrix"}})
	if !m.Unspec {
		c.Nontrivial(text, ref.ToJSONText(doc))
	}
}

func respell(r *gen.R, v ref.V) ref.V {
	switch x := v.(type) {
	case ref.Num:
		if x.R.IsInt() && x.R.Num().IsInt64() {
			i := x.R.Num().Int64()
			if i > -1000 && i < 1000 && i != 0 {
				return gen.Num(gen.Pick(r, []string{fmt.Sprintf("%d.0", i), fmt.Sprintf("%de0", i), fmt.Sprintf("%d0e-1", i), fmt.Sprintf("%d", i)}))
			}
		}
		return x
	case *ref.Arr:
		a := &ref.Arr{E: make([]ref.V, len(x.E))}
		for i, e := range x.E {
			a.E[i] = respell(r, e)
		}
		return a
	case *ref.Obj:
		o := ref.NewObj()
		ks := append([]string{}, x.Keys...)
		gen.Shuffle(r, ks)
		for _, k := range ks {
			o.Set(k, respell(r, x.M[k]))
		}
		return o
	}
	return v
}

func perturb(r *gen.R, v ref.V) ref.V {
	switch x := v.(type) {
	case *ref.Arr:
		if len(x.E) == 0 || r.Chance(20) {
			return &ref.Arr{E: append(append([]ref.V{}, x.E...), nil)}
		}
		a := &ref.Arr{E: append([]ref.V{}, x.E...)}
		i := r.Intn(len(a.E))
		a.E[i] = perturb(r, a.E[i])
		return a
	case *ref.Obj:
		if len(x.Keys) == 0 || r.Chance(20) {
			o := gen.Clone(x).(*ref.Obj)
			o.Set("zz", nil)
			return o
		}
		o := gen.Clone(x).(*ref.Obj)
		k := gen.Pick(r, o.Keys)
		o.M[k] = perturb(r, o.M[k])
		return o
	case ref.Num:
		return gen.Pick(r, []ref.V{ref.NumText(x), true, gen.Num("0.5")})
	case string:
		return gen.Pick(r, []ref.V{x + "x", nil, gen.IntV(1)})
	case bool:
		return gen.Pick(r, []ref.V{!x, fmt.Sprint(x), gen.IntV(0)})
	case nil:
		return gen.Pick(r, []ref.V{false, "", &ref.Arr{E: []ref.V{}}, "null"})
	}
	return v
}

func init() {
	Register(&Property{
		ID:            "C20",
		Rule:          "a ~95-value pool (incl. pairs whose scaled coefficients collide modulo 2^64, 2^63 or 2^32) (incl. 19/20-digit integers around 2^63 and 2^64 and pairs differing by exactly 2^64) (nested containers, numerically equal numbers in different spellings inside containers, reordered members, near misses, 1 vs \"1\", true vs \"true\", 0 vs false, [] vs {} vs \"\" vs null): all ordered pairs through ==, !=, contains, filter equality and container wrappers via literals and via document fields, checked against deep type-strict model equality - with the numbers as json.Number and again as float64 / float32 / int64 / uint64 / decimal128 wherever the kind holds the value exactly, against literals and against each other - plus reflexivity/symmetry/negation; all triples (thorough; seeded sample in quick) for transitivity of the library's own ==; every value x value through !, &&, ||, filter predicates against the single false-like set with && / || returning an operand unchanged; seeded random nested values with one controlled perturbation (respelling/reordering keeps equality, one changed leaf breaks it); matrix stream: whole comparison matrices computed inside ONE evaluation (operands rebound per element through let / current node, so every comparison node is evaluated many times with different operand values and types), compared with the model; non-trivial = each judged pair/value/document; number-vs-string stream: 41 number spellings (in range, edge of the decimal range, beyond it, malformed json.Number texts) against the strings that spell them through ==, !=, contains, containers, filters and lets, answers are constants; deep-shared stream (as in C01); shared-backing stream: Go documents whose arrays are views over one backing array (prefix snapshots, windows) and whose objects are one map reached twice, 20 comparisons each against a deep copy; many-comparisons stream: 70000 / 250000 comparisons (thorough 300000 / 1200000) that fail through another key set, another value, another size, another type, a difference two levels down or a mixture, then 7 questions with constant answers in the same evaluation; deep-shared runs to 70000 levels (built directly in Go beyond 5000) and includes twins that differ by a renamed null member, a missing member, and their containers",
		MinNontrivial: 3000,
		Streams: []Stream{
			{Name: "pairs", Setup: c20Setup, N: func(c *Ctx) int { c20Setup(c); return len(c20Pool) * len(c20Pool) }, Run: c20Pairs, Exhaustive: true},
			{Name: "truthiness", Setup: c20Setup, N: func(c *Ctx) int { return len(c20Pool) * len(c20Pool) }, Run: c20Truth, Exhaustive: true},
			{Name: "triples", Setup: c20Setup, N: func(c *Ctx) int {
				n := len(c20Pool)
				if c.Tier == "thorough" {
					return n * n * n
				}
				return 20000
			}, Run: c20Triples},
			{Name: "random", N: func(c *Ctx) int { return tierN(c, 20000, 6000000) }, Run: c20Random},
			{Name: "number-vs-string", N: c20NumStrN, Run: c20NumStr, Exhaustive: true},
			{Name: "deep-shared", N: deepSharedN, Run: deepSharedRun("C20"), Exhaustive: true},
			{Name: "many-comparisons", N: c20ManyN, Run: c20Many, Exhaustive: true},
			{Name: "shared-backing", N: func(c *Ctx) int { return tierN(c, 3000, 300000) }, Run: sharedBackingRun},
			{Name: "matrix", Setup: c20Setup, N: func(c *Ctx) int { return tierN(c, 1500, 100000) }, Run: c20Matrix},
		},
	})
}

// ---- numbers against the strings that spell them
//
// == never equates values of different JSON types: a number is never equal to a string, whatever the
// number is - in range, at the edge of the decimal range, beyond it, or a json.Number whose text is
// not a number at all - and whichever side it stands on.  The expected answers are constants, so no
// model of the number is needed (direct oracle).
var c20Spellings = []string{"0", "-0", "1", "1.0", "1e0", "10", "0.1", "1e400", "1e-400", "1e6144", "9.999999999999999999999999999999999e6144", "1e6145", "1e7000", "-1e7000", "1E7000", "1.0e7000", "12345678901234567890123456789012345678901234567890e6100",
	"1e-6176", "1e-6177", "1e-7000", "0e7000", "1e99999", "1e999999999999", "9223372036854775808", "18446744073709551616", "123456789012345678901234567890123456", "0.30000000000000004", "true", "null", "", " 1", "1 ", "0x10", "NaN", "Infinity", "-Infinity", "1_000", "1e", "+1", ".5", "1."}

func c20NumStrN(c *Ctx) int { return len(c20Spellings) }

func c20NumStr(c *Ctx, idx int) {
	t := c20Spellings[idx]
	isJSON := ref.IsJSONNumber(t)
	doc := map[string]any{"n": json.Number(t), "s": t, "ns": []any{json.Number(t)}, "ss": []any{t}, "o": map[string]any{"a": json.Number(t)}, "p": map[string]any{"a": t}, "mix": []any{json.Number(t), t, json.Number("7"), "7"}}
	type q struct{ expr, want string }
	qs := []q{
		{"n == s", "false"}, {"s == n", "false"}, {"n != s", "true"}, {"s != n", "true"},
		{"contains(ns, s)", "false"}, {"contains(ss, n)", "false"}, {"ns == ss", "false"}, {"ss == ns", "false"}, {"o == p", "false"}, {"p == o", "false"}, {"[o] != [p]", "true"},
		{"length(mix[?@ == $.s])", "1"}, {"mix[?@ == $.s] | [0] == $.s", "true"}, {"type(mix[?@ == $.s] | [0])", `"string"`},
		{"s == s && ss == ss && p == p", "true"},
		{"[n, s] == [s, n]", "false"}, {"{a: n} == {a: s}", "false"},
		{"let $n = n, $s = s in [$n == $s, $s == $n]", "[false,false]"},
		{"map(&(@ == $.s), ns)", "[false]"}, {"ss[?@ == $.n]", "[]"}, {"ns[?@ == $.s]", "[]"},
	}
	if isJSON {
		lit := "`" + t + "`"
		qs = append(qs, q{lit + " == '" + t + "'", "false"}, q{"'" + t + "' == " + lit, "false"}, q{lit + " != '" + t + "'", "true"}, q{"contains(`[" + t + "]`, '" + t + "')", "false"}, q{"contains(`[\"" + t + "\"]`, " + lit + ")", "false"},
			q{"`[1,{\"a\":" + t + "}]` == `[1,{\"a\":\"" + t + "\"}]`", "false"}, q{"`[1,{\"a\":\"" + t + "\"}]` == `[1,{\"a\":" + t + "}]`", "false"}, q{lit + " == s", "false"}, q{"s == " + lit, "false"})
	}
	for _, x := range qs {
		l := c.LibSearch(x.expr, doc)
		if l.Panic != nil || l.Err != nil {
			c.Count("number_vs_string_not_evaluated", 1)
			continue
		}
		got := strings.ReplaceAll(ShowOut(l), " ", "")
		if got != x.want {
			c.Report(Violation{Rule: "C20/number-equals-string", Expr: x.expr, Data: fmt.Sprintf(`{"n": json.Number(%q), "s": %q, ...}`, t, t), Got: ShowOut(l), Want: x.want, Features: map[string]string{"stream": "number-vs-string", "spelling": t}})
		}
		c.Nontrivial(x.expr, t)
	}
	// to_string(n), when it is a string, is a string
	l := c.LibSearch("[type(to_string(n)), n == to_string(n), to_string(n) == n]", doc)
	if l.Err == nil && l.Panic == nil {
		if got := strings.ReplaceAll(ShowOut(l), " ", ""); got != `["string",false,false]` {
			c.Report(Violation{Rule: "C20/number-equals-string", Expr: "[type(to_string(n)), n == to_string(n), to_string(n) == n]", Data: fmt.Sprintf(`{"n": json.Number(%q)}`, t), Got: ShowOut(l), Want: `["string", false, false]`, Features: map[string]string{"stream": "number-vs-string", "spelling": t}})
		}
	}
}

// ---- long runs of comparisons inside one evaluation
//
// State that a comparison keeps for the duration of an evaluation (depth counters, visited sets,
// memo tables) must be back where it started after every comparison, whatever its outcome.  One
// evaluation makes 70000..250000 comparisons that fail in every possible way (other key set, other
// size, other type, other value, deeper down) and then asks questions whose answers are constants.
func c20ManyN(c *Ctx) int { return 6 * 2 }

func c20Many(c *Ctx, idx int) {
	n := []int{70000, 250000}[idx%2]
	if c.Tier == "thorough" {
		n = []int{300000, 1200000}[idx%2]
	}
	kind := idx / 2
	rows := make([]any, n+1)
	for i := 0; i < n; i++ {
		var v any
		switch kind {
		case 0: // same size, other key set
			v = map[string]any{"k" + fmt.Sprint(i): "v"}
		case 1: // same keys, other value
			v = map[string]any{"k": json.Number(fmt.Sprint(i + 1000))}
		case 2: // other size
			v = []any{"x", json.Number(fmt.Sprint(i)), "y"}
		case 3: // other type
			v = []any{"k", "v"}[i%2]
		case 4: // same outside, different two levels down
			v = map[string]any{"k": []any{map[string]any{"j": json.Number(fmt.Sprint(i + 1000))}}}
		default: // mixture
			v = []any{map[string]any{"k" + fmt.Sprint(i): "v"}, []any{json.Number(fmt.Sprint(i))}, "s", nil, map[string]any{"k": "w", "extra": true}}[i%5]
		}
		rows[i] = map[string]any{"labels": v}
	}
	canaries := []any{map[string]any{"k": "v"}, map[string]any{"k": json.Number("7")}, []any{"x", json.Number("7")}, map[string]any{"k": "v"}, map[string]any{"k": []any{map[string]any{"j": json.Number("7")}}}, map[string]any{"k": "v"}}
	canary := canaries[kind]
	rows[n] = map[string]any{"labels": deepCopyAny(canary)}
	doc := map[string]any{"rows": rows, "canary": canary, "want": deepCopyAny(canary)}
	type q struct{ expr, want string }
	for _, x := range []q{
		{"length(rows[?labels == $.canary])", "1"}, {"contains(rows[*].labels, canary)", "true"}, {"rows[-1].labels == canary", "true"},
		{"[length(rows[?labels != $.canary]), want == canary, canary == want, contains([want], canary)]", fmt.Sprintf("[%d,true,true,true]", n)},
		{"[length(rows[?labels == $.canary]), length(rows[?labels != $.canary]), length(rows)]", fmt.Sprintf("[1,%d,%d]", n, n+1)},
		{"rows[?labels == $.canary] | [0].labels == $.want", "true"}, {"[contains(rows[*].labels, `\"nowhere\"`), want == canary]", "[false,true]"},
	} {
		l := c.LibSearch(x.expr, doc)
		got := strings.ReplaceAll(ShowOut(l), " ", "")
		if l.Panic != nil || l.Err != nil || got != x.want {
			c.Report(Violation{Rule: "C20/after-many-comparisons", Expr: x.expr, Data: fmt.Sprintf("%d rows whose labels all differ from the canary (kind %d), one last row equal to it", n, kind), Got: clipS(ShowOut(l), 200), Want: x.want, Features: map[string]string{"stream": "many-comparisons"}})
		}
		c.Nontrivial(x.expr, fmt.Sprint(idx))
	}
}
