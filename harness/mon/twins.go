package mon

import (
	"fmt"
	"strings"
)

// Twin texts (C15): the outcome of an expression text must not depend on which *other* texts were
// evaluated before it in the process.  Anything that remembers work per text (parse caches, interned
// tokens, memoised literals) is keyed by some normal form of the text; if the normal form merges two
// texts that the language distinguishes, the second one gets the first one's outcome - but only
// after the first has been seen.  For a base text E (made unique per case, of every length class) and
// a twin T that a careless normal form would merge with it, the case records
//
//	cold  = Search(T)            (T has not been seen in this process)
//	        Search(E), Search(E)
//	warm  = Search(T)
//	fresh = Compile(T) + Expression.Search
//
// and requires cold == warm == fresh; a second pair runs E first.  Twins: E with one code point that
// Unicode calls white space (or that is invisible) but the grammar does not, before or after it; E
// with the white space / letter case / normalisation form inside its string literal changed (both
// well-formed, different values); E with legal white space around it (same value).

var twinJunk = []string{"\v", "\f", "\u0085", "\u00a0", "\u1680", "\u2000", "\u2009", "\u200a", "\u2028", "\u2029", "\u202f", "\u205f", "\u3000", "\ufeff", "\x00", "\u200b", "\u180e", "\x1f", "\u00ad"}

var twinLens = []int{8, 20, 31, 32, 33, 64, 200, 1000, 4095, 4097, 20000}

const twinKinds = 2*19 + 8

func twinN() int { return len(twinLens) * twinKinds }

// twinBase builds a unique well-formed text of about n bytes whose value is its string literal.
func twinBase(n, id int, tag string) (text, lit string) {
	lit = fmt.Sprintf("c%d%s \u00c9  x", id, tag)
	head := "configuration.settings.missing || "
	if n < 48 {
		head = "q || "
	}
	for len(head)+len(lit)+2 < n {
		lit += "abcdefghij klmnopqrstuvwxyz"[:min(27, n-len(head)-len(lit)-2)]
	}
	return head + "'" + lit + "'", lit
}

func twinRun(c *Ctx, idx int) {
	n := twinLens[idx%len(twinLens)]
	kind := idx / len(twinLens)
	doc := map[string]any{"configuration": map[string]any{"settings": map[string]any{"enabled": true, "name": "primary"}}, "q": nil}
	for pass, tag := range []string{"a", "b"} {
		e, lit := twinBase(n, idx, tag)
		head := e[:len(e)-len(lit)-2]
		var t, what string
		switch {
		case kind < len(twinJunk):
			t, what = e+twinJunk[kind], fmt.Sprintf("E + U+%04X", []rune(twinJunk[kind])[0])
		case kind < 2*len(twinJunk):
			t, what = twinJunk[kind-len(twinJunk)]+e, fmt.Sprintf("U+%04X + E", []rune(twinJunk[kind-len(twinJunk)])[0])
		default:
			switch kind - 2*len(twinJunk) {
			case 0:
				t, what = head+"'"+strings.ReplaceAll(lit, "  ", " ")+"'", "white space inside the literal collapsed"
			case 1:
				t, what = head+"'"+strings.ToLower(lit)+"'", "literal in lower case"
			case 2:
				t, what = head+"'"+strings.ReplaceAll(lit, "É", "É")+"'", "literal in decomposed form"
			case 3:
				t, what = " "+e+"\n", "legal white space around E"
			case 4:
				t, what = strings.Replace(e, " || ", "||", 1), "no white space around the operator"
			case 5:
				t, what = head+"'"+lit+" '", "literal with a trailing space"
			case 6:
				t, what = strings.ToUpper(head)+"'"+lit+"'", "identifiers in upper case"
			default:
				t, what = head+"\""+lit+"\"", "literal delimiters changed to a quoted identifier"
			}
		}
		feats := map[string]string{"stream": "twin-texts", "twin": what, "length": fmt.Sprint(len(e))}
		var cold LibOut
		if pass == 0 {
			cold = c.LibSearch(t, doc)
		}
		c.LibSearch(e, doc)
		c.LibSearch(e, doc)
		warm := c.LibSearch(t, doc)
		var fresh LibOut
		ex, lc := c.LibCompile(t)
		if lc.Err != nil || lc.Panic != nil {
			fresh = lc
			fresh.Res = nil
		} else {
			fresh = c.LibExprSearch(ex, t, doc)
		}
		if pass == 0 && !SameOutcome(cold, warm, false) {
			c.Report(Violation{Rule: "C15/depends-on-earlier-texts", Expr: clipS(t, 300), Got: clipS(ShowOut(warm), 200) + "  (after the twin text had been evaluated)", Want: clipS(ShowOut(cold), 200) + "  (the same call before it)", Detail: what, Features: feats})
		}
		if !SameOutcome(warm, fresh, false) {
			c.Report(Violation{Rule: "C15/depends-on-earlier-texts", Expr: clipS(t, 300), Got: clipS(ShowOut(warm), 200) + "  (Search, after the twin text had been evaluated)", Want: clipS(ShowOut(fresh), 200) + "  (fresh Compile + Expression.Search)", Detail: what, Features: feats})
		}
		c.Nontrivial(what, fmt.Sprint(n), tag)
		if n <= 20 && pass == 0 {
			c.Sample(map[string]any{"base": e, "twin": t, "what": what, "outcome": clipS(ShowOut(warm), 80)})
		}
	}
}
