package mon

import (
	"encoding/json"
	"fmt"
	"strings"

	"github.com/woodsbury/jmespath"
)

// Heavy evaluations: tens to hundreds of millions of node visits in one Search, on a document that
// is small in memory (every row is the same 100000-element slice).  Nothing in the properties lets a
// result depend on how much work an evaluation is: a work budget, a step counter shared between the
// stages of a pipe, a watchdog - all turn a value into an error for long evaluations only.  The
// answers are constants (direct oracle); C17 and C18 use the same documents for their own relations.
func heavyDoc(rows, n int) map[string]any {
	big := make([]any, n)
	for i := range big {
		big[i] = json.Number("7")
	}
	x := make([]any, rows)
	for i := range x {
		x[i] = big
	}
	return map[string]any{"x": x, "y": x[:rows/2], "one": []any{big}}
}

func heavySizes(c *Ctx) [][2]int {
	if c.Tier == "thorough" {
		// (one query is one case, and a case must stay well below the 120 s watchdog: about
		// 100 ns per node visit under coverage instrumentation)
		return [][2]int{{700, 100000}, {1200, 100000}, {2000, 100000}}
	}
	return [][2]int{{700, 100000}}
}

// one case per (size, query): at most 4 queries per property
func heavyN(c *Ctx) int { return len(heavySizes(c)) * 5 }

func heavyRun(prop string) func(c *Ctx, idx int) {
	return func(c *Ctx, idx int) {
		sz := heavySizes(c)[idx/5]
		which := idx % 5
		rows, n := sz[0], sz[1]
		doc := heavyDoc(rows, n)
		type q struct{ expr, want string }
		var qs []q
		switch prop {
		case "C01":
			qs = []q{{"length(x[?[*].a])", "0"}, {"sum(x[*].length(@))", fmt.Sprint(rows * n)}}
			if c.Tier == "thorough" {
				qs = append(qs, q{"length(x[?[*].a || [*].b])", "0"})
			}
		case "C17":
			qs = []q{{"y[?[*].a].c == (y[?[*].a] | [*].c)", "true"}, {"{k: y[?[*].a]}.k == y[?[*].b]", "true"}}
			if c.Tier == "thorough" {
				qs = append(qs, q{"[y[?[*].a], y[?[*].b]] == [y[?[*].a], y[?[*].b]][*]", "true"}, q{"x[?[*].a].c == (x[?[*].a] | [*].c)", "true"})
			}
		default: // C18: two heavy stages in one pipe against the same stages in two searches
			if which != 0 {
				return
			}
			e1 := "{n: length(y[?[*].a]), x: x, y: y}"
			e2 := "[n, length(y[?[*].b]), length(x)]"
			// (r1 shares the rows of the document; it is handed back as it is - converting it for
			// display would expand the shared rows into 70 million values)
			c.Intent(e1, "Search")
			c.Eval()
			var r1 any
			var err1 error
			func() {
				defer func() {
					if p := recover(); p != nil {
						err1 = fmt.Errorf("PANIC: %v", p)
					}
				}()
				r1, err1 = jmespath.Search(e1, doc)
			}()
			if err1 != nil {
				c.Report(Violation{Rule: "C18/requery", Expr: e1, Data: fmt.Sprintf("%d rows sharing one array of %d numbers", rows, n), Got: clipS(err1.Error(), 200), Want: "an object", Features: map[string]string{"stream": "heavy"}})
				return
			}
			two := c.LibSearch(e2, r1)
			one := c.LibSearch("("+e1+") | ("+e2+")", doc)
			want := fmt.Sprintf("[0,0,%d]", rows)
			for _, l := range []LibOut{two, one} {
				if got := strings.ReplaceAll(ShowOut(l), " ", ""); l.Err != nil || l.Panic != nil || got != want {
					c.Report(Violation{Rule: "C18/requery", Expr: "(" + e1 + ") | (" + e2 + ")", Data: fmt.Sprintf("%d rows sharing one array of %d numbers", rows, n), Got: clipS(ShowOut(one), 200) + " (one search)  /  " + clipS(ShowOut(two), 200) + " (two searches)", Want: want, Features: map[string]string{"stream": "heavy"}})
					break
				}
			}
			c.Nontrivial("heavy", fmt.Sprint(rows))
			return
		}
		for qi, x := range qs {
			if qi != which {
				continue
			}
			l := c.LibSearch(x.expr, doc)
			got := strings.ReplaceAll(ShowOut(l), " ", "")
			if l.Panic != nil || l.Err != nil || got != x.want {
				rule := prop + "/heavy-evaluation"
				if prop == "C17" {
					rule = "C17/identity"
				}
				c.Report(Violation{Rule: rule, Expr: x.expr, Data: fmt.Sprintf("%d rows sharing one array of %d numbers (about %d million node visits)", rows, n, rows*n/1000000), Got: clipS(ShowOut(l), 200), Want: x.want, Features: map[string]string{"stream": "heavy"}})
			}
			c.Nontrivial(x.expr, fmt.Sprint(rows))
		}
	}
}
