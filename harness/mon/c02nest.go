package mon

import (
	"fmt"
	"strings"

	"verif/harness/gen"
	"verif/harness/ref"
)

// Per-element constructs, each written over a placeholder source %S (an
// array of records {id, k, s, xs: [...], rs: [records]}) with a placeholder
// body %B evaluated per element.  Pairing every construct with every other
// one (the inner one inside the body of the outer one) re-enters the
// evaluator's per-element machinery while an outer instance is in progress:
// scratch buffers, per-node memos and loop state shared between the two
// instances show up as wrong values.
var c02Outer = []struct{ name, tmpl string }{
	{"project", "%S[*].%B"},
	{"filter-project", "%S[?k].%B"},
	{"filter-cond", "%S[?%B][*].id"},
	{"flatten-project", "[%S][].%B"},
	{"slice-project", "%S[::-1].%B"},
	{"slice-project-2", "%S[1::2].%B"},
	{"value-project", "{p: %S[0], q: %S[-1]}.*.%B | sort_by(@, &to_string(@))"},
	{"map", "map(&%B, %S)"},
	{"sort_by", "sort_by(%S, &to_string(%B))[*].id"},
	{"sort_by-num", "sort_by(%S, &length(to_array(%B)))[*].id"},
	{"max_by", "max_by(%S, &to_string(%B)).id"},
	{"min_by", "min_by(%S, &to_string(%B)).id"},
	{"group_by", "group_by(%S, &to_string(%B)) | keys(@) | sort(@)"},
	{"multi-list", "%S[*].[id, %B, id]"},
	{"multi-hash", "%S[*].{a: id, b: %B, c: id}"},
	{"let-per-element", "%S[*].[let $e = @ in [$e.id, %B]]"},
	{"pipe", "%S[*] | [*].%B"},
	{"not_null", "%S[*].not_null(%B, id)"},
	{"zip", "zip(%S[*].id, %S[*].%B)"},
}

var c02Inner = []struct{ name, body string }{
	{"project", "rs[*].k"},
	{"filter", "rs[?k > `1`].id"},
	{"flatten", "[xs, xs][]"},
	{"slice", "xs[::-1]"},
	{"slice-2", "xs[1::2]"},
	{"string-slice", "s[::-1]"},
	{"value-project", "{p: k, q: s}.* | sort_by(@, &to_string(@))"},
	{"map", "map(&(@ * `2`), xs)"},
	{"sort", "sort(xs)"},
	{"sort_by", "sort_by(rs, &k)[*].id"},
	{"sort_by-str", "sort_by(rs, &s)[*].id"},
	{"max_by", "max_by(rs, &k).id"},
	{"min_by", "min_by(rs, &s).id"},
	{"group_by", "group_by(rs, &s) | keys(@) | sort(@)"},
	{"multi-list", "[k, s, xs[0]]"},
	{"multi-hash", "{a: k, b: s}"},
	{"let", "let $k = k in rs[?k == $k].id"},
	{"compare", "[k == xs[0], k < xs[1], s == rs[0].s, k != `2`]"},
	{"arith", "k * `2` + sum(xs)"},
	{"reverse", "reverse(xs)"},
	{"join", "join('-', rs[*].s)"},
	{"merge", "merge({a: k}, {b: s}, rs[0])"},
	{"zip", "zip(xs, rs[*].id)"},
	{"pad", "pad_left(s, `6`, '*')"},
	{"split", "split(s, '')"},
	{"find", "find_first(s, 'b')"},
	{"to_string", "to_string(xs)"},
	{"from_items", "from_items(rs[*].[id, k])"},
	{"contains", "contains(xs, k)"},
	{"literal-prune", "`[1, null, 2]`[*]"},
	{"literal-filter", "`[1, 2, 3, 4]`[?@ > `2`]"},
	{"literal-sort", "sort(`[3, 1, 2]`)"},
}

func c02NestDoc(r *gen.R, n int) *ref.Obj {
	strs := []string{"ab", "b", "abc", "ba", "é✓b", "", "cab", "bb"}
	mk := func(i, depth int) *ref.Obj {
		o := ref.NewObj()
		o.Set("id", fmt.Sprintf("r%d", i))
		o.Set("k", gen.IntV(int64((i*7+3)%5)))
		o.Set("s", strs[(i*3+1)%len(strs)])
		xs := &ref.Arr{E: []ref.V{}}
		for j := 0; j < 2+(i+depth)%3; j++ {
			xs.E = append(xs.E, gen.IntV(int64((i*5+j*3)%7)))
		}
		o.Set("xs", xs)
		return o
	}
	top := &ref.Arr{}
	for i := 0; i < n; i++ {
		o := mk(i, 0)
		inner := &ref.Arr{}
		for j := 0; j < 1+(i+r.Intn(3))%4; j++ {
			inner.E = append(inner.E, mk(10*(i+1)+j+r.Intn(3), 1))
		}
		o.Set("rs", inner)
		top.E = append(top.E, o)
	}
	doc := ref.NewObj()
	doc.Set("top", top)
	return doc
}

func c02NestN(c *Ctx) int { return len(c02Outer) * len(c02Inner) }

func c02Nest(c *Ctx, idx int) {
	r := c.Rand("")
	out := c02Outer[idx%len(c02Outer)]
	in := c02Inner[idx/len(c02Outer)]
	for _, n := range []int{2, 3, 5, 14} {
		doc := c02NestDoc(r, n)
		goDoc := ref.ToGo(doc, ref.JSONNumber)
		text := strings.ReplaceAll(strings.ReplaceAll(out.tmpl, "%S", "top"), "%B", in.body)
		m, _ := c.CheckModel("C02", text, doc, goDoc, CheckOpts{Compiled: true, Features: map[string]string{"outer": out.name, "inner": in.name}})
		if IsNontrivialOutcome(m) {
			c.Nontrivial(text, fmt.Sprint(n))
		}
		// and the inner construct once more inside itself, two levels down
		text2 := strings.ReplaceAll(strings.ReplaceAll(out.tmpl, "%S", "top"), "%B", "rs[*].["+in.body+", "+in.body+"]")
		m2, _ := c.CheckModel("C02", text2, doc, goDoc, CheckOpts{Features: map[string]string{"outer": out.name, "inner": in.name + " x2 under rs[*]"}})
		if IsNontrivialOutcome(m2) {
			c.Nontrivial(text2, fmt.Sprint(n))
		}
	}
}

// wide: counts that cross the sizes small fixed tables are built for
// (arguments of variadic builtins, fields of multi-selects, bindings of a let,
// operands of a chain, depth of nesting).
var c02Widths = []int{1, 2, 3, 4, 5, 6, 7, 8, 9, 10, 12, 15, 16, 17, 20, 31, 32, 33, 63, 64, 65, 100, 127, 128, 129, 200, 255, 256, 257}

var c02WideForms = []string{"merge", "not_null", "zip", "multi-list", "multi-hash", "let", "or-chain", "and-chain", "sum-chain", "field-chain", "index-chain", "nest-list", "pipe-chain", "let-nest", "hash-lookup", "contains-literal", "sort-literal", "join", "concat-compare"}

func c02WideN(c *Ctx) int { return len(c02Widths) * len(c02WideForms) }

func c02Wide(c *Ctx, idx int) {
	n := c02Widths[idx%len(c02Widths)]
	form := c02WideForms[idx/len(c02Widths)]
	doc := ref.NewObj()
	doc.Set("n", gen.IntV(int64(n)))
	arr := &ref.Arr{}
	deep := ref.V(gen.IntV(7))
	var deepArr ref.V = gen.IntV(9)
	for i := 0; i < n; i++ {
		o := ref.NewObj()
		o.Set("i", gen.IntV(int64(i)))
		o.Set(fmt.Sprintf("k%d", i), gen.IntV(int64(i)))
		doc.Set(fmt.Sprintf("o%d", i), o)
		doc.Set(fmt.Sprintf("a%d", i), &ref.Arr{E: []ref.V{gen.IntV(int64(i)), fmt.Sprintf("s%d", i)}})
		arr.E = append(arr.E, gen.IntV(int64((i*37)%101)))
		d := ref.NewObj()
		d.Set("d", deep)
		deep = d
		deepArr = &ref.Arr{E: []ref.V{deepArr}}
	}
	doc.Set("xs", arr)
	doc.Set("deep", deep)
	doc.Set("deepArr", deepArr)
	seq := func(f func(i int) string, sep string) string {
		parts := make([]string, n)
		for i := range parts {
			parts[i] = f(i)
		}
		return strings.Join(parts, sep)
	}
	var text string
	switch form {
	case "merge":
		text = "merge(" + seq(func(i int) string { return fmt.Sprintf("o%d", i) }, ", ") + ")"
	case "not_null":
		text = "not_null(" + seq(func(i int) string {
			if i == n-1 {
				return "n"
			}
			return fmt.Sprintf("missing%d", i)
		}, ", ") + ")"
	case "zip":
		text = "zip(" + seq(func(i int) string { return fmt.Sprintf("a%d", i) }, ", ") + ")"
	case "multi-list":
		text = "[" + seq(func(i int) string { return fmt.Sprintf("o%d.i", i) }, ", ") + "]"
	case "multi-hash":
		text = "{" + seq(func(i int) string { return fmt.Sprintf("f%d: o%d.i", i, i) }, ", ") + "}"
	case "let":
		text = "let " + seq(func(i int) string { return fmt.Sprintf("$v%d = o%d.i", i, i) }, ", ") + " in [" + seq(func(i int) string { return fmt.Sprintf("$v%d", n-1-i) }, ", ") + "]"
	case "or-chain":
		text = seq(func(i int) string {
			if i == n-1 {
				return "n"
			}
			return fmt.Sprintf("missing%d", i)
		}, " || ")
	case "and-chain":
		text = seq(func(i int) string { return fmt.Sprintf("a%d", i) }, " && ")
	case "sum-chain":
		text = seq(func(i int) string { return fmt.Sprintf("o%d.i", i) }, " + ")
	case "field-chain":
		text = "deep" + strings.Repeat(".d", n)
	case "index-chain":
		text = "deepArr" + strings.Repeat("[0]", n)
	case "nest-list":
		text = strings.Repeat("[", n) + "n" + strings.Repeat("]", n)
	case "pipe-chain":
		text = "deep" + strings.Repeat(" | d", n)
	case "let-nest":
		text = seq(func(i int) string { return fmt.Sprintf("let $v%d = o%d.i in", i, i) }, " ") + " [$v0, $v" + fmt.Sprint(n-1) + ", $v" + fmt.Sprint(n/2) + "]"
	case "hash-lookup":
		text = "{" + seq(func(i int) string { return fmt.Sprintf("f%d: o%d.i", i, i) }, ", ") + "}.f" + fmt.Sprint(n/2)
	case "contains-literal":
		text = "[contains(`[" + seq(func(i int) string { return fmt.Sprintf("\"s%d\"", i) }, ", ") + "]`, 's" + fmt.Sprint(n-1) + "'), contains(`[" + seq(func(i int) string { return fmt.Sprint(i) }, ", ") + "]`, n)]"
	case "sort-literal":
		text = "sort(`[" + seq(func(i int) string { return fmt.Sprint((i * 37) % 101) }, ", ") + "]`) == sort(xs)"
	case "join":
		text = "join(',', [" + seq(func(i int) string { return fmt.Sprintf("a%d[1]", i) }, ", ") + "])"
	case "concat-compare":
		text = "[" + seq(func(i int) string { return fmt.Sprintf("o%d.i == `%d`", i, i) }, ", ") + "] | [?@] | length(@)"
	}
	m, _ := c.CheckModel("C02", text, doc, ref.ToGo(doc, ref.JSONNumber), CheckOpts{Compiled: true, Features: map[string]string{"form": form, "n": fmt.Sprint(n)}})
	if m.Unspec {
		c.Count("wide_abstained:"+form, 1)
	}
	if IsNontrivialOutcome(m) {
		c.Nontrivial(form, fmt.Sprint(n))
	}
}

// numeric-boundaries: every builtin that reads numbers, over integers and
// decimals at the machine-width boundaries, given as numbers, as strings
// (to_number) and inside arrays.
var c02NumForms = []string{"to_number('%s')", "to_number(`\"%s\"`)", "to_number(`%s`)", "abs(`%s`)", "ceil(`%s`)", "floor(`%s`)", "to_string(`%s`)", "sum([`%s`, `1`])", "sum([`%s`, `%s`])", "avg([`%s`, `%s`])", "max([`1`, `%s`])", "min([`%s`, `-1`])",
	"sort([`%s`, `0`, `%s`])", "sort_by([{k: `%s`}, {k: `0`}], &k)[0].k", "max_by([{k: `%s`}, {k: `1`}], &k).k", "min_by([{k: `%s`}, {k: `1`}], &to_number(to_string(k))).k", "contains([`%s`], `%s`)", "to_number('%s') == `%s`", "to_number('%s') > `1`", "abs(to_number('%s')) - `1`",
	"sort(map(&to_number(@), ['%s', '1', '-1']))", "sum(map(&to_number(@), ['%s', '%s']))", "type(`%s`)", "not_null(to_number('%s'), 'N')", "`%s` + `1`", "`%s` * `2`", "`%s` - `1`", "`%s` * `%s`", "-`%s`", "`%s` // `1`", "`%s` % `10`", "zip([`%s`], ['%s'])", "join('', [to_string(`%s`)])",
	"find_first('abcabc', 'c', `%s`)", "find_last('abcabc', 'c', `0`, `%s`)", "split('a,b', ',', `%s`)", "replace('aaa', 'a', 'b', `%s`)", "'abcdef'[`0`:1] || `%s`"}

func c02NumBoundN(c *Ctx) int { return len(c01NumB) * len(c02NumForms) }

func c02NumBound(c *Ctx, idx int) {
	y := c01NumB[idx%len(c01NumB)]
	form := c02NumForms[idx/len(c01NumB)]
	text := strings.ReplaceAll(form, "%s", y)
	doc := ref.NewObj()
	doc.Set("y", gen.Num(y))
	m, _ := c.CheckModel("C02", text, doc, ref.ToGo(doc, ref.JSONNumber), CheckOpts{Compiled: idx%3 == 0, Features: map[string]string{"function": text[:strings.IndexAny(text, "(`'")+1], "stream": "numeric-boundaries"}})
	if !m.Unspec {
		c.Nontrivial(text)
	}
	// the same with the number coming from the document
	if strings.Count(form, "`%s`") > 0 && !strings.Contains(form, "'%s'") {
		text2 := strings.ReplaceAll(form, "`%s`", "y")
		m2, _ := c.CheckModel("C02", text2, doc, ref.ToGo(doc, ref.JSONNumber), CheckOpts{Features: map[string]string{"stream": "numeric-boundaries/doc"}})
		if !m2.Unspec {
			c.Nontrivial(text2, y)
		}
	}
}

// offender-position: one element (or argument) of the wrong type at every
// position of arrays of several size classes, for every builtin that takes a
// homogeneous array or a variadic list: an early exit, a fast path for a size
// class or a sampled check must still report invalid-type.
var c02OffFuncs = []struct{ tmpl, good string }{
	{"sum(%s)", "num"}, {"avg(%s)", "num"}, {"max(%s)", "num"}, {"min(%s)", "num"}, {"max(%s)", "str"}, {"min(%s)", "str"}, {"sort(%s)", "num"}, {"sort(%s)", "str"}, {"join(',', %s)", "str"},
	{"sort_by(%s, &k)", "recnum"}, {"sort_by(%s, &k)", "recstr"}, {"max_by(%s, &k)", "recnum"}, {"min_by(%s, &k)", "recstr"}, {"group_by(%s, &k)", "recstr"}, {"from_items(%s)", "pair"}, {"zip(%s, %s)", "arrarg"}, {"merge(%s)", "objargs"}, {"zip(%s)", "arrargs"},
	{"map(&abs(@), %s)", "num"}, {"%s[*].abs(@)", "num"}, {"%s[?abs(@) > `0`]", "num"}, {"length(%s[*].length(@))", "str"},
}

var c02OffSizes = []int{1, 2, 3, 5, 12, 13, 17, 32, 33, 65}

func c02OffN(c *Ctx) int { return len(c02OffFuncs) * len(c02OffSizes) }

func c02Offender(c *Ctx, idx int) {
	f := c02OffFuncs[idx%len(c02OffFuncs)]
	n := c02OffSizes[idx/len(c02OffFuncs)]
	good := func(i int) ref.V {
		switch f.good {
		case "num":
			return gen.IntV(int64((i*7)%11 + 1))
		case "str":
			return fmt.Sprintf("s%02d", (i*7)%11)
		case "recnum", "recstr":
			o := ref.NewObj()
			o.Set("id", gen.IntV(int64(i)))
			if f.good == "recnum" {
				o.Set("k", gen.IntV(int64((i*7)%11)))
			} else {
				o.Set("k", fmt.Sprintf("s%02d", (i*7)%11))
			}
			return o
		case "pair":
			return &ref.Arr{E: []ref.V{fmt.Sprintf("k%d", i), gen.IntV(int64(i))}}
		case "arrarg", "arrargs":
			return &ref.Arr{E: []ref.V{gen.IntV(int64(i))}}
		case "objargs":
			o := ref.NewObj()
			o.Set(fmt.Sprintf("k%d", i), gen.IntV(int64(i)))
			return o
		}
		return nil
	}
	bads := []ref.V{nil, true, "x", gen.IntV(3), &ref.Arr{E: []ref.V{}}, ref.NewObj()}
	positions := []int{0, 1, n / 2, n - 2, n - 1}
	seen := map[int]bool{}
	for _, p := range positions {
		if p < 0 || p >= n || seen[p] {
			continue
		}
		seen[p] = true
		for bi, bad := range bads {
			elems := make([]ref.V, n)
			for i := range elems {
				elems[i] = good(i)
			}
			switch f.good {
			case "recnum", "recstr":
				o := ref.NewObj()
				o.Set("id", gen.IntV(int64(p)))
				o.Set("k", bad)
				elems[p] = o
				if bi == 0 && p%2 == 1 {
					elems[p] = bad // the element itself is not an object
				}
			case "pair":
				elems[p] = &ref.Arr{E: []ref.V{bad, gen.IntV(1)}}
			default:
				elems[p] = bad
			}
			doc := ref.NewObj()
			var text string
			if f.good == "objargs" || f.good == "arrargs" {
				args := make([]string, n)
				for i := range elems {
					k := fmt.Sprintf("a%d", i)
					doc.Set(k, elems[i])
					args[i] = k
				}
				text = strings.Replace(f.tmpl, "%s", strings.Join(args, ", "), 1)
			} else {
				doc.Set("xs", &ref.Arr{E: elems})
				text = strings.ReplaceAll(f.tmpl, "%s", "xs")
			}
			m, _ := c.CheckModel("C02", text, doc, ref.ToGo(doc, ref.JSONNumber), CheckOpts{Compiled: bi == 0, Features: map[string]string{"stream": "offender-position", "n": fmt.Sprint(n), "position": fmt.Sprint(p)}})
			if !m.Unspec {
				c.Nontrivial(text, fmt.Sprint(n, p, bi))
			}
		}
	}
}

// large: every builtin and core construct that walks an array, an object or a string,
// over inputs of 1000 .. 100000 elements (around the powers of two where an
// implementation might switch algorithm, buffer or integer width), against the model.
var c02LargeSizes = []int{1000, 1023, 1024, 1025, 4095, 4096, 4097, 32767, 32768, 65535, 65536, 65537, 100000}

var c02LargeForms = []string{"sum(xs)", "avg(xs)", "max(xs)", "min(xs)", "length(xs)", "sort(xs)[0]", "sort(xs)[-1]", "sort(xs) | [length(@), @[1], @[-2]]", "reverse(xs)[0]", "reverse(xs) | length(@)", "xs[?@ > `5`] | length(@)", "xs[*] | length(@)", "map(&(@ + `1`), xs) | [length(@), @[0], @[-1]]",
	"length(join(',', strs))", "join('', strs) | length(@)", "sort(strs)[0]", "max(strs)", "min(strs)", "contains(xs, `-1`)", "contains(xs, xs[-1])", "contains(strs, strs[-1])", "xs[-1]", "xs[::2] | length(@)", "xs[::-1][0]", "[xs, xs][] | length(@)", "zip(xs, strs) | [length(@), @[-1]]",
	"sort_by(rs, &k) | [length(@), @[0].id, @[-1].id]", "max_by(rs, &k).id", "min_by(rs, &k).id", "group_by(rs, &g) | keys(@) | sort(@)", "group_by(rs, &g).g0 | length(@)", "rs[*].k | sum(@)", "rs[?k > `3`].id | length(@)", "from_items(rs[*].[id, k]) | length(@)", "length(keys(obj))", "length(values(obj))", "length(items(obj))", "obj.k77", "merge(obj, {extra: `1`}) | length(@)", "sum(obj.*)",
	"length(long)", "reverse(long) | length(@)", "long[::-1][0:3]", "long[-3:]", "find_first(long, 'z')", "find_last(long, 'a')", "split(long, 'b') | length(@)", "replace(long, 'a', 'xy') | length(@)", "length(split(long, ''))", "upper(long) | length(@)", "contains(long, 'ab')", "pad_left(long, n + `5`, '-') | length(@)", "trim(long, 'a') | length(@)", "starts_with(long, 'ab')", "ends_with(long, long[-4:])", "to_string(xs) | length(@)", "to_array(xs) | length(@)", "not_null(xs)[-1]", "xs == xs", "sort(xs) == sort(reverse(xs))", "length(xs[?@ == xs[0]])"}

func c02LargeN(c *Ctx) int { return len(c02LargeSizes) * 4 }

var c02LargeDocs = map[int]*ref.Obj{}

func c02Large(c *Ctx, idx int) {
	n := c02LargeSizes[idx%len(c02LargeSizes)]
	part := idx / len(c02LargeSizes)
	doc := c02LargeDocs[n]
	if doc == nil {
		xs, strs, rs := &ref.Arr{}, &ref.Arr{}, &ref.Arr{}
		obj := ref.NewObj()
		var long strings.Builder
		for i := 0; i < n; i++ {
			v := int64((i*7919 + 13) % 10007)
			xs.E = append(xs.E, gen.IntV(v))
			strs.E = append(strs.E, fmt.Sprintf("s%05d", v))
			o := ref.NewObj()
			o.Set("id", gen.IntV(int64(i)))
			o.Set("k", gen.IntV(v%11))
			o.Set("g", fmt.Sprintf("g%d", v%3))
			rs.E = append(rs.E, o)
			obj.Set(fmt.Sprintf("k%d", i), gen.IntV(v%5))
			long.WriteString([]string{"a", "b", "é", "ab"}[i%4])
		}
		doc = ref.NewObj()
		doc.Set("xs", xs)
		doc.Set("strs", strs)
		doc.Set("rs", rs)
		doc.Set("obj", obj)
		doc.Set("long", long.String())
		doc.Set("n", gen.IntV(int64(n)))
		c02LargeDocs = map[int]*ref.Obj{n: doc} // keep one
	}
	goDoc := ref.ToGo(doc, ref.JSONNumber)
	for i, f := range c02LargeForms {
		if i%4 != part {
			continue
		}
		m, _ := c.CheckModel("C02", f, doc, goDoc, CheckOpts{Features: map[string]string{"stream": "large", "n": fmt.Sprint(n)}})
		if !m.Unspec {
			c.Nontrivial(f, fmt.Sprint(n))
		}
	}
}

// pad-large (thorough only): pad widths of 2^24+1 .. 2^28+1 are legitimate; the result has exactly
// that many code points.  The reference model does not execute such widths, so the oracle is direct.
var c02PadLarge = []int{16777217, 67108865, 268435457}

func c02PadLargeN(c *Ctx) int {
	if c.Tier != "thorough" {
		return 0
	}
	return len(c02PadLarge) * 4
}

func c02PadLargeRun(c *Ctx, idx int) {
	w := c02PadLarge[idx%len(c02PadLarge)]
	form := []string{"length(pad_left('ab', `%d`, '-'))", "length(pad_right('ab', `%d`, '-'))", "length(pad_left('ab', `%d`))", "pad_right('ab', `%d`)[-3:]"}[idx/len(c02PadLarge)]
	text := fmt.Sprintf(form, w)
	l := c.LibSearch(text, nil)
	want := fmt.Sprint(w)
	if strings.Contains(form, "[-3:]") {
		want = `"   "`
	}
	if l.Panic != nil || l.Err != nil || gen.Describe(l.Res) != want && ShowOut(l) != want {
		c.Report(Violation{Rule: "C02/model", Expr: text, Got: ShowOut(l), Want: want + " (a width of " + fmt.Sprint(w) + " is a legitimate width: the padded string has that many code points)", Features: map[string]string{"stream": "pad-large"}})
	}
	c.Nontrivial(text)
}
