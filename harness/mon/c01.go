package mon

import (
	"verif/harness/gen"
	"verif/harness/ref"
)

func tierN(c *Ctx, quick, thorough int) int {
	if c.Tier == "thorough" {
		return thorough
	}
	return quick
}

// spellings returns the print options used to render one AST twice.
func spellings(r *gen.R) []ref.PrintOpts {
	return []ref.PrintOpts{
		{RawStrings: 100},
		{Rand: r, WS: 25, Unicode: 50, Quote: 30, RawStrings: 50, Parens: 10},
	}
}

func init() {
	Register(&Property{
		ID:            "C01",
		Rule:          "core-language expressions (selector-chain grid over fixed documents; seeded document-directed random ASTs rendered in two spellings) evaluated by Search and Compile+Search and compared with the independent reference model; a case is non-trivial when the model decides it and its outcome is a non-null, non-empty value or an error; distinct by (expression text, document)",
		MinNontrivial: 200,
		Streams: []Stream{
			{Name: "random", N: func(c *Ctx) int { return tierN(c, 30000, 3000000) }, Run: c01Random},
			{Name: "grid", N: c01GridN, Run: c01Grid, Exhaustive: true},
		},
	})
}

func c01Random(c *Ctx, idx int) {
	r := c.Rand("")
	doc := gen.Doc(r, 3)
	g := &gen.ExprGen{R: r, Root: doc, Funcs: 0, Lets: true, Arith: false}
	node := g.Expr(doc, 3)
	goDoc := ref.ToGo(doc, ref.JSONNumber)
	for _, po := range spellings(r) {
		text := ref.PrintWith(node, po)
		m, _ := c.CheckModel("C01", text, doc, goDoc, CheckOpts{Compiled: true})
		if IsNontrivialOutcome(m) {
			c.Nontrivial(text, ref.ToJSONText(doc))
			c.Sample(map[string]any{"expr": text, "doc": ref.ToJSONText(doc), "model": m.String()})
		}
	}
}
