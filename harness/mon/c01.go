package mon

import (
	"fmt"
	"strings"

	"verif/harness/gen"
	"verif/harness/ref"
)

func tierN(c *Ctx, quick, thorough int) int {
	if c.Tier == "thorough" {
		return thorough
	}
	return quick
}

// spellings returns the print options used to render one AST twice.
func spellings(r *gen.R) []ref.PrintOpts {
	return []ref.PrintOpts{
		{RawStrings: 100},
		{Rand: r, WS: 25, Unicode: 50, Quote: 30, RawStrings: 50, Parens: 10},
	}
}

func init() {
	Register(&Property{
		ID:            "C01",
		Rule:          "core-language expressions (selector-chain grid over fixed documents; field names that are keywords, literals or builtin names in other languages (true, false, null, and, or, not, length, sort ...) used as bare identifiers in every position an identifier can take; every comparison operator between all pairs of a 44-value pool of integers and decimals at the 2^31/2^32/2^53/2^63/2^64/10^19 boundaries (as filters, multi-selects and literals); index and slice literals at the 8/16/32/64-bit boundaries over arrays of 1..300 elements in every position an index can take: after a field, after a pipe, on the current node, after a parenthesis, inside projections and filters; seeded document-directed random ASTs rendered in two spellings) evaluated by Search and Compile+Search and compared with the independent reference model; a case is non-trivial when the model decides it and its outcome is a non-null, non-empty value or an error; distinct by (expression text, document); joins stream: a per-element let above a root-, literal- or variable-anchored sub-expression that reads the variable (32 bodies x 9 outer forms x 2..257 elements), compared with the model; hash-hostile names: 34 shapes over pairs of names colliding under twelve common 32-bit string hashes, as variables, identifiers, keys and strings; deep-shared stream: 29 comparisons with constant answers over values that reach one container twice, nested 10..5000 levels (arrays, and arrays alternating with objects); heavy stream: 70 million node visits in one Search over 700 rows that share one 100000-element array (thorough: also 1200 and 2000 rows), constant answers; many-elements stream: 45 per-element forms (selector chains that end early on a missing member, filters, lets, every by-function with string and number keys, merges, comparisons) over 70000 records / two-record groups (thorough 150000), two thirds of which take the short way; wide-joins: join-shaped multi-selects with 8 / 63 / 70 / 130 columns each binding its own two names",
		MinNontrivial: 200,
		Streams: []Stream{
			{Name: "random", N: func(c *Ctx) int { return tierN(c, 30000, 10000000) }, Run: c01Random},
			{Name: "grid", N: c01GridN, Run: c01Grid, Exhaustive: true},
			{Name: "joins", N: func(c *Ctx) int { return joinN() }, Run: joinModel("C01", false), Exhaustive: true},
			{Name: "wide-joins", N: func(c *Ctx) int { return wideJoinN() }, Run: wideJoinRun("C01"), Exhaustive: true},
			{Name: "hash-hostile-names", N: func(c *Ctx) int { return hashNamesN() }, Run: hashNamesRun("C01"), Exhaustive: true},
			{Name: "deep-shared", N: deepSharedN, Run: deepSharedRun("C01"), Exhaustive: true},
			{Name: "heavy", N: heavyN, Run: heavyRun("C01"), Exhaustive: true},
			{Name: "many-elements", N: func(c *Ctx) int { return len(manyForms) }, Run: manyRun("C01"), Exhaustive: true},
			{Name: "keyword-identifiers", N: func(c *Ctx) int { return len(c01KeywordIdents) }, Run: c01KeywordIdentifiers, Exhaustive: true},
			{Name: "number-boundaries", N: func(c *Ctx) int { return len(c01NumB) }, Run: c01NumberBoundaries, Exhaustive: true},
			{Name: "index-boundaries", N: func(c *Ctx) int { return len(c01IdxLens) * len(c01IdxLits) }, Run: c01IndexBoundaries, Exhaustive: true},
		},
	})
}

func c01Random(c *Ctx, idx int) {
	r := c.Rand("")
	doc := gen.Doc(r, 3)
	g := &gen.ExprGen{R: r, Root: doc, Funcs: 0, Lets: true, Arith: false}
	node := g.Expr(doc, 3)
	goDoc := ref.ToGo(doc, ref.JSONNumber)
	for _, po := range spellings(r) {
		text := ref.PrintWith(node, po)
		m, _ := c.CheckModel("C01", text, doc, goDoc, CheckOpts{Compiled: true})
		if IsNontrivialOutcome(m) {
			c.Nontrivial(text, ref.ToJSONText(doc))
			c.Sample(map[string]any{"expr": text, "doc": ref.ToJSONText(doc), "model": m.String()})
		}
	}
}

// index literals at the boundaries of the integer widths, over arrays long
// enough for them to select something
var c01IdxLens = []int{1, 2, 60, 127, 128, 129, 200, 255, 256, 257, 300}
var c01IdxLits = []string{"0", "1", "-1", "59", "60", "126", "127", "128", "129", "130", "199", "200", "254", "255", "256", "257", "299", "300", "-60", "-127", "-128", "-129", "-200", "-255", "-256", "-257", "-300", "-301",
	"00", "01", "007", "08", "09", "010", "0010", "011", "017", "018", "077", "0100", "-00", "-01", "-07", "-08", "-010", "-0010", "0000000000000000000000010", "000", "-0",
	"32767", "32768", "65535", "65536", "-32768", "-32769", "2147483647", "2147483648", "4294967295", "4294967296", "-2147483648", "-2147483649", "9223372036854775807", "-9223372036854775808"}

func c01IndexBoundaries(c *Ctx, idx int) {
	n := c01IdxLens[idx%len(c01IdxLens)]
	N := c01IdxLits[idx/len(c01IdxLens)]
	x := &ref.Arr{E: make([]ref.V, n)}
	rows := &ref.Arr{E: make([]ref.V, n)}
	recs := &ref.Arr{E: make([]ref.V, n)}
	for i := 0; i < n; i++ {
		x.E[i] = gen.IntV(int64(i))
		rows.E[i] = &ref.Arr{E: []ref.V{gen.IntV(int64(i)), gen.IntV(int64(i + 1))}}
		o := ref.NewObj()
		o.Set("a", gen.IntV(int64(i)))
		o.Set("xs", x)
		recs.E[i] = o
	}
	doc := ref.NewObj()
	doc.Set("x", x)
	doc.Set("rows", rows)
	doc.Set("recs", recs)
	doc.Set("o", map[bool]ref.V{true: recs.E[0], false: nil}[n > 0])
	goDoc := ref.ToGo(doc, ref.JSONNumber)
	forms := []string{"x[" + N + "]", "x | [" + N + "]", "x | @[" + N + "]", "(x)[" + N + "]", "x[*] | [" + N + "]", "x[?`true`] | [" + N + "]", "[x][0][" + N + "]", "rows[" + N + "][0]", "rows[" + N + "] | [1]", "rows[*][0] | [" + N + "]", "rows[] | [" + N + "]",
		"recs[" + N + "].a", "recs | [" + N + "].a", "recs[*].a | [" + N + "]", "o.xs[" + N + "]", "o | xs[" + N + "]", "recs[0:2].xs[" + N + "]", "recs[:2].xs | [0][" + N + "]", "x[" + N + ":] | length(@)", "x | [" + N + ":] | length(@)", "x[:" + N + "] | length(@)", "x | [:" + N + "] | length(@)",
		"x | [::" + N + "] | length(@)", "let $v = x in $v[" + N + "]", "x[?@ == $.x[" + N + "]]", "sort(x)[" + N + "]", "x[" + N + "] == x[" + N + "]", "[x[" + N + "], x | [" + N + "]]"}
	for _, f := range forms {
		if N == "0" && strings.Contains(f, "[::0]") {
			continue
		}
		m, _ := c.CheckModel("C01", f, doc, goDoc, CheckOpts{Compiled: true, Features: map[string]string{"stream": "index-boundaries"}})
		if IsNontrivialOutcome(m) {
			c.Nontrivial(f, fmt.Sprint(n))
		}
	}
}

// numbers at the boundaries of the machine types a fast path might use
var c01NumB = []string{"0", "1", "-1", "2", "2147483647", "2147483648", "-2147483648", "-2147483649", "4294967295", "4294967296", "3037000499", "3037000500", "4000000000", "9007199254740991", "9007199254740992", "9007199254740993", "-9007199254740993",
	"999999999999999999", "1000000000000000000", "9223372036854775806", "9223372036854775807", "9223372036854775808", "9223372036854775809", "-9223372036854775807", "-9223372036854775808", "-9223372036854775809", "9999999999999999999", "10000000000000000000", "-9999999999999999999",
	"18446744073709551614", "18446744073709551615", "18446744073709551616", "18446744073709551617", "-18446744073709551616", "-8446744073709551617", "-8446744073709551616", "99999999999999999999", "0.5", "-0.5", "9223372036854775807.5", "9223372036854775808.0", "9.223372036854775808e18", "1e19", "123456789012345678901234567890"}

func c01NumberBoundaries(c *Ctx, idx int) {
	y := c01NumB[idx]
	xs := &ref.Arr{}
	recs := &ref.Arr{}
	for _, t := range c01NumB {
		xs.E = append(xs.E, gen.Num(t))
		o := ref.NewObj()
		o.Set("id", gen.Num(t))
		recs.E = append(recs.E, o)
	}
	doc := ref.NewObj()
	doc.Set("xs", xs)
	doc.Set("recs", recs)
	doc.Set("y", gen.Num(y))
	goDoc := ref.ToGo(doc, ref.JSONNumber)
	for _, op := range []string{"==", "!=", "<", "<=", ">", ">="} {
		for _, f := range []string{"xs[?@ " + op + " `" + y + "`]", "xs[?`" + y + "` " + op + " @]", "xs[?@ " + op + " $.y]", "recs[?id " + op + " `" + y + "`].id", "xs[*].[@ " + op + " `" + y + "`][]", "length(xs[?@ " + op + " `" + y + "`])"} {
			m, _ := c.CheckModel("C01", f, doc, goDoc, CheckOpts{Compiled: op == "<", Features: map[string]string{"stream": "number-boundaries"}})
			if IsNontrivialOutcome(m) {
				c.Nontrivial(f)
			}
		}
	}
	for _, f := range []string{"xs[?@ == `" + y + "`] | [0] == y", "[`" + y + "`] == [y]", "{k: `" + y + "`} == {k: y}", "`" + y + "` == y && y == `" + y + "`", "xs[?@ > `" + y + "`] | length(@) == length(xs[?`" + y + "` < @])"} {
		c.CheckModel("C01", f, doc, goDoc, CheckOpts{Features: map[string]string{"stream": "number-boundaries"}})
	}
}

// words that mean something special elsewhere (JSON, Python, SQL, other JMESPath
// dialects, this library's builtin names) but are ordinary identifiers in the grammar
var c01KeywordIdents = []string{"true", "false", "null", "True", "False", "None", "nil", "undefined", "NaN", "Infinity", "and", "or", "not", "is", "if", "then", "else", "select", "from", "where", "as", "like", "between", "exists", "contains", "length", "abs", "sort", "sort_by", "map", "keys", "values", "type", "to_string", "not_null", "merge", "max", "min", "sum", "join", "e", "E", "e1", "x", "_", "__proto__", "constructor", "this", "self", "root", "current", "item", "it", "value", "key", "index", "i", "n", "id", "let_", "in_", "lets", "inn", "letx", "int", "inf"}

func c01KeywordIdentifiers(c *Ctx, idx int) {
	k := c01KeywordIdents[idx]
	for variant := 0; variant < 3; variant++ {
		doc := ref.NewObj()
		switch variant {
		case 0: // the member exists and holds something unlike what the word suggests
			doc.Set(k, &ref.Arr{E: []ref.V{gen.IntV(7), "seven"}})
			inner := ref.NewObj()
			inner.Set(k, "inner-"+k)
			doc.Set("o", inner)
		case 1: // absent: null
			doc.Set("other", gen.IntV(1))
		case 2:
			doc.Set(k, false)
			doc.Set("o", ref.NewObj())
		}
		recs := &ref.Arr{}
		for i := 0; i < 3; i++ {
			o := ref.NewObj()
			if i != 1 {
				o.Set(k, gen.IntV(int64(i)))
			}
			o.Set("n", gen.IntV(int64(i)))
			recs.E = append(recs.E, o)
		}
		doc.Set("recs", recs)
		goDoc := ref.ToGo(doc, ref.JSONNumber)
		for _, f := range []string{"%s", "@.%s", "o.%s", "%s[0]", "%s[1]", "[%s, %s]", "{k: %s, %s: n}", "%s || 'dflt'", "!%s", "%s == `true`", "%s == `null`", "%s == `false`", "recs[?%s].n", "recs[?%s == `0`].n", "recs[?!%s].n", "recs[*].%s", "recs[*].[%s]", "recs[].%s", "o.%s || %s", "%s && 'yes'", "[%s][0]", "%s | [0]", "not_null(%s, 'nn')", "type(%s)", "to_array(%s)", "length(to_array(%s))", "let $v = %s in $v", "sort_by(recs, &n)[*].%s", "map(&%s, recs)", "recs[?%s != `null`] | length(@)", "%s.%s", "o.%s.%s", "*.%s", "recs[0:2].%s", "[?%s]", "%s[*]", "%s[::-1]"} {
			text := strings.ReplaceAll(f, "%s", k)
			m, _ := c.CheckModel("C01", text, doc, goDoc, CheckOpts{Compiled: variant == 0, Features: map[string]string{"stream": "keyword-identifiers", "word": k}})
			if IsNontrivialOutcome(m) {
				c.Nontrivial(text, fmt.Sprint(variant))
			}
		}
	}
}
