package mon

import (
	"bytes"
	"encoding/json"
	"errors"
	"fmt"
	"io"
	"math"
	"math/big"
	"os"
	"reflect"
	"strings"
	"unicode/utf8"

	"github.com/woodsbury/jmespath"

	"verif/harness/gen"
	"verif/harness/ref"
)

var c08DocsText = []string{`null`, `5`, `[1,"a",null]`, `{"a":1,"b":"s","xs":[1,2,3],"o":{"a":null}}`, `{"a":"str","b":[],"xs":["b","a"],"n":0,"big":1e6144}`, `"text"`, `[]`, `{"a":{"a":{"a":1}},"b":[{"a":1},{"a":2}],"xs":[3,1,2]}`,
	// records whose member k is null at the first / a middle / the last position: faults that
	// depend on the element (k || <fault>) are raised at that position of a per-element loop
	`{"rs":[{"k":null,"s":null},{"k":1,"s":"a"},{"k":2,"s":"b"}]}`,
	`{"rs":[{"k":1,"s":"a"},{"k":null,"s":null},{"k":2,"s":"b"}]}`,
	`{"rs":[{"k":3,"s":"c"},{"k":1,"s":"a"},{"k":2,"s":"b"},{"k":null,"s":null}]}`,
	`{"rs":[{"k":3,"s":"c"},{"k":true,"s":1},{"k":2,"s":"b"}]}`}
var c08Docs []ref.V
var c08Go []any

func c08Setup(c *Ctx) {
	if c08Docs != nil {
		return
	}
	for _, t := range c08DocsText {
		v, err := ref.FromJSON(t)
		if err != nil {
			panic(err)
		}
		c08Docs = append(c08Docs, v)
		c08Go = append(c08Go, ref.ToGo(v, ref.JSONNumber))
	}
	// a hostile document: foreign values and odd numbers
	c08Go = append(c08Go, map[string]any{"a": struct{ X int }{1}, "b": []string{"x"}, "xs": []any{1, 2.5, nil}, "o": map[string]any{"a": make(chan int)}})
	c08Docs = append(c08Docs, nil) // not modelled
	// top-level documents of standard-library types, useful / malformed / typed nil: a static fault
	// is reported before anything looks at the document, whatever the document is
	for _, d := range []any{json.RawMessage(`{"a":1,"xs":[3,1,2]}`), json.RawMessage(`{"a": `), json.RawMessage(`{"a":1} x`), json.RawMessage(``), []byte(`{"a": `), (*big.Int)(nil), big.NewInt(3),
		strings.NewReader(`{"a": `), (*bytes.Buffer)(nil), error((*nilStringer)(nil)), (*map[string]any)(nil), reflect.Value{}, func() {}, (*json.RawMessage)(nil), math.NaN()} {
		c08Go = append(c08Go, d)
		c08Docs = append(c08Docs, nil)
	}
}

// contract checks on one failing (or succeeding) call
func (c *Ctx) c08Contract(api, text string, data any, l LibOut) {
	if l.Panic != nil {
		return // C03
	}
	if l.Err == nil {
		return
	}
	if l.Res != nil {
		c.Report(Violation{Rule: "C08/result-with-error", Expr: text, Data: gen.Describe(data), Got: gen.Describe(l.Res) + " with " + ShowOut(l), Features: map[string]string{"api": api}})
	}
	if l.NCats != 1 {
		c.Report(Violation{Rule: "C08/not-exactly-one-category", Expr: text, Data: gen.Describe(data), Got: ShowOut(l), Detail: fmt.Sprintf("the error matches %d exported categories under errors.Is", l.NCats), Features: map[string]string{"api": api}})
	}
	if strings.TrimSpace(l.ErrText) == "" {
		c.Report(Violation{Rule: "C08/empty-error-text", Expr: text, Data: gen.Describe(data), Features: map[string]string{"api": api}})
	}
}

const staticCats = ref.CatSyntax | ref.CatArity | ref.CatUnknownFn

// c08Text runs one expression text through Compile and through Search /
// Expression.Search on every document.
func (c *Ctx) c08Text(text string, family string) {
	feats := map[string]string{"family": family}
	pr := ref.Parse(text)
	e, lc := c.LibCompile(text)
	c.c08Contract("Compile", text, nil, lc)
	var staticCat ref.Cat
	staticSeen := false
	nontrivial := false
	for d, goDoc := range c08Go {
		ls := c.LibSearch(text, goDoc)
		c.c08Contract("Search", text, goDoc, ls)
		if ls.Panic != nil || lc.Panic != nil {
			bad := ls
			if lc.Panic != nil {
				bad = lc
			}
			c.Report(Violation{Rule: "C08/panic", Expr: text, Data: gen.Describe(goDoc), Got: ShowOut(bad), Want: "a result or an error", Features: feats})
			continue
		}
		// Compile and Search agree on static faults
		if lc.Err != nil {
			if ls.Err == nil {
				c.Report(Violation{Rule: "C08/compile-search-disagree", Expr: text, Data: gen.Describe(goDoc), Got: "Search succeeded: " + ShowOut(ls), Want: "the fault Compile reports: " + ShowOut(lc), Features: feats})
			} else if ls.Cats != lc.Cats {
				// both fail: the static category must be the same for every document
				c.Report(Violation{Rule: "C08/static-category-varies", Expr: text, Data: gen.Describe(goDoc), Got: ShowOut(ls), Want: ShowOut(lc) + " (Compile)", Features: feats})
			}
			if !staticSeen {
				staticCat, staticSeen = ls.Cats, true
			} else if ls.Err != nil && ls.Cats != staticCat {
				c.Report(Violation{Rule: "C08/static-category-varies", Expr: text, Data: gen.Describe(goDoc), Got: ShowOut(ls), Want: staticCat.String() + " (as for the other documents)", Features: feats})
			}
		} else {
			// a compiled Expression never reports a static fault
			le := c.LibExprSearch(e, text, goDoc)
			c.c08Contract("Expression.Search", text, goDoc, le)
			if le.Err != nil && le.Cats&staticCats != 0 {
				c.Report(Violation{Rule: "C08/static-fault-at-evaluation", Expr: text, Data: gen.Describe(goDoc), Got: ShowOut(le), Features: feats})
			}
			if ls.Err != nil && ls.Cats&staticCats != 0 {
				c.Report(Violation{Rule: "C08/compile-search-disagree", Expr: text, Data: gen.Describe(goDoc), Got: ShowOut(ls), Want: "no static fault: Compile succeeded", Features: feats})
			}
			bothInSet := false
			if d < len(c08DocsText) {
				bothInSet = MultiFaultOK(ref.SearchParsed(pr, c08Docs[d]), ls, le)
			} else if ls.Err != nil && le.Err != nil {
				bothInSet = true // unmodelled document: only the contract is checked
			}
			if !bothInSet && !SameOutcome(ls, le, Enumerates(text)) && !(Enumerates(text)) {
				c.Report(Violation{Rule: "C08/compile-search-disagree", Expr: text, Data: gen.Describe(goDoc), Got: ShowOut(le), Want: ShowOut(ls), Features: feats})
			}
		}
		// the category is the one the specification names
		if c08Docs[d] != nil || d < len(c08DocsText) {
			if d < len(c08DocsText) {
				m := ref.SearchParsed(pr, c08Docs[d])
				if judged, ok, why := Agree(m, ls); judged && !ok {
					c.Report(Violation{Rule: "C08/category", Expr: text, Data: c08DocsText[d], Got: ShowOut(ls), Want: m.String(), Detail: why, Features: feats})
				}
				if !m.Unspec && m.Fault != 0 {
					nontrivial = true
					if m.Fault.Count() == 1 {
						c.Count("single_fault_calls", 1)
					} else {
						c.Count("multi_fault_calls", 1)
					}
				}
			}
		}
	}
	if nontrivial {
		c.Nontrivial(text)
		if len(text) < 60 {
			c.Sample(map[string]any{"expr": text, "family": family, "compile": ShowOut(lc)})
		}
	}
}

// ---- fault generators, one per category and site

var c08List []struct{ text, family string }

func c08Build() {
	if c08List != nil {
		return
	}
	add := func(family, text string) {
		c08List = append(c08List, struct{ text, family string }{text, family})
	}
	// letters and digits of other alphabets glued to a name: a syntax fault whatever the document
	for i := 0; i < 768; i += 1 {
		r := string(rune(0x100 + i))
		if i%3 == 0 {
			add("foreign-letter-after-name", "a"+r)
		} else if i%3 == 1 {
			add("foreign-letter-after-function", "abs"+r+"(a)")
		} else {
			add("foreign-letter-after-variable", "let $v = a in $v"+r)
		}
	}
	for _, r := range []string{"ł", "ж", "あ", "ａ", "０", "𝐚", "é", "ß"} {
		add("foreign-letter-after-name", "xs[?a"+r+"]")
		add("foreign-letter-after-name", "{k: a"+r+"}")
	}
	plaus := func(fn string, i int) string { return c03Plausible(fn, i) }
	for _, fn := range ref.FunctionNames() {
		mn, mx, ex, _ := ref.Arity(fn)
		isE := func(i int) bool {
			for _, e := range ex {
				if e == i {
					return true
				}
			}
			return false
		}
		mk := func(n int) string {
			args := make([]string, n)
			for i := range args {
				if isE(i) {
					args[i] = "&a"
				} else {
					args[i] = plaus(fn, i)
				}
			}
			return fn + "(" + strings.Join(args, ", ") + ")"
		}
		// arity: every count from 0 to max+2 outside the signature
		top := mx
		if top < 0 {
			top = 3
		}
		for n := 0; n <= top+2; n++ {
			if n < mn || (mx >= 0 && n > mx) {
				add("arity", mk(n))
				add("arity-nested", "[a, "+mk(n)+"]")
				add("arity-nested-in-call", "to_string("+mk(n)+")")
				add("arity-nested-in-call", "not_null(a, "+mk(n)+")")
				add("arity-nested-in-expref", "map(&"+mk(n)+", xs)")
				add("arity-nested-in-expref", "sort_by(xs, &"+mk(n)+")")
				add("arity-nested-deep", "length(keys(merge(a, {k: "+mk(n)+"})))")
				add("arity-unreached", "`false` && "+mk(n))
			}
		}
		// expression reference in value position / value in expression-reference position
		if mx < 0 {
			mx = 2
		}
		for pos := 0; pos < mx; pos++ {
			args := make([]string, mx)
			for i := range args {
				if isE(i) {
					args[i] = "&a"
				} else {
					args[i] = plaus(fn, i)
				}
			}
			if isE(pos) {
				args[pos] = "a"
				add("value-in-expref-position", fn+"("+strings.Join(args, ", ")+")")
				add("value-in-expref-position-nested", "length("+fn+"("+strings.Join(args, ", ")+"))")
				add("value-in-expref-position-nested", "[a, not_null("+fn+"("+strings.Join(args, ", ")+"))]")
				// a variable does not make an expression reference either
				add("variable-in-expref-position", strings.Replace(fn+"("+strings.Join(args, ", ")+")", "(a,", "($k,", 1))
				add("variable-in-expref-position", "let $k = 'a' in "+strings.Replace(strings.Replace(fn+"("+strings.Join(args, ", ")+")", ", a)", ", $k)", 1), "(a,", "($k,", 1))
			} else {
				args[pos] = "&a"
				add("expref-in-value-position", fn+"("+strings.Join(args, ", ")+")")
				add("expref-in-value-position-nested", "to_string("+fn+"("+strings.Join(args, ", ")+"))")
				add("expref-in-value-position-nested", "map(&"+fn+"("+strings.Join(args, ", ")+"), xs)")
				add("expref-in-value-position-unreached", "`null` || `1` || "+fn+"("+strings.Join(args, ", ")+")")
			}
		}
		// invalid type at each position (well-formed call, wrong JSON type)
		for pos := 0; pos < mx; pos++ {
			if isE(pos) {
				continue
			}
			for _, bad := range []string{"`null`", "`true`", "`{}`", "`[]`", "`1`", "'s'"} {
				args := make([]string, mx)
				for i := range args {
					if isE(i) {
						args[i] = "&a"
					} else {
						args[i] = plaus(fn, i)
					}
				}
				args[pos] = bad
				add("invalid-type", fn+"("+strings.Join(args, ", ")+")")
			}
		}
	}
	// names of builtins that other implementations, proposals or habit suggest: none is defined here
	for _, n := range c08ForeignFunctions {
		add("unknown-function", n+"(a)")
		add("unknown-function", n+"(a, b)")
		add("unknown-function", n+"(&a, xs)")
		add("unknown-function-unreached", "`false` && "+n+"(`1`)")
	}
	for _, n := range []string{"Abs", "ABS", "to_String", "sortby", "sort_By", "len", "lenght", "foo", "a", "_", "x1", "not_nul", "tostring", "keys_", "min_By", "strlen", "string", "number", "avg2", "ma", "mapp"} {
		add("unknown-function", n+"(a)")
		add("unknown-function", n+"()")
		add("unknown-function-nested", "xs[*]."+n+"(@)")
		add("unknown-function-unreached", "`false` && "+n+"(`1`, `2`)")
		add("unknown-function-in-filter", "xs[?"+n+"(@)]")
	}
	for _, s := range []string{"xs[::0]", "xs[1:2:0]", "a[::0]", "'abc'[::0]", "@[::0]", "[::0]", "xs[*][::0]", "missing[::0]",
		"pad_left('a', `-1`)", "pad_left('a', `1.5`)", "pad_right('a', `2`, 'xy')", "pad_left('a', `2`, '')", "split('a', ',', `-1`)", "split('a', ',', `0.5`)", "replace('a', 'a', 'b', `-2`)", "replace('a', 'a', 'b', `1.5`)",
		"find_first('abc', 'b', `0.5`)", "find_last('abc', 'b', `1`, `2.5`)", "find_last('abc', 'b', `1.5`, `2.5`)", "find_first('abc', 'b', `1.5`, `2.5`)", "find_last('abc', 'b', `1e30`, `1e30`)", "find_first('abc', 'b', `1e30`, `1.5`)", "find_last('abc', 'b', `0.5`, `1e30`)", "find_last('abc', 'b', `1.5`, `1`)", "find_first('abc', 'b', `1.5`, 'x')", "find_last('abc', 'b', `1.5`, 'x')", "find_last('abc', 'b', 'x', `1.5`)", "from_items(`[[1, 2]]`)", "from_items(`[[\"a\"]]`)", "from_items(`[[\"a\", 1, 2]]`)", "from_items(`[[null, 1]]`)", "from_items(`[[]]`)",
		"xs[*].pad_left('a', `-1`)", "[pad_left('a', n - `1`)]", "xs[?pad_left('a', `-1`)]"} {
		add("invalid-value", s)
	}
	for _, s := range []string{"$v", "$a", "[$v]", "{k: $v}", "xs[*].[$v]", "xs[?$v]", "xs[?@ == $v]", "map(&$v, xs)", "sort_by(xs, &$v)", "max_by(xs, &$v)", "let $a = a in $b", "let $a = $a in $a", "let $a = a in [$a, $b]", "a | $v", "[let $v = a in $v, $v]", "$v || a", "a && $v", "abs($v)", "let $a = $b, $b = a in $a", "xs[0:1].[$v]", "not_null($v, a)", "{k: let $a = a in $b}"} {
		add("undefined-variable", s)
	}
	for _, s := range []string{"`1` / `0`", "n / n", "`1` // `0`", "`1` % `0`", "`0` / `0`", "`1` ÷ `0`", "big * big", "big * `10000000000000000000000000000000000000000000000000000000000000000000000000000000`", "big + big * big", "`-1` / `0`", "xs[*].[@ / `0`]", "xs[?@ / `0`]", "[`1` / `0`]", "avg(`[1]`) / `0`", "sum(xs) / n", "let $z = `0` in `1` / $z", "map(&(@ / `0`), xs)", "abs(`1` / `0`)"} {
		add("not-a-number", s)
	}
	// a fault raised at a later element of a per-element loop (positions come from the documents)
	for _, f := range []struct{ fam, num, str string }{
		{"undefined-variable", "(k || $missing)", "(s || $missing)"},
		{"invalid-type", "(k || abs('a'))", "(s || abs('a'))"},
		{"invalid-value", "(k || pad_left('a', `-1`))", "(s || pad_left('a', `-1`))"},
		{"not-a-number", "(k || `1` / `0`)", "(s || `1` / `0`)"},
		{"key-type", "k", "s"},
	} {
		for _, t := range []string{"sort_by(rs, &%s)", "max_by(rs, &%s)", "min_by(rs, &%s)", "map(&%s, rs)", "rs[*].%s", "rs[?%s]", "rs[].[%s]", "rs[*].{x: %s}", "rs[1:].%s", "rs[?k].%s", "sort_by(rs, &%s)[*].k", "rs | sort_by(@, &%s)", "let $z = `1` in max_by(rs, &%s)"} {
			add(f.fam+"-at-element", fmt.Sprintf(t, f.num))
			add(f.fam+"-at-element", fmt.Sprintf(t, f.str))
		}
		add(f.fam+"-at-element", fmt.Sprintf("group_by(rs, &%s)", f.str))
		add(f.fam+"-at-element", fmt.Sprintf("group_by(rs, &to_string(%s))", f.num))
	}
	// two-fault combinations: one of the categories present must be reported
	for _, s := range []string{"[foo(a), abs()]", "{x: $v, y: abs('a')}", "[abs('a'), `1` / `0`]", "abs('a') + $v", "[xs[::0], $v]", "sort_by(xs, a) || foo(1)", "[pad_left('a', `-1`), length(`1`)]", "let $a = $x, $b = abs('a') in $a", "[$a, $b] | foo(@)", "merge(`1`, $v)", "abs(length(`1`), `2`)", "foo(abs())"} {
		add("two-faults", s)
	}
	// syntax faults (C04 covers the grammar; here: contract on the error)
	for _, s := range []string{"a.", "a[", "[a", "{a:}", "a ||", "`{`", "'x", "\"x", "a..b", "a b", "#", "abs(", "abs(a,)", "let $a = in a", "a[1:2:3:4]", "@@", "&a"} {
		add("syntax", s)
	}
}

var c08ForeignFunctions = strings.Fields(`first last unique uniq flatten range slice substring substr concat format title capitalize strip now date regex_match regex_replace matches match search test sha256 md5 base64_encode base64_decode
	to_object to_json from_json parse_json json if ifelse when coalesce default exists has has_key index_of indexof count size len number string int integer float bool boolean round trunc truncate sqrt pow power mod div add sub mul neg sign log exp
	median mean stddev product any all none some every filter reduce fold each pluck pick omit entries from_entries to_entries object array list set union intersection difference distinct sort_desc sort_by_desc rsort take drop head tail nth chunk window
	lpad rpad ltrim rtrim startswith endswith includes like lowercase uppercase tolower toupper to_lower to_upper charat ord chr repeat env eval let get path lookup find find_all findall position contains_key is_null is_empty empty isnull nullif nvl iif
	group groupby group_by_key count_by sum_by avg_by min_of max_of minby maxby sortby to_bool to_boolean to_int to_float to_decimal to_date to_list to_set to_map map_values map_keys filter_keys with_entries walk paths leaf_paths del setpath getpath
	abs_ ceil_ floor_ avg_ Length LENGTH Keys Type Map Sort Join Merge Not_null notnull to_array_ toarray tonumber tostring pad pad_center center ljust rjust zfill split_lines lines words trim_all squeeze reverse_words`)

func c08N(c *Ctx) int { c08Build(); return len(c08List) }

func c08Run(c *Ctx, idx int) {
	x := c08List[idx]
	c.c08Text(x.text, x.family)
}

// random: generated expressions mutated into failing ones / evaluated on ill-typed documents
func c08Random(c *Ctx, idx int) {
	r := c.Rand("")
	doc := gen.Doc(r, 2)
	g := &gen.ExprGen{R: r, Root: doc, Funcs: 70, Lets: true, Arith: true}
	text := ref.Print(g.Expr(doc, 2))
	switch r.Intn(5) {
	case 0:
		text = gen.Mutate(r, text)
	case 1:
		text = strings.Replace(text, "(", "(&", 1)
	case 2:
		text = strings.Replace(text, ", ", ", $u, ", 1)
	case 3:
		for _, fn := range ref.FunctionNames() {
			if strings.Contains(text, fn+"(") {
				text = strings.Replace(text, fn+"(", fn+"x(", 1)
				break
			}
		}
	}
	if strings.Contains(text, "pad_") {
		return
	}
	c.c08Text(text, "random")
}

// history: a valid text is searched first, then decorated variants of it (runes
// that trimming functions remove but the grammar does not allow); the verdict on
// each text must not depend on what was evaluated before in the same process
var c08Decor = []string{"\v", "\f", "\u0085", "\u00a0", "\u2003", "\u3000", "\ufeff", "\x00", "\u200b"}

func c08History(c *Ctx, idx int) {
	c03Setup(c)
	r := c.Rand("")
	e := gen.Pick(r, c03Corpus)
	if pr := ref.Parse(e); pr.Status != ref.ParseOK {
		return
	}
	if idx%4 == 1 {
		c08AfterFailures(c, idx)
	}
	c.c08Text(e, "history-plain")
	c.c08Text(" "+e+" ", "history-spaced")
	for _, d := range c08Decor {
		c.c08Text(e+d, "history-decorated")
		c.c08Text(d+e, "history-decorated")
	}
	c.c08Text(e, "history-plain-again")
	// every prefix of the text, shortest first, then the text again, then texts it is a prefix of:
	// verdicts keyed by a truncated or hashed text would leak between neighbours
	if idx%8 == 0 && len(e) <= 60 {
		for k := 1; k < len(e); k++ {
			if utf8.RuneStart(e[k]) {
				c.c08Text(e[:k], "history-prefix")
			}
		}
		c.c08Text(e, "history-plain-after-prefixes")
		for _, suffix := range []string{".a", "[0]", " | @", " || a", ")", "]", " a", ".", "x"} {
			c.c08Text(e+suffix, "history-extension")
		}
		c.c08Text(e, "history-plain-after-extensions")
	}
}

// c08AfterFailures: evaluations that fail half-way (one binding of a let with several, one member of
// a multi-select, a late argument, a late element) leave nothing behind: the texts searched right
// after them get the category - or the value - they get in a fresh process. Which binding or member
// is evaluated first varies with map order, so each failing text is searched several times.
var c08Poisoners = []string{"let $a = 'stale', $b = abs(s) in [$a, $b]", "let $a = n, $b = abs(s), $c = m in [$a, $b, $c]", "let $a = 'stale' in let $b = abs(s), $z = 'z' in $a", "{a: 'stale', b: abs(s), z: n}", "[n, abs(s), m]", "not_null(n, abs(s))",
	"let $a = 'stale', $b = $nope in $a", "xs[*].[let $a = @, $b = abs(@) in $a]", "map(&(let $a = @, $b = abs(@) in $a), xs)", "sort_by(xs, &(let $a = @, $b = abs(@) in $b))", "let $a = 'stale', $b = `1` / `0` in $a", "let $a = 'stale', $b = to_number(s) + s in $a",
	"let $a = 'stale', $b = 'b', $c = 'c', $d = 'd', $e = 'e', $f = abs(s) in $a", "merge({a: 'stale'}, abs(s))", "let $a = 'stale' in abs(s)", "let $a = 'stale' in [$a, abs(s)]"}

var c08Victims = []string{"let $c = @ in $a", "let $z = 'z' in [$z, $b]", "$a", "{x: $a}", "let $a = 'mine' in let $q = 'q' in $a", "let $q = 'q' in let $r = 'r' in [$q, $r, $c]", "[*].[let $k = @ in $a]", "let $c = 'c' in $c", "let $b = 'mine', $z = 'z' in [$b, $z]", "let $k = 'k' in {a: $a, k: $k}",
	"map(&(let $k = @ in $b), [`1`])", "let $f = 'mine' in let $g = 'g' in [$f, $g, $e]"}

func c08AfterFailures(c *Ctx, idx int) {
	doc := map[string]any{"s": "text", "n": json.Number("1"), "m": json.Number("2"), "xs": []any{json.Number("1"), "a", json.Number("3")}}
	p := c08Poisoners[(idx/4)%len(c08Poisoners)]
	for _, v := range c08Victims {
		for k := 0; k < 3; k++ {
			c.LibSearch(p, doc)
			if e, lc := c.LibCompile(p); lc.Err == nil && lc.Panic == nil {
				c.LibExprSearch(e, p, doc)
			}
		}
		c.c08Text(v, "history-after-failure")
	}
}

func init() {
	Register(&Property{
		ID:            "C08",
		Rule:          "failing texts generated per category and site - every builtin with every wrong argument count (also nested in multi-selects, in other calls' arguments, in expression references, three calls deep, and in never-evaluated branches), unknown names incl. near misses and ~250 names of builtins that other implementations or proposals define, expression references in value position and values in expression-reference position for every function and position, a wrong JSON type at every argument position, every invalid-value site (slice step 0, negative/non-integral counts and widths, pad strings, from_items shapes), undefined variables at top level/projections/filters/expression references/let bodies, every dynamic fault category raised at the first / a middle / the last element of each per-element construct (sort_by, max_by, min_by, group_by, map, projections, filters, multi-selects), division by zero and overflow per operator, two-fault combinations, syntax faults, plus seeded mutated expressions, plus call histories (a valid text searched first, then the same text decorated with runes that trimming removes but the grammar rejects; every prefix of a text shortest first, the text again, then extensions of it; 16 evaluations that fail half-way - one binding of a let with several, one member of a multi-select, a late argument or element - searched three times each before each of 12 texts whose fault or value is fixed, e.g. lets that read names the failed let had bound) - each run through Compile and through Search and Expression.Search on 13 documents (null, scalar, arrays, objects, fault-triggering, foreign Go values); checks per call: nil result with an error, exactly one exported category under errors.Is, non-empty text, category = the model's (single fault) or within the model's fault set (several), Compile and Search report the same static fault for every document, a compiled Expression never reports syntax/arity/unknown-function; non-trivial = the model expects an error on at least one document; distinct by text; static faults are also run against 15 top-level documents of standard-library types (raw JSON well-formed / truncated / empty, byte slices, readers, big numbers, typed nils); failing-marshalers stream: data values whose MarshalJSON / MarshalText fail with each exported error (as returned by the library, bare, wrapped once and twice, joined) and with errors of other packages, as the value, behind a pointer, nested, as a map key, through 12 expressions: exactly one category, never a static one, evaluation-failed or invalid-type; letters and digits of other alphabets (U+0100..U+03FF and 8 look-alikes) glued to an identifier, a function name and a variable are syntax faults for every document",
		MinNontrivial: 500,
		Streams: []Stream{
			{Name: "sites", Setup: c08Setup, N: c08N, Run: c08Run, Exhaustive: true},
			{Name: "random", Setup: c08Setup, N: func(c *Ctx) int { return tierN(c, 20000, 5000000) }, Run: c08Random},
			{Name: "history", Setup: c08Setup, N: func(c *Ctx) int { return tierN(c, 1500, 20000) }, Run: c08History},
			{Name: "failing-marshalers", N: c08MarshalN, Run: c08Marshal, Exhaustive: true},
		},
	})
	_ = jmespath.ErrSyntax
}

// ---- errors that come out of the data
//
// A document may contain values with methods (json.Marshaler, encoding.TextMarshaler, error,
// fmt.Stringer); the only place the library calls into them is when it serialises a value
// (to_string, and error texts).  Their errors are foreign to the library: whatever they are - one of
// this package's own exported errors (a value that renders itself with jmespath.Search and passes the
// error on), a wrapped one, an error of another package - the failure of the outer call is one
// evaluation failure: exactly one category, never a static one for an expression that compiled.
type failingValue struct {
	err  error
	text bool
}

func (f failingValue) MarshalJSON() ([]byte, error) {
	if f.text {
		return []byte(`"ok"`), nil
	}
	return nil, f.err
}

func (f failingValue) MarshalText() ([]byte, error) { return nil, f.err }

type failingText struct{ err error }

func (f failingText) MarshalText() ([]byte, error) { return nil, f.err }

func c08InnerErrors() []error {
	var out []error
	for _, q := range []string{"items[", "abs(a, b)", "nosuch(a)", "abs('x')", "pad_left('a', `-1`)", "$undefined", "`1` / `0`", "abs(&a)"} {
		_, err := jmespath.Search(q, map[string]any{"a": 1, "b": 2})
		if err != nil {
			out = append(out, err, fmt.Errorf("rendering report: %w", err))
		}
	}
	for _, s := range sentinels {
		out = append(out, s.e, fmt.Errorf("wrapped twice: %w", fmt.Errorf("inner: %w", s.e)))
	}
	out = append(out, io.EOF, io.ErrUnexpectedEOF, errors.New("plain"), fmt.Errorf("os: %w", os.ErrNotExist), &json.SyntaxError{Offset: 3}, errors.Join(jmespath.ErrSyntax, jmespath.ErrInvalidType))
	return out
}

func c08MarshalN(c *Ctx) int { return len(c08InnerErrors()) }

func c08Marshal(c *Ctx, idx int) {
	inner := c08InnerErrors()[idx]
	vals := []any{failingValue{err: inner}, &failingValue{err: inner}, failingText{inner}, map[string]any{"k": failingValue{err: inner}}, []any{json.Number("1"), failingText{inner}}, map[failingText]any{{inner}: 1}}
	for vi, v := range vals {
		doc := map[string]any{"report": v, "ok": "x", "list": []any{"a", v}}
		for _, text := range []string{"to_string(report)", "to_string(@)", "[ok, to_string(report)]", "map(&to_string(@), list)", "list[?to_string(@) == 'a']", "join(',', [to_string(report)])", "not_null(missing, to_string(report))", "to_string(report) || ok", "report", "type(report)", "length(to_string(list))", "sort_by(list, &to_string(@))"} {
			feats := map[string]string{"family": "failing-marshaler", "inner_error": clipS(inner.Error(), 60), "value": fmt.Sprint(vi)}
			ls := c.LibSearch(text, doc)
			c.c08Contract("Search", text, doc, ls)
			e, lc := c.LibCompile(text)
			if lc.Err != nil || lc.Panic != nil {
				continue
			}
			le := c.LibExprSearch(e, text, doc)
			c.c08Contract("Expression.Search", text, doc, le)
			for _, l := range []LibOut{ls, le} {
				if l.Panic != nil {
					c.Report(Violation{Rule: "C08/panic", Expr: text, Data: gen.Describe(doc), Got: ShowOut(l), Features: feats})
				} else if l.Err != nil && l.Cats&staticCats != 0 {
					c.Report(Violation{Rule: "C08/static-fault-at-evaluation", Expr: text, Data: gen.Describe(doc), Got: ShowOut(l), Want: "no static category: the expression compiled", Features: feats})
				} else if l.Err != nil && l.Cats != ref.CatEvalFailed && l.Cats != ref.CatType {
					// (a foreign value where a JSON value is required is an invalid-type fault; a failing
					// method of a data value is an evaluation failure)
					c.Report(Violation{Rule: "C08/category", Expr: text, Data: gen.Describe(doc), Got: ShowOut(l), Want: "evaluation-failed or invalid-type (the fault is a foreign data value or one of its methods)", Features: feats})
				}
			}
			if ls.Err != nil {
				c.Nontrivial(text, fmt.Sprint(idx), fmt.Sprint(vi))
			}
		}
	}
}
