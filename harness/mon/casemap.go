package mon

import (
	"fmt"
	"strings"
	"unicode"
	"unicode/utf8"

	"verif/harness/gen"
	"verif/harness/ref"
)

// Case conversion over the whole code space: lower/upper are the only builtins whose result depends
// on per-character tables, so a change to them is wrong for a handful of code points and right for
// every character a generator would think of.  Two streams walk every code point that has a case
// mapping in the Unicode tables (about 2900) plus their neighbours:
//   - C02: where every Unicode-aware implementation agrees (ref.CaseDecided) the result is compared
//     with the model;
//   - C11: for all of them the result must be valid UTF-8 and the library's own length() of it must be
//     its code point count (a conversion "in place" goes wrong where the two cases differ in width).

var casedRunes []rune

func casedSetup() {
	if casedRunes != nil {
		return
	}
	for r := rune(0x80); r <= unicode.MaxRune; r++ {
		if r >= 0xD800 && r <= 0xDFFF {
			continue
		}
		if unicode.ToLower(r) != r || unicode.ToUpper(r) != r || unicode.ToTitle(r) != r || unicode.Is(unicode.Other_Lowercase, r) || unicode.Is(unicode.Other_Uppercase, r) {
			casedRunes = append(casedRunes, r)
		}
	}
	// uncased neighbours and a few uncased characters of every width
	for _, r := range []rune{0xD7, 0xF7, 0x2150, 0x215F, 0x2180, 0x2188, 0x24B5, 0x24EA, 0x3042, 0x65E5, 0x1D306, 0x1F600, 0x0301, 0xFF10, 0x0660} {
		casedRunes = append(casedRunes, r)
	}
}

const casedPerCase = 8

func casedN(c *Ctx) int { casedSetup(); return (len(casedRunes) + casedPerCase - 1) / casedPerCase }

func casedSlice(idx int) []rune {
	casedSetup()
	lo := idx * casedPerCase
	hi := lo + casedPerCase
	if hi > len(casedRunes) {
		hi = len(casedRunes)
	}
	return casedRunes[lo:hi]
}

func c02CaseMap(c *Ctx, idx int) {
	for _, r := range casedSlice(idx) {
		if !ref.CaseDecided(r) {
			c.Count("case_mapping_left_open", 1)
			continue
		}
		for _, s := range []string{string(r), "a" + string(r) + "Z", string(r) + string(r) + "é"} {
			doc := ref.NewObj()
			doc.Set("s", s)
			doc.Set("xs", &ref.Arr{E: []ref.V{s, "Q"}})
			for _, text := range []string{"lower(" + ref.RawString(s) + ")", "upper(" + ref.RawString(s) + ")", "[lower(s), upper(s)]", "map(&upper(@), xs)", "xs[?lower(@) == lower(" + ref.RawString(s) + ")]", "lower(upper(s)) == lower(s)"} {
				m, _ := c.CheckModel("C02", text, doc, ref.ToGo(doc, ref.JSONNumber), CheckOpts{Features: map[string]string{"stream": "case-mapping", "code_point": fmt.Sprintf("U+%04X", r)}})
				if !m.Unspec {
					c.Nontrivial(text)
				}
			}
		}
	}
}

func c11CaseMap(c *Ctx, idx int) {
	for _, r := range casedSlice(idx) {
		for _, s := range []string{string(r), "a" + string(r) + "Z", string(r) + string(r) + "é", "é" + string(r)} {
			data := map[string]any{"s": s}
			for _, fn := range []string{"lower", "upper"} {
				l := c.LibSearch(fn+"(s)", data)
				if l.Err != nil || l.Panic != nil {
					c.Report(Violation{Rule: "C11/case-conversion-fails", Expr: fn + "(s)", Data: gen.Describe(data), Got: ShowOut(l), Want: "a string"})
					continue
				}
				out, ok := l.Res.(string)
				if !ok {
					c.Report(Violation{Rule: "C11/case-conversion-fails", Expr: fn + "(s)", Data: gen.Describe(data), Got: ShowOut(l), Want: "a string"})
					continue
				}
				feats := map[string]string{"stream": "case-mapping", "code_point": fmt.Sprintf("U+%04X", r)}
				if !utf8.ValidString(out) {
					c.Report(Violation{Rule: "C11/invalid-utf8-result", Expr: fn + "(s)", Data: gen.Describe(data), Got: fmt.Sprintf("%q", out), Want: "valid UTF-8 (the input is valid UTF-8)", Features: feats})
				}
				ll := c.LibSearch("[length("+fn+"(s)), length(split("+fn+"(s), '')), "+fn+"(s)[::-1] == reverse("+fn+"(s)), "+fn+"(s) == "+fn+"("+ref.RawString(s)+")]", data)
				want := fmt.Sprintf("[%d,%d,true,true]", utf8.RuneCountInString(out), utf8.RuneCountInString(out))
				got := strings.ReplaceAll(ShowOut(ll), " ", "")
				if ll.Err != nil || ll.Panic != nil || got != want {
					c.Report(Violation{Rule: "C11/code-point-measure", Expr: "[length(" + fn + "(s)), length(split(" + fn + "(s), '')), ...]", Data: gen.Describe(data), Got: ShowOut(ll), Want: want + fmt.Sprintf(" (%s(s) = %q)", fn, out), Features: feats})
				}
				c.Nontrivial(fn, s)
			}
		}
	}
}

// ---- trim: what counts as white space at the edges
//
// With $chars omitted or empty, the trim family removes the specification's white space - the 25
// code points of Unicode's White_Space property, which the compliance corpus spells out - and
// nothing else.  Every code point of the categories Z*, Cc and Cf, the other invisible or blank-looking
// characters (Mongolian vowel separator, Hangul fillers, Braille blank, zero-width characters), and
// all of Latin-1 stand at both edges of a subject, alone and mixed with real white space.
var trimRunes []rune

func trimSetup() {
	if trimRunes != nil {
		return
	}
	seen := map[rune]bool{}
	add := func(r rune) {
		if !seen[r] && !(r >= 0xD800 && r <= 0xDFFF) {
			seen[r] = true
			trimRunes = append(trimRunes, r)
		}
	}
	for r := rune(0); r <= 0xFF; r++ {
		add(r)
	}
	for r := rune(0x100); r <= unicode.MaxRune; r++ {
		if unicode.In(r, unicode.Z, unicode.Cc, unicode.Cf) || unicode.Is(unicode.White_Space, r) || unicode.Is(unicode.Other_Default_Ignorable_Code_Point, r) {
			add(r)
		}
	}
	for _, r := range []rune{0x180E, 0x034F, 0x115F, 0x1160, 0x17B4, 0x17B5, 0x3164, 0xFFA0, 0x2800, 0x200B, 0x2060, 0xFEFF, 0x00AD, 0x1D159, 0x1D173, 0xE0020, 0xE0001, 0x2422, 0x2423, 0x3000, 0x303F, 0xFFFD, 0x10FFFF} {
		add(r)
	}
}

func trimN(c *Ctx) int { trimSetup(); return (len(trimRunes) + 3) / 4 }

func c02TrimEdges(c *Ctx, idx int) {
	trimSetup()
	lo := idx * 4
	hi := lo + 4
	if hi > len(trimRunes) {
		hi = len(trimRunes)
	}
	for _, r := range trimRunes[lo:hi] {
		x := string(r)
		for _, s := range []string{x + "abc" + x, " " + x + " abc\t" + x + "\n", x, x + x, "abc " + x + " ", " " + x + "a" + x + "　"} {
			doc := ref.NewObj()
			doc.Set("s", s)
			for _, text := range []string{"trim(s)", "trim_left(s)", "trim_right(s)", "trim(s, '')", "trim_left(s, '')", "trim_right(s, '')", "[length(trim(s)), trim(s) == trim_left(trim_right(s))]"} {
				m, _ := c.CheckModel("C02", text, doc, ref.ToGo(doc, ref.JSONNumber), CheckOpts{Features: map[string]string{"stream": "trim-edges", "code_point": fmt.Sprintf("U+%04X", r)}})
				if !m.Unspec {
					c.Nontrivial(text, s)
				}
			}
		}
	}
}
