package mon

import (
	"verif/harness/ref"
)

// The exhaustive selector-chain grid: every chain of <= L postfix selectors
// after each root form, over fixed documents containing nulls, empty
// containers, nested arrays and scalars in container position.

var gridSelectors = []string{".a", `."k k"`, "[0]", "[-1]", "[9]", "[*]", ".*", "[]", "[?a]", "[?@]", "[:2]", "[::-1]", ".[a,b]", ".{x:a}"}

var gridRoots = []string{"@", "a", "*", "[*]", "[]", "`[[1,null,{\"a\":2}],null,{\"a\":[3]}]`", "`{\"a\":{\"a\":null,\"b\":[1]},\"b\":null}`"}

var gridDocsText = []string{
	`null`,
	`{"a":null,"b":1}`,
	`{"a":{"a":{"a":1,"b":null},"b":[1,2]},"b":[{"a":1},{"a":null},null,3]}`,
	`[null,{"a":1,"b":2},{"a":null},[1,[2,null]],"s",[]]`,
	`{"a":[{"a":[1,null,2],"b":"x"},null,{"a":[]},{"a":"str"}],"k k":{"a":7}}`,
	`[[{"a":1,"b":null},{"a":[1,2]}],[null],[],{"a":{"a":5}}]`,
	`{"a":[[1,2],[3,[4,null]],null,"x"],"b":{}}`,
	`[{"a":true,"b":false},{"a":false},{"a":""},{"a":0},{"a":[]},{"a":{}},{"a":null}]`,
	`{"a":"string","b":5}`,
	`[]`,
	`{}`,
	`[0,1,2,3]`,
}

var gridDocs []ref.V
var gridGo []any

func gridSetup() {
	if gridDocs != nil {
		return
	}
	for _, t := range gridDocsText {
		v, err := ref.FromJSON(t)
		if err != nil {
			panic(err)
		}
		gridDocs = append(gridDocs, v)
		gridGo = append(gridGo, ref.ToGo(v, ref.JSONNumber))
	}
}

func gridLen(c *Ctx) int { return tierN(c, 3, 4) }

func pow(b, e int) int {
	r := 1
	for i := 0; i < e; i++ {
		r *= b
	}
	return r
}

// number of chains of length 0..L
func gridChains(L int) int {
	n := 0
	for l := 0; l <= L; l++ {
		n += pow(len(gridSelectors), l)
	}
	return n
}

func c01GridN(c *Ctx) int {
	return gridChains(gridLen(c)) * len(gridRoots)
}

func gridExpr(idx int, L int) string {
	nc := gridChains(L)
	root := gridRoots[idx/nc]
	k := idx % nc
	l := 0
	for k >= pow(len(gridSelectors), l) {
		k -= pow(len(gridSelectors), l)
		l++
	}
	s := root
	for i := 0; i < l; i++ {
		sel := gridSelectors[k%len(gridSelectors)]
		k /= len(gridSelectors)
		// "@" followed by a bracket selector is fine; "*" followed by ".*" etc too
		s += sel
	}
	return s
}

func c01Grid(c *Ctx, idx int) {
	gridSetup()
	text := gridExpr(idx, gridLen(c))
	pr := ref.Parse(text)
	e, lc := c.LibCompile(text)
	for d, doc := range gridDocs {
		m := ref.SearchParsed(pr, doc)
		var l LibOut
		if lc.Err != nil || lc.Panic != nil {
			l = lc
		} else {
			l = c.LibExprSearch(e, text, gridGo[d])
		}
		if m.Unspec {
			c.Count("abstained", 1)
		}
		judged, ok, why := Agree(m, l)
		if judged && !ok {
			c.Report(Violation{Rule: "C01/model", Expr: text, Data: gridDocsText[d], Got: ShowOut(l), Want: m.String(), Detail: why})
		}
		if IsNontrivialOutcome(m) {
			c.Nontrivial(text, gridDocsText[d])
		}
	}
}
