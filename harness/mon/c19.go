package mon

import (
	"fmt"
	"strings"

	"verif/harness/gen"
	"verif/harness/ref"
)

var c19DocText = `{"id":"root","n":1,"xs":[{"id":"x0","n":2,"xs":[{"id":"x00","n":5,"xs":[]},{"id":"x01","n":6,"xs":[]}]},{"id":"x1","n":3,"xs":[{"id":"x10","n":7,"xs":[]}]},{"id":"x2","n":4,"xs":[]}],"o":{"id":"o","n":9,"xs":[{"id":"o0","n":8,"xs":[]}]}}`

var c19Doc ref.V
var c19Go any

func c19Setup(c *Ctx) {
	if c19Doc == nil {
		c19Doc, _ = ref.FromJSON(c19DocText)
		c19Go = ref.ToGo(c19Doc, ref.JSONNumber)
	}
}

type scopeGen struct {
	r   *gen.R
	tag int
}

var c19Vars = []string{"$a", "$b", "$c"}
var c19WideVars = []string{"$a", "$b", "$c", "$d", "$e", "$f", "$g", "$h", "$i", "$j", "$k", "$l"}

func (g *scopeGen) lit() string {
	g.tag++
	return fmt.Sprintf("'t%d'", g.tag)
}

// expr generates an expression; scope lists the variables bound here.
func (g *scopeGen) expr(depth int, scope []string) string {
	r := g.r
	if depth <= 0 {
		return g.leaf(scope)
	}
	switch r.Weighted([]int{14, 22, 10, 8, 8, 8, 6, 6, 6, 4, 4, 4}) {
	case 0:
		return g.leaf(scope)
	case 1: // let
		nb := 1 + r.Intn(2)
		pool := c19Vars
		if r.Chance(8) {
			// a wide let: more bindings than any small inline table holds
			nb = 5 + r.Intn(6)
			pool = c19WideVars
		}
		var names []string
		var binds []string
		for i := 0; i < nb; i++ {
			v := gen.Pick(r, pool)
			dup := false
			for _, x := range names {
				if x == v {
					dup = true
				}
			}
			if dup {
				continue
			}
			names = append(names, v)
			// bindings are evaluated in the enclosing scope (they must not see each other)
			binds = append(binds, v+" = "+g.bind(depth-1, scope))
		}
		inner := append(append([]string{}, scope...), names...)
		if len(names) >= 5 && r.Chance(50) {
			// some names bound a second time in the same let (which binding wins is not pinned,
			// so the body may use only the others): whatever the parser does to resolve the
			// duplicates must not disturb the names bound once
			again := map[string]bool{}
			for k := 0; k < 1+r.Intn(3); k++ {
				v := gen.Pick(r, names)
				again[v] = true
				binds = append(binds, v+" = "+g.bind(depth-1, scope))
			}
			inner = append([]string{}, scope...)
			for _, v := range names {
				if !again[v] {
					inner = append(inner, v)
				}
			}
		}
		return "let " + strings.Join(binds, ", ") + " in " + g.expr(depth-1, inner)
	case 2:
		return "[" + g.expr(depth-1, scope) + ", " + g.expr(depth-1, scope) + "]"
	case 3:
		return "{p: " + g.expr(depth-1, scope) + ", q: " + g.expr(depth-1, scope) + "}"
	case 4: // array projection changes the current node, not the scope
		return "xs[*].[" + g.expr(depth-1, scope) + "]"
	case 5: // filter: condition and projected body both see the scope
		return "xs[?" + g.cond(scope) + "].[" + g.expr(depth-1, scope) + "]"
	case 6: // pipe
		return gen.Pick(r, []string{"xs[0]", "o", "xs[1].xs[0]", "xs[-1]"}) + " | " + g.paren(g.expr(depth-1, scope))
	case 7: // expression references capture the caller's scope
		return gen.Pick(r, []string{"map(&[%s, id], xs)", "map(&%s, o.xs)", "sort_by(xs, &n)[*].[%s]", "max_by(xs, &n).[%s]", "xs[*].[%s][]"}) + ""
	case 8:
		t := gen.Pick(r, []string{"map(&[%s, id], xs)", "map(&%s, o.xs)", "sort_by(xs, &n)[*].[%s]", "max_by(xs, &n).[%s]", "min_by(xs, &n).[%s]"})
		return fmt.Sprintf(t, g.expr(depth-1, scope))
	case 9: // a key computed through a variable
		v := g.numVar(scope)
		if v == "" {
			return g.leaf(scope)
		}
		return gen.Pick(r, []string{"sort_by(xs, &(n * " + v + "))[*].id", "max_by(xs, &(n - " + v + ")).id", "map(&(n + " + v + "), xs)", "xs[?n > " + v + "].id"})
	case 10: // object projection / flatten
		return gen.Pick(r, []string{"o.xs[].[%s]", "xs[].xs[].[%s]", "xs[1:].[%s]", "(xs)[*].[%s]"})
	case 11: // boolean operators
		return g.paren(g.expr(depth-1, scope)) + gen.Pick(r, []string{" || ", " && "}) + g.paren(g.expr(depth-1, scope))
	}
	return g.leaf(scope)
}

func (g *scopeGen) paren(s string) string { return "(" + s + ")" }

// numVar returns a variable bound to a number in scope, if the generator knows one
func (g *scopeGen) numVar(scope []string) string {
	for i := len(scope) - 1; i >= 0; i-- {
		if scope[i] == "$c" {
			return "$c"
		}
	}
	return ""
}

func (g *scopeGen) leaf(scope []string) string {
	r := g.r
	switch r.Weighted([]int{45, 8, 15, 12, 10, 10}) {
	case 0:
		if len(scope) > 0 {
			return gen.Pick(r, scope)
		}
		return "id"
	case 1: // possibly unbound
		if r.Chance(30) {
			return gen.Pick(r, c19WideVars)
		}
		return gen.Pick(r, c19Vars)
	case 2:
		return "id"
	case 3:
		return g.lit()
	case 4:
		if len(scope) > 0 {
			return "[" + gen.Pick(r, scope) + ", id]"
		}
		return "@.id"
	}
	return "xs[0].id"
}

// bind generates the bound expression: tagged, context-dependent, or referring to outer variables
func (g *scopeGen) bind(depth int, scope []string) string {
	r := g.r
	switch r.Weighted([]int{25, 25, 15, 15, 10, 10, 9}) {
	case 6: // a binding whose value is null still binds (and shadows)
		return gen.Pick(r, []string{"missing", "`null`", "xs[9]", "o.missing"})
	case 0:
		return "id"
	case 1:
		return "[id, " + g.lit() + "]"
	case 2:
		if len(scope) > 0 {
			return "[" + gen.Pick(r, scope) + ", " + g.lit() + "]"
		}
		return g.lit()
	case 3:
		return gen.Pick(r, c19Vars) // same-name outer binding, sibling, or unbound
	case 4:
		return "n"
	}
	if depth > 0 && r.Chance(50) {
		// a let inside a binding expression (evaluated in the enclosing scope)
		v := gen.Pick(r, c19Vars)
		return "(let " + v + " = " + g.bind(depth-1, scope) + " in " + g.leaf(append(append([]string{}, scope...), v)) + ")"
	}
	return g.expr(depth, scope)
}

func (g *scopeGen) cond(scope []string) string {
	r := g.r
	if len(scope) > 0 && r.Chance(60) {
		v := gen.Pick(r, scope)
		return gen.Pick(r, []string{"id == " + v, "[id] == " + v + "[:1]", v + " != id", "n > `2` && " + v, "!" + v})
	}
	return gen.Pick(r, []string{"n > `2`", "id != 'x1'", "$a", "xs"})
}

func c19Random(c *Ctx, idx int) {
	r := c.Rand("")
	g := &scopeGen{r: r}
	var text string
	for try := 0; try < 6; try++ {
		text = g.expr(3+r.Intn(2), nil)
		if strings.Contains(text, "%s") {
			text = strings.ReplaceAll(text, "%s", g.leaf(nil))
		}
		if strings.Contains(text, "let ") {
			break
		}
	}
	if r.Chance(25) {
		if pr := ref.Parse(text); pr.Status == ref.ParseOK {
			text = ref.PrintWith(pr.Node, spellings(r)[1])
		}
	}
	m, _ := c.CheckModel("C19", text, c19Doc, c19Go, CheckOpts{Compiled: idx%3 == 0})
	if !m.Unspec && strings.Contains(text, "$") {
		c.Nontrivial(text)
		if m.Fault == 0 {
			c.Sample(map[string]any{"expr": text, "model": m.String()})
		} else {
			c.Count("expected_undefined_variable_errors", 1)
		}
	}
}

// canonical scope shapes (fixed list)
var c19Shapes = []string{
	"let $a = id in $a",
	"let $a = id in xs[*].[$a, id]",
	"let $a = id in xs[*].xs[*].[$a, id]",
	"let $a = id in xs[?id != $a].id",
	"let $a = 'x1' in xs[?id == $a].n",
	"let $a = id in xs[0] | [$a, id]",
	"let $a = id in o.[$a, id]",
	"let $a = id in {k: $a, j: xs[0].{k: $a, i: id}}",
	"let $a = id in map(&[$a, id], xs)",
	"let $a = n in sort_by(xs, &(n * $a))[*].id",
	"let $a = n in max_by(xs, &(n - $a)).id",
	"let $a = n in min_by(xs, &(n * (`0` - $a))).id",
	"let $a = 'g' in group_by(xs, &$a)",
	"let $a = id in xs[*].[let $a = id in $a]",
	"let $a = id in xs[*].[let $b = id in [$a, $b]]",
	"let $a = id in [let $a = 't' in $a, $a]",
	"let $a = id in let $a = [$a, 'inner'] in $a",
	"let $a = 'outer' in let $a = 'in-a', $b = $a in $b",
	"let $a = 'outer' in let $b = $a, $a = 'in-a' in [$a, $b]",
	"let $a = 'x', $b = $a in $b",
	"let $b = $a, $a = 'x' in $b",
	"let $a = $a in $a",
	"let $a = 'x' in let $a = $a in $a",
	"[let $a = 'x' in $a, $a]",
	"{p: let $a = 'x' in $a, q: $a}",
	"(let $a = 'x' in $a) || $a",
	"let $a = 'x' in $b",
	"$a",
	"xs[*].[$a]",
	"xs[?$a]",
	"map(&$a, xs)",
	"sort_by(xs, &$a)",
	"let $a = 'x' in `false` && $b",
	"let $a = 'x' in `true` || $b",
	"let $a = id in xs[*].[$a][]",
	"let $a = xs[*].id in [$a, xs[0] | $a]",
	"let $a = @ in $a.xs[0] | [$a.id, id]",
	"let $r = $ in xs[0] | [$r.id, $.id, id]",
	"let $a = 'one', $b = 'two' in [$a, $b, let $a = $b, $b = $a in [$a, $b]]",
	"xs[*].[let $i = id in xs[*].[$i, id]]",
	"let $f = xs[?n > `2`] in $f[*].id",
	"let $a = `null` in [$a, $a == `null`]",
	"let $a = id in (xs[*] | [0] | [$a, id])",
	"let $a = 'A' in xs[*].{k: let $b = id in [$a, $b], j: $a}",
	"let $n = `2` in xs[?n > $n].[id, let $n = n in xs[?n > $n].id]",
	// names bound twice in one let do not disturb the names bound once
	"let $a = `1`, $b = `2`, $c = `3`, $d = `4`, $e = `5`, $f = `6`, $g = `7`, $h = `8`, $i = `9`, $a = `1`, $b = `2` in $c",
	"let $a = `1`, $b = `2`, $c = `3`, $d = `4`, $e = `5`, $f = `6`, $g = `7`, $h = `8`, $i = `9`, $a = `1`, $b = `2` in [$c, $d, $e, $f, $g, $h, $i]",
	"let $c = 'outer' in let $a = `1`, $b = `2`, $c = `3`, $d = `4`, $e = `5`, $f = `6`, $g = `7`, $h = `8`, $i = `9`, $b = `0`, $a = `0` in [$c, $i]",
	"let $a = 'x', $b = 'y', $a = 'z' in $b",
	"let $a = id, $b = n, $c = id, $b = id, $a = n in xs[*].[$c, id]",
	"let $a = `1`, $b = `2`, $c = `3`, $d = `4`, $e = `5`, $f = `6`, $g = `7`, $h = `8`, $i = `9`, $j = `10`, $k = `11`, $l = `12`, $c = `0`, $f = `0`, $i = `0` in [$a, $b, $d, $e, $g, $h, $j, $k, $l]",
	// lets inside the binding expressions of a let with several bindings
	"let $a = 'a0', $b = 'b0', $c = 'c0' in let $a = (let $t = 't' in 'a1'), $b = (let $t = 't' in 'b1') in [$a, $b, $c]",
	"let $a = (let $t = id in $t), $b = (let $u = n in $u), $c = (let $v = 'c' in $v) in [$a, $b, $c]",
	"let $p = 'p' in let $a = (let $t = $p in [$t, 'a']), $b = (let $t = $p in [$t, 'b']), $c = $p in [$a, $b, $c]",
	"let $a = id, $b = (let $a = 'inner-b' in $a), $c = (let $a = 'inner-c' in $a) in [$a, $b, $c]",
	"let $a = xs[*].[let $i = id in $i], $b = xs[*].[let $k = n in $k] in [$a, $b]",
	// wide lets, and narrow lets after them that look up names they do not bind
	"let $a = 'A', $b = 'B', $c = 'C', $d = 'D', $e = 'E', $f = 'F', $g = 'G', $h = 'H' in [$a, $b, $c, $d, $e, $f, $g, $h]",
	"let $q = 't' in $a",
	"let $q = 't' in [$q, $h]",
	"let $a = 'outer' in let $q = 't' in [$a, $q]",
	"let $a = 'o1', $b = 'o2', $c = 'o3', $d = 'o4', $e = 'o5', $f = 'o6' in let $q = 't' in [$a, $b, $c, $d, $e, $f, $q]",
	"xs[*].[let $a = id, $b = n, $c = id, $d = n, $e = id, $f = n, $g = id in [$a, $g]]",
	"xs[*].[let $q = id in [$q, $a]]",
	"let $a = 'A', $b = 'B', $c = 'C', $d = 'D', $e = 'E', $f = 'F' in let $a = 'A2', $b = 'B2', $c = 'C2', $d = 'D2', $e = 'E2', $f = 'F2', $g = 'G2' in [$a, $f, $g]",
	// an inner binding that is null shadows a non-null outer one, at every kind of use site
	"let $a = id in let $a = missing in [$a]",
	"let $a = id in let $a = missing in map(&$a, xs)",
	"let $a = id in let $a = `null` in map(&[$a, id], xs)",
	"let $a = n in let $a = missing in sort_by(xs, &($a || n))[*].id",
	"let $a = `100` in let $a = `null` in max_by(xs, &($a || n)).id",
	"let $a = `100` in let $a = missing in min_by(xs, &($a || n)).id",
	"let $a = 'g' in let $a = missing in group_by(xs, &($a || id))",
	"let $a = id in let $a = missing in xs[?$a == `null`].id",
	"let $a = id in let $a = missing in xs[*].[$a, id]",
	"let $a = id in let $a = missing in xs[0] | [$a]",
	"let $a = id, $b = n in let $a = missing in map(&[$a, $b], xs)",
	"let $a = id in xs[*].[let $a = missing in map(&$a, xs)]",
	"let $a = id in let $b = 'b' in let $a = missing in map(&[$a, $b], xs)",
}

func c19ShapesRun(c *Ctx, idx int) {
	text := c19Shapes[idx]
	m, _ := c.CheckModel("C19", text, c19Doc, c19Go, CheckOpts{Compiled: true})
	if m.Unspec {
		c.Report(Violation{Rule: "C19/harness-self-check", Expr: text, Detail: "the model does not judge a canonical scope shape: " + m.Why})
	}
	c.Nontrivial(text)
	c.Sample(map[string]any{"expr": text, "model": m.String()})
}

func init() {
	Register(&Property{
		ID:            "C19",
		Rule:          "let-expressions over variables {$a,$b,$c} whose bound values are unique tagged literals or context-dependent selections (id of the current node), so the result says which binding and which context was captured: 77 canonical scope shapes (incl. wide lets of 6-10 bindings followed by narrow lets that look up unbound or outer names) (rebinding, null-valued inner bindings shadowing non-null outer ones at every kind of use site, shadowing, let $a = $a, sibling references, use after the body, bindings under projections/filters/pipes/multi-selects/sort_by, max_by, min_by, map, group_by expression references, nested lets rebinding per element, unbound references at every kind of site, short-circuited unbound references) plus seeded random nestings of depth 3-4 mixing all of those; compared with the reference model's lexical environments; non-trivial = model decides and the text uses a variable; joins stream (per-element lets above root-anchored sub-expressions, inner lets rebinding the same name); hash-hostile names (pairs colliding under twelve 32-bit string hashes, in one let, nested, shadowing, unbound); wide-let stream: one let binding and reading back 100 / 5000 / 70000 / 200000 distinct names; towers stream: lets nested 2..1000 deep (22 depths around 8, 16, 32, 64, 128, 256) rebinding eight names to level numbers, null, false, [], missing fields and outer variables, plain / inside multi-selects / inside projections, the body reads all eight; tower levels bind 1-4 names, a fifth of the binding expressions contain lets of their own (whose names must not leak and which must not disturb the bindings around them), a third of the towers bind only part of the pool and read names that only an inner let bound; wide-joins stream: join-shaped multi-selects with 8 / 63 / 70 / 130 columns, each with its own pair of variable names, through projections and map",
		MinNontrivial: 1000,
		Streams: []Stream{
			{Name: "shapes", Setup: c19Setup, N: func(c *Ctx) int { return len(c19Shapes) }, Run: c19ShapesRun, Exhaustive: true},
			{Name: "joins", N: func(c *Ctx) int { return joinN() }, Run: joinModel("C19", false), Exhaustive: true},
			{Name: "wide-joins", N: func(c *Ctx) int { return wideJoinN() }, Run: wideJoinRun("C19"), Exhaustive: true},
			{Name: "hash-hostile-names", N: func(c *Ctx) int { return hashNamesN() }, Run: hashNamesRun("C19"), Exhaustive: true},
			{Name: "wide-let", N: func(c *Ctx) int { return len(wideLetSizes) }, Run: wideLetRun("C19"), Exhaustive: true},
			{Name: "towers", Setup: c19Setup, N: c19TowersN, Run: c19Towers},
			{Name: "random", Setup: c19Setup, N: func(c *Ctx) int { return tierN(c, 40000, 10000000) }, Run: c19Random},
		},
	})
}

// c19Towers: lets nested 2..1000 deep.  Each level binds one or two names from a pool of eight to a
// value that identifies the level - or to null, false, an empty array (values an "is it bound?" test
// may confuse with absence), or to an outer variable; the innermost body reads every name of the
// pool.  Implementations that flatten, collapse or copy scope chains beyond some depth must still
// resolve each name to its nearest binding.
var c19TowerDepths = []int{2, 3, 4, 5, 6, 7, 8, 9, 10, 12, 15, 16, 17, 18, 31, 32, 33, 63, 64, 65, 100, 127, 128, 129, 255, 257, 1000}

func c19TowersN(c *Ctx) int { return len(c19TowerDepths) * tierN(c, 60, 3000) }

func c19Towers(c *Ctx, idx int) {
	r := c.Rand("")
	depth := c19TowerDepths[idx%len(c19TowerDepths)]
	pool := []string{"$a", "$b", "$c", "$d", "$e", "$f", "$g", "$h"}
	inner := []string{"$z0", "$z1", "$z2"}
	var b strings.Builder
	// the outermost let binds the first k names of the pool (all of them in two cases out of three, so
	// that every later reference is defined; otherwise some references are undefined-variable faults)
	k := len(pool)
	if idx%3 == 2 {
		k = 1 + r.Intn(len(pool))
	}
	bound := map[string]bool{}
	b.WriteString("let ")
	for i, v := range pool[:k] {
		if i > 0 {
			b.WriteString(", ")
		}
		fmt.Fprintf(&b, "%s = 'top-%d'", v, i)
		bound[v] = true
	}
	b.WriteString(" in ")
	style := idx % 3
	var opened []string
	for lvl := 1; lvl < depth; lvl++ {
		nb := 1 + r.Intn(2)
		if r.Chance(25) {
			nb = 2 + r.Intn(3)
		}
		b.WriteString("let ")
		used := map[string]bool{}
		first := true
		for j := 0; j < nb; j++ {
			v := pool[r.Intn(len(pool))]
			if used[v] {
				continue
			}
			if !first {
				b.WriteString(", ")
			}
			first = false
			used[v] = true
			var val string
			switch r.Intn(12) {
			case 0, 1, 2:
				val = "`null`"
			case 3:
				val = "`false`"
			case 4:
				val = "`[]`"
			case 5:
				val = pool[r.Intn(k)] // an outer variable (possibly the one being rebound)
			case 6:
				val = "missing"
			case 7, 8:
				// a let inside the binding expression: its own names must not leak, and it must not
				// disturb the bindings being collected around it
				z := inner[r.Intn(len(inner))]
				val = fmt.Sprintf("(let %s = `%d` in %s)", z, lvl, z)
				if r.Chance(40) {
					w := pool[r.Intn(len(pool))]
					val = fmt.Sprintf("(let %s = `%d`, %s = 'inner' in [%s, %s])", z, lvl, w, z, w)
				}
			default:
				val = fmt.Sprintf("`%d`", lvl)
			}
			fmt.Fprintf(&b, "%s = %s", v, val)
		}
		for v := range used {
			bound[v] = true
		}
		b.WriteString(" in ")
		if style == 1 && lvl%5 == 0 {
			b.WriteString("[")
			opened = append(opened, "]")
		} else if style == 2 && lvl%7 == 0 {
			b.WriteString("xs[*].[")
			opened = append(opened, "]")
		}
	}
	reads := append([]string{}, pool...)
	if idx%3 == 2 {
		// only names that are bound somewhere above, plus (one case in four) a name that only an inner let bound
		reads = reads[:0]
		for _, v := range pool {
			if bound[v] {
				reads = append(reads, v)
			}
		}
		if idx%4 == 2 {
			reads = append(reads, inner[r.Intn(len(inner))])
		}
	}
	b.WriteString("[" + strings.Join(reads, ", ") + "]")
	text := b.String()
	for i := len(opened) - 1; i >= 0; i-- {
		text += opened[i]
	}
	m, _ := c.CheckModel("C19", text, c19Doc, c19Go, CheckOpts{Compiled: idx%4 == 0, Features: map[string]string{"stream": "towers", "depth": fmt.Sprint(depth)}})
	if !m.Unspec {
		c.Nontrivial(text)
		if depth <= 3 {
			c.Sample(map[string]any{"expr": text, "model": clipS(m.String(), 200)})
		}
	}
}
