package mon

import (
	"fmt"
	"strings"

	"verif/harness/ref"
)

// Join-shaped expressions: a per-element construct binds a variable from the current element and its
// body evaluates a sub-expression that is anchored at the root (or at a literal, or at an outer
// variable) and reads that variable:
//
//	people[*].[name, let $h = home in $.states[?name == $h].capital]
//
// The anchored sub-expression sees the same array at every element and differs only through the
// variable environment, so anything that remembers a result per call site, per array identity or per
// evaluation ("closed" sub-expressions, hoisted selectors, remembered sort orders) must also key on
// the environment.  The first element is always right; the later ones show the difference.  The same
// cases serve C01 (specified result), C13 (order by the key of *this* call), C17 (projection vs map)
// and C19 (each evaluation of a let binds anew).

var joinSizes = []int{2, 3, 5, 31, 32, 33, 40, 70, 257}

// numeric bodies: $v is a number taken from the element, ANCH is "$.ys" (or "$ys" under an outer let)
var joinBodies = []string{
	"ANCH[?w == $v].k",
	"ANCH[?w > $v].k",
	"ANCH[*].[k, $v]",
	"ANCH[*].[(let $v = k in $v), $v]",
	"ANCH[*].[$v, (let $v = k in $v)]",
	"ANCH[*].[(let $v = w in $v), $v, (let $u = $v in $u)]",
	"sort_by(ANCH, &(w * $v))[*].k",
	"sort_by(ANCH, &(w * $v))[0].k",
	"max_by(ANCH, &(w * $v)).k",
	"min_by(ANCH, &(w * $v)).k",
	"sort(map(&(w * $v), ANCH))",
	"(ANCH | [*].[k, $v])",
	"ANCH[].[k, $v][]",
	"length(ANCH[?w > $v])",
	"map(&[k, $v], ANCH)",
	"ANCH[::2].[k, $v]",
	"contains(ANCH[*].w, $v)",
	"(let $u = $v in ANCH[?w == $u].k)",
	"ANCH[*].w | [?@ >= $v]",
	"ANCH[?w == $v] | [0].k",
	"ANCH[*].[w > $v && k || $v][]",
	"ANCH[?w > $v][].k",
	"ANCH[*].{k: k, v: $v}[?v == w].k",
	"ANCH[?(let $w = w in $w == $v)].k",
	"`[1,2,3]`[?@ > $v]",
	"sort_by(`[{\"k\":\"a\",\"w\":2},{\"k\":\"b\",\"w\":1},{\"k\":\"c\",\"w\":3}]`, &(w * $v))[*].k",
}

// bodies only for the ordering property
var joinSortBodies = []int{6, 7, 8, 9, 10, 25}

// string bodies: $h is a string taken from the element
var joinStrBodies = []string{
	"$.states[?name == $h].capital",
	"$.states[?name == $h] | [0].capital",
	"$.states[*].[name == $h][]",
	"max_by($.states, &(name == $h && `1` || `0`)).capital",
	"$.states[?name == $h].[capital, $h][]",
	"sort_by($.states, &(name == $h && 'a' || name))[0].name",
}

type joinOuter struct {
	name string
	// build returns the whole expression for array arr, binding text and body
	build func(arr, bind, body string) string
	// lhs/rhs element form for the projection-vs-map identity ("" = not an identity form)
	outerLet bool
}

var joinOuters = []joinOuter{
	{"projection-multiselect", func(arr, bind, body string) string { return arr + "[*].[let " + bind + " in " + body + "]" }, false},
	{"projection-multiselect-index", func(arr, bind, body string) string { return arr + "[*].[let " + bind + " in " + body + "][0]" }, false},
	{"map", func(arr, bind, body string) string { return "map(&(let " + bind + " in " + body + "), " + arr + ")" }, false},
	{"projection-hash", func(arr, bind, body string) string { return arr + "[*].{r: let " + bind + " in " + body + "}.r" }, false},
	{"filter", func(arr, bind, body string) string { return arr + "[?(let " + bind + " in " + body + ")]" }, false},
	{"slice-projection", func(arr, bind, body string) string { return arr + "[1:].[let " + bind + " in " + body + "]" }, false},
	{"last-element", func(arr, bind, body string) string { return arr + "[*].[let " + bind + " in " + body + "] | [-1]" }, false},
	{"outer-variable", func(arr, bind, body string) string {
		return "let $ys = ys in " + arr + "[*].[let " + bind + " in " + body + "]"
	}, true},
	{"flatten-projection", func(arr, bind, body string) string { return arr + "[].[let " + bind + " in " + body + "]" }, false},
}

type joinCase struct {
	text     string
	lhs, rhs string // projection-vs-map identity (C17)
	n        int
	body     string
	outer    string
	sorting  bool
}

func joinN() int {
	return len(joinSizes) * len(joinOuters) * (len(joinBodies) + len(joinStrBodies))
}

func joinAt(idx int) joinCase {
	n := joinSizes[idx%len(joinSizes)]
	idx /= len(joinSizes)
	o := joinOuters[idx%len(joinOuters)]
	idx /= len(joinOuters)
	var jc joinCase
	jc.n = n
	jc.outer = o.name
	if idx < len(joinBodies) {
		body := joinBodies[idx]
		anch := "$.ys"
		if o.outerLet {
			anch = "$ys"
		}
		body = strings.ReplaceAll(body, "ANCH", anch)
		arr, bind := "xs", "$v = @"
		if idx%2 == 1 {
			arr, bind = "ps", "$v = w"
		}
		jc.text = o.build(arr, bind, body)
		jc.body = body
		e := "[let " + bind + " in " + body + "]"
		jc.lhs = arr + "[*]." + e
		jc.rhs = "map(&" + e + ", " + arr + ")"
		for _, s := range joinSortBodies {
			if s == idx {
				jc.sorting = true
			}
		}
		return jc
	}
	body := joinStrBodies[idx-len(joinBodies)]
	jc.text = o.build("ps", "$h = home", body)
	jc.body = body
	e := "[name, let $h = home in " + body + "]"
	jc.lhs = "ps[*]." + e
	jc.rhs = "map(&" + e + ", ps)"
	return jc
}

var joinDocs = map[int]ref.V{}

func joinDoc(n int) ref.V {
	if d, ok := joinDocs[n]; ok {
		return d
	}
	var b strings.Builder
	b.WriteString(`{"ys":[{"k":"a","w":2},{"k":"b","w":1},{"k":"c","w":3},{"k":"d","w":1}],"states":[{"name":"s0","capital":"c0"},{"name":"s1","capital":"c1"},{"name":"s2","capital":"c2"},{"name":"s3","capital":"c3"}],"xs":[`)
	vals := []int{1, -1, 2, -2, 3, 0, -3}
	for i := 0; i < n; i++ {
		if i > 0 {
			b.WriteByte(',')
		}
		fmt.Fprint(&b, vals[i%len(vals)])
	}
	b.WriteString(`],"ps":[`)
	for i := 0; i < n; i++ {
		if i > 0 {
			b.WriteByte(',')
		}
		fmt.Fprintf(&b, `{"name":"p%d","home":"s%d","w":%d}`, i, (i*3+i/4)%4, vals[(i+2)%len(vals)])
	}
	b.WriteString(`]}`)
	d, err := ref.FromJSON(b.String())
	if err != nil {
		panic(err)
	}
	joinDocs[n] = d
	return d
}

// joinModel compares the whole join expression with the model under the given property.
func joinModel(prop string, onlySorting bool) func(c *Ctx, idx int) {
	return func(c *Ctx, idx int) {
		jc := joinAt(idx)
		if onlySorting && !jc.sorting {
			return
		}
		doc := joinDoc(jc.n)
		m, _ := c.CheckModel(prop, jc.text, doc, ref.ToGo(doc, ref.JSONNumber), CheckOpts{Compiled: idx%3 == 0, Features: map[string]string{"stream": "joins", "outer": jc.outer, "body": jc.body}})
		if !m.Unspec {
			c.Nontrivial(jc.text, fmt.Sprint(jc.n))
			if jc.n <= 3 {
				c.Sample(map[string]any{"expr": jc.text, "n": jc.n, "model": clipS(m.String(), 200)})
			}
		}
	}
}

// joinIdentity: x[*].e == map(&e, x) for join-shaped e (C17, identity ii), each side on a fresh copy.
func joinIdentity(c *Ctx, idx int) {
	jc := joinAt(idx)
	if jc.outer != "projection-multiselect" && jc.outer != "map" {
		return
	}
	doc := joinDoc(jc.n)
	l := c.LibSearch(jc.lhs, ref.ToGo(doc, ref.JSONNumber))
	r := c.LibSearch(jc.rhs, ref.ToGo(doc, ref.JSONNumber))
	if MultiFaultOK(ref.Search(jc.lhs, doc), l, r) {
		return
	}
	if !SameOutcome(l, r, false) {
		c.Report(Violation{Rule: "C17/identity", Expr: jc.lhs, Data: fmt.Sprintf("join document with %d elements", jc.n), Got: clipS(ShowOut(l), 400), Want: clipS(ShowOut(r), 400) + "  (= " + jc.rhs + ")", Features: map[string]string{"schema": "projection-vs-map", "stream": "joins", "body": jc.body}})
	}
	if l.Err == nil && l.Panic == nil && l.M != nil {
		c.Nontrivial(jc.lhs, fmt.Sprint(jc.n))
	}
}

// wideJoin: a join-shaped multi-select with 70 or 130 columns, each with its own pair of names
// (let $kN = cN in let $hitN = $.dim[?id == $kN] in $hitN[0].name): analyses that number variable
// names per expression (bit sets of 64, small fixed tables) run out of room exactly when a query has
// many names, and then treat the late ones as absent.
func wideJoinN() int { return 4 }

func wideJoinRun(prop string) func(c *Ctx, idx int) {
	return func(c *Ctx, idx int) {
		cols := []int{8, 63, 70, 130}[idx]
		var b strings.Builder
		b.WriteString(`{"dim":[{"id":0,"name":"zero"},{"id":1,"name":"one"},{"id":2,"name":"two"},{"id":3,"name":"three"}],"rows":[`)
		for r := 0; r < 5; r++ {
			if r > 0 {
				b.WriteByte(',')
			}
			b.WriteByte('{')
			for k := 0; k < cols; k++ {
				if k > 0 {
					b.WriteByte(',')
				}
				fmt.Fprintf(&b, `"c%d":%d`, k, (r*(k+3)+k)%4)
			}
			b.WriteByte('}')
		}
		b.WriteString(`]}`)
		doc, err := ref.FromJSON(b.String())
		if err != nil {
			panic(err)
		}
		var parts []string
		for k := 0; k < cols; k++ {
			parts = append(parts, fmt.Sprintf("let $k%d = c%d in let $hit%d = $.dim[?id == $k%d] in $hit%d[0].name", k, k, k, k, k))
		}
		for _, text := range []string{"rows[*].[" + strings.Join(parts, ", ") + "]", "map(&[" + strings.Join(parts, ", ") + "], rows)", "rows[1:].[" + strings.Join(parts[len(parts)-6:], ", ") + ", " + strings.Join(parts, ", ") + "] | [-1]"} {
			m, _ := c.CheckModel(prop, text, doc, ref.ToGo(doc, ref.JSONNumber), CheckOpts{Compiled: true, Features: map[string]string{"stream": "wide-joins", "columns": fmt.Sprint(cols)}})
			if !m.Unspec {
				c.Nontrivial(clipS(text, 60), fmt.Sprint(cols))
			}
		}
	}
}
