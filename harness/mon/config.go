package mon

// BuildModes: which instrumented builds of the worker a check runs.
//
//	cover: -cover -covermode=atomic (block counters: step clock + reach evidence)
//	race:  -race (data-race detector, implies checkptr)
func BuildModes(prop, tier string) []string {
	switch prop {
	case "C07":
		return []string{"race"}
	case "C03":
		if tier == "thorough" {
			return []string{"cover", "race"}
		}
	}
	return []string{"cover"}
}

// Batches: number of child processes (0: default 16).
func Batches(prop, tier, mode string) int {
	if f, ok := batchOverride[prop]; ok {
		return f(tier, mode)
	}
	return 0
}

var batchOverride = map[string]func(tier, mode string) int{}

// offline checkers over merged event logs, per property
var offline = map[string]func(outDir string) ([]Violation, map[string]int64){}

func Offline(prop, outDir string) []Violation {
	if f, ok := offline[prop]; ok {
		v, _ := f(outDir)
		return v
	}
	return nil
}

func OfflineCounters(prop, outDir string) map[string]int64 {
	if f, ok := offline[prop]; ok {
		_, c := f(outDir)
		return c
	}
	return nil
}

var assumptions = map[string][]string{}

var commonAssumptions = []string{
	"verdicts cover only the executions this run produced (cases listed under coverage); nothing is proved",
	"the reference model (harness/ref) is trusted where it decides; it abstains where the specification is open and is calibrated against the whole compliance corpus",
	"the Go toolchain, encoding/json and math/big are trusted",
}

func Assumptions(prop string) []string {
	return append(append([]string{}, commonAssumptions...), assumptions[prop]...)
}
