package mon

import (
	"encoding/json"
	"fmt"
	"strings"
	"unicode"

	"verif/harness/gen"
	"verif/harness/ref"
)

var c04Probe = func() any {
	v, _ := ref.FromJSON(`{"a":{"b":[1,2,{"c":"x"}],"a":"s"},"b":[{"a":1},{"a":2}],"c":3,"x":"y"}`)
	return ref.ToGo(v, ref.JSONNumber)
}()

// CheckGrammar compares Compile's verdict on text with the reference
// recognisers.  Returns the model's parse result.
func (c *Ctx) CheckGrammar(text string, feats map[string]string) ref.ParseResult {
	pr := ref.Parse(text)
	_, lc := c.LibCompile(text)
	if lc.Panic != nil {
		c.Report(Violation{Rule: "C04/panic", Expr: text, Got: ShowOut(lc), Features: feats})
		return pr
	}
	// one-shot Search must reach the same verdict on the text as Compile
	if strings.Contains(text, "pad_") {
		// (a generated width could be huge: not executed here)
	} else if ls := c.LibSearch(text, c04Probe); ls.Panic == nil {
		cs, ss := lc.Err != nil && lc.Cats == ref.CatSyntax, ls.Err != nil && ls.Cats == ref.CatSyntax
		if cs != ss {
			c.Report(Violation{Rule: "C04/search-compile-disagree", Expr: text, Got: "Search: " + ShowOut(ls), Want: "Compile: " + ShowOut(lc), Features: feats})
		}
	}
	switch pr.Status {
	case ref.ParseGap:
		c.Count("abstained", 1)
		return pr
	case ref.ParseOK:
		st, opt := ref.StaticFaults(pr.Node)
		if st != nil && st.Cats&ref.CatUnspec != 0 {
			c.Count("abstained", 1)
			return pr
		}
		if st == nil {
			if lc.Err != nil && lc.NCats == 1 && lc.Cats&opt != 0 {
				// a slice step of 0 may be reported by Compile already
				return pr
			}
			if lc.Err != nil {
				c.Report(Violation{Rule: "C04/rejects-member", Expr: text, Got: ShowOut(lc), Want: "compiles (member of the grammar)", Features: feats})
			}
			return pr
		}
		// member of the grammar with a static semantic fault
		if lc.Err == nil {
			c.Report(Violation{Rule: "C04/static-fault-missed", Expr: text, Got: "compiled", Want: "error " + st.Cats.String(), Features: feats})
		} else if lc.NCats != 1 || lc.Cats&st.Cats == 0 {
			c.Report(Violation{Rule: "C04/static-fault-category", Expr: text, Got: ShowOut(lc), Want: "error " + st.Cats.String(), Features: feats})
		}
		return pr
	}
	// non-member
	if lc.Err == nil {
		probe := c.LibSearch(text, c04Probe)
		c.Report(Violation{Rule: "C04/accepts-nonmember", Expr: text, Got: "compiled; on the probe document it evaluates to " + ShowOut(probe), Want: "syntax error (" + pr.Err + ")", Features: feats})
		return pr
	}
	want := ref.CatSyntax
	if pr.HasCall {
		want |= ref.CatUnknownFn | ref.CatArity | ref.CatType
	}
	// a statically invalid slice step may be reported before the syntax error
	if pr.HasZeroStep {
		want |= ref.CatValue
	}
	if lc.NCats != 1 || lc.Cats&want == 0 {
		c.Report(Violation{Rule: "C04/nonmember-category", Expr: text, Got: ShowOut(lc), Want: "error " + want.String() + " (" + pr.Err + ")", Features: feats})
	}
	return pr
}

// ---- base set: valid corpus expressions + generated members

var c04Base []string

func c04Setup(c *Ctx) {
	if c04Base != nil {
		return
	}
	seen := map[string]bool{}
	cs, _ := ref.LoadCorpus("/repo/testdata/compliance")
	for _, x := range cs {
		if seen[x.Expr] || len(x.Expr) > 90 {
			continue
		}
		if pr := ref.Parse(x.Expr); pr.Status == ref.ParseOK {
			if st, _ := ref.StaticFaults(pr.Node); st == nil {
				seen[x.Expr] = true
				c04Base = append(c04Base, x.Expr)
			}
		}
	}
	// generated members (fixed seed: the base set does not depend on VERIF_SEED)
	for i := 0; len(c04Base) < 900 && i < 3000; i++ {
		r := gen.New(12345, "C04/base", i)
		doc := gen.Doc(r, 2)
		g := &gen.ExprGen{R: r, Root: doc, Funcs: 40, Lets: true, Arith: true}
		t := ref.Print(g.Expr(doc, 2))
		if seen[t] || len(t) > 70 {
			continue
		}
		if pr := ref.Parse(t); pr.Status == ref.ParseOK {
			if st, _ := ref.StaticFaults(pr.Node); st == nil {
				seen[t] = true
				c04Base = append(c04Base, t)
			}
		}
	}
}

func c04BaseN(c *Ctx) int {
	c04Setup(c)
	n := len(c04Base)
	if c.Tier != "thorough" && n > 260 {
		n = 260
	}
	return n
}

var c04WS = []string{" ", "\t", "\n", "\r", "  "}

// runes that are white space for Unicode but not for the grammar: inserted at
// a token gap they must make the text a non-member
var c04NotWS = []string{"\v", "\f", "\u0085", "\u00a0", "\u1680", "\u2003", "\u2028", "\u2029", "\u202f", "\u3000", "\ufeff", "\u200b", "\x00", "\x1f", "\x7f"}

// whitespace: every token gap (and both ends) of a base expression filled
// with each whitespace string, one gap at a time.
func c04Whitespace(c *Ctx, idx int) {
	// quick uses every 3rd base expression of the first 260, thorough all
	e := c04Base[idx]
	spans := ref.TokenSpans(e)
	gaps := []int{0}
	for _, s := range spans {
		gaps = append(gaps, s[1])
	}
	for _, g := range gaps {
		for _, w := range c04WS {
			t := e[:g] + w + e[g:]
			pr := c.CheckGrammar(t, map[string]string{"family": "whitespace"})
			if pr.Status != ref.ParseGap {
				c.Nontrivial(t)
			}
		}
	}
	// not-whitespace runes at both ends and at two interior gaps
	ends := []int{0, len(e)}
	if len(gaps) > 2 {
		ends = append(ends, gaps[1], gaps[len(gaps)/2])
	}
	for _, g := range ends {
		for _, w := range c04NotWS {
			t := e[:g] + w + e[g:]
			pr := c.CheckGrammar(t, map[string]string{"family": "not-whitespace"})
			if pr.Status != ref.ParseGap {
				c.Nontrivial(t)
			}
		}
	}
	// tokens of other query languages and of plausible extensions, at every gap: the
	// grammar has none of them, so each insertion is judged by the reference recogniser
	// (almost always a non-member); a lexer or parser that grew a new operator shows here
	for gi, g := range gaps {
		for ti, w := range c04Foreign {
			if (gi+ti+idx)%3 != 0 && len(gaps) > 4 {
				continue // a third of the (gap, token) pairs per base expression
			}
			for _, t := range []string{e[:g] + w + e[g:], e[:g] + " " + w + " " + e[g:]} {
				pr := c.CheckGrammar(t, map[string]string{"family": "foreign-token"})
				if pr.Status != ref.ParseGap {
					c.Nontrivial(t)
				}
			}
		}
	}
	c.Sample(map[string]any{"base": e, "gaps": len(gaps), "whitespace_strings": len(c04WS), "not_whitespace_runes": len(c04NotWS), "foreign_tokens": len(c04Foreign)})
}

var c04Foreign = []string{"??", "?", "?:", "?.", "?[", "=>", "->", "<-", "::", "..", "...", "~", "=~", "!~", "^", "^^", "#", ";", "\\", "===", "!==", "<>", "<<", ">>", "**", "%%", "++", "--", "+=", "-=", ":=", "<=>", "|>", "<|", "&&&", "|||", "|&", "&|", "!!=", "=", "===", "@@", "$$", "${", "#{", "{{", "}}", "[[", "]]", "[:", ":]", "(:", "/*", "*/", "--x", "not", "and", "or", "is", "null", "true", "false", "in", "of", "as", "if", "then", "else", "where", "select", "from", "like", "between", "div", "mod", "xor", "∧", "∨", "¬", "≠", "≤", "≥", "∈", "·", "∗", "⁄", "–", "—", "‐", "＋", "＊", "％", "，", "．", "：", "［", "］", "｛", "｝", "（", "）", "＠", "＆", "｜", "！", "＝", "＜", "＞", "0x1", "1_000", "1e", ".5", "5.", "1..2", "$1", "$-", "@1", "&&=", "||=", "0b1", "1n", "1f", "'", "\"", "`"}

var c04EditTokens = []string{"a", "\"q\"", "'r'", "`1`", "`\"s\"`", "0", "-1", "1.5", ".", "*", ".*", "[", "]", "[*]", "[]", "[?", "{", "}", "(", ")", ",", ":", "|", "||", "&&", "&", "!", "==", "!=", "<", ">=", "+", "-", "/", "//", "%", "×", "@", "$", "$v", "let", "in", "=", "abs", "'"}

// edits: the complete single-token-edit neighbourhood of a base expression.
func c04Edits(c *Ctx, idx int) {
	e := c04Base[idx]
	spans := ref.TokenSpans(e)
	toks := make([]string, len(spans))
	for i, s := range spans {
		toks[i] = e[s[0]:s[1]]
	}
	join := func(ts []string) string { return strings.Join(ts, " ") }
	try := func(ts []string, kind string) {
		// joined with single spaces and (where that keeps the tokens apart) without
		t := join(ts)
		pr := c.CheckGrammar(t, map[string]string{"family": "edit", "edit": kind})
		if pr.Status != ref.ParseGap {
			c.Nontrivial(t)
		}
	}
	n := len(toks)
	for i := 0; i < n; i++ {
		// delete
		try(append(append([]string{}, toks[:i]...), toks[i+1:]...), "delete")
		// duplicate
		try(append(append(append([]string{}, toks[:i+1]...), toks[i]), toks[i+1:]...), "duplicate")
		// swap
		if i+1 < n {
			s := append([]string{}, toks...)
			s[i], s[i+1] = s[i+1], s[i]
			try(s, "swap")
		}
		for _, k := range c04EditTokens {
			// replace
			s := append([]string{}, toks...)
			s[i] = k
			try(s, "replace")
		}
	}
	for i := 0; i <= n; i++ {
		for _, k := range c04EditTokens {
			s := append(append(append([]string{}, toks[:i]...), k), toks[i:]...)
			try(s, "insert")
		}
		// truncation at the token boundary
		if i < n {
			try(append([]string{}, toks[:i]...), "truncate")
		}
	}
	c.Sample(map[string]any{"base": e, "tokens": n, "edit_tokens": len(c04EditTokens)})
}

// hand-written members and non-members around literals, escapes, keys, indexes
var c04Members = []string{
	"`1`", "` 1 `", "`\"a\"`", "`\"\\`\"`", "`\"\\\\\"`", "`[1, 2 ,3]`", "`{\"a\" : [true,false,null]}`", "`-0.5e+10`", "`1E2`", "`0`", "`-0`", "`\"\\u00e9\\ud834\\udf06\"`", "`\"\\/\\b\\f\\n\\r\\t\"`", "`\n[\n1\n]\n`",
	"'a'", "''", "'\\''", "'\\\\'", "'\\n'", "'\\x'", "'a\\'b\\\\c'", "'`'", "'\"'", "'é𝌆'",
	"\"a\"", "\"a b\"", "\"\\\"\"", "\"\\\\\"", "\"\\/\"", "\"\\b\\f\\n\\r\\t\"", "\"\\u00e9\"", "\"\\ud834\\udf06\"", "\"é𝌆\"", "\"'\"", "\"`\"",
	"a.\"b\"", "\"a\".b", "{a: b}", "{\"a\": b}", "{a: b, \"c d\": e}", "[a]", "[a, b]", "a[0]", "a[-1]", "a[0:1]", "a[:]", "a[::]", "a[::1]", "a[1:2:3]", "a[-1:-2:-3]", "a[*]", "a[]", "a[?b]", "a[?b == `1`]",
	"a.*", "*", "*.a", "@", "$", "@.a", "$.a", "a | b", "a || b", "a && b", "!a", "!!a", "a == b", "a != b", "a < b", "a <= b", "a > b", "a >= b", "a + b", "a - b", "a * b", "a × b", "a / b", "a ÷ b", "a // b", "a % b", "a − b", "-a", "+a", "−a", "- - a",
	"(a)", "((a))", "(a.b)[0]", "abs(a)", "abs ( a )", "sort_by(a, &b)", "sort_by(a, & b)", "map(&a, b)", "not_null(a, b, c)", "length(@)", "a.length(@)", "a.b.abs(@)", "let $a = b in $a", "let $a = b, $c = d in [$a, $c]", "let $a = let $b = c in $b in $a", "$a", "a[?b][?c]", "a[*][*]", "a[][]", "a.*.*", "a[0][1]", "[0]", "[*]", "[]", "[?a]", "[0:1]", "{a: b}.a", "[a, b][0]",
	"a.[b, c]", "a.{b: c}", "a.[b]", "a[*].[b, c]", "a[*].{b: c}", "foo._bar", "_foo", "foo_1", "A", "a1.b2", "`true`", "`false`", "`null`", "`[]`", "`{}`", "`\"\"`",
}

var c04NonMembers = []string{
	"", " ", "a.", ".a", "a..b", "a.b.", "a b", "a.1", "a.'b'", "a.`b`", "a.@", "a.$", "a.$x", "a.(b)", "a.!b", "a.&b",
	"{a}", "{a:}", "{:b}", "{a: b,}", "{,a: b}", "{a b}", "{a: b c: d}", "{a: b; c: d}", "{1: a}", "{'x': a}", "{`\"a\"`: b}", "{@: a}", "{a.b: c}", "{$x: a}", "{}", "{a: b", "a: b}",
	"[a b]", "[a,]", "[,a]", "[a,,b]", "[a", "a]", "a[", "a[b]", "a['x']", "a[\"x\"]", "a[1.5]", "a[1 2]", "a[1,2]", "a[-]", "a[--1]", "a[+1]", "a[1:2:3:4]", "a[1::2:]", "a[:::]", "a[0x1]", "a[1e2]", "a[`1`]", "a[?]", "a[?b", "a[*", "a[*]]", "a[ ]b",
	"`", "``", "`1", "1`", "`1` `2`", "`[1,]`", "`{\"a\":}`", "`{a:1}`", "`'a'`", "`tru`", "`True`", "`nul`", "`01`", "`1.`", "`.5`", "`+1`", "`1e`", "`0x1`", "`1 2`", "`[1] 2`", "`\"a`", "`\"abc`", "`a\"`", "`\"\\x\"`", "`\"\\u12\"`", "`\"\\ud83d\"x`", "`NaN`", "`Infinity`", "`-`", "`[`", "`]`", "`{`", "`\"a\":1`", "`1,2`", "`\"a\" \"b\"`", "`\"\t\"`",
	"'", "'a", "a'", "'a''b'", "'\\'", "\"", "\"a", "a\"", "\"\\x\"", "\"\\u12\"", "\"\\u12g4\"", "\"\\ud83dzu0041\"", "\"\\\"", "\"a\"\"b\"", "\"\\a\"", "\"\\'\"", "\"\\`\"",
	"a |", "| a", "a || ", "|| a", "a &&", "&& a", "a & b", "a == ", "== a", "a = b", "a === b", "a <> b", "a =< b", "a => b", "a ! b", "a !", "a +", "* *", "a ** b", "a // // b", "a % % b", "a ÷", "× a",
	"(", ")", "()", "(a", "a)", "(a))", "((a)", "abs(", "abs(a", "abs(a,)", "abs(,a)", "abs(a b)", "abs a", "\"abs\"(a)", "abs(a)(b)", "(abs)(a)", "&a", "a.&b", "[&a]", "{a: &b}", "&", "sort_by(a, &)", "map(&, a)",
	"foo.let $x = bar in $x", "foo[*].let $x = a in $x", "foo[].let $x = a in $x", "foo[?a].let $x = a in $x", "foo.*.let $x = a in $x", "@.let $x = a in $x", "$.let $x = a in $x", "*.let $x = a in $x", "{k: a.let $x = b in $x}", "abs(a.let $x = b in $x)", "let $y = a.let $x = b in $x in $y",
	"a[let $x = `0` in $x]", "{let $x = a in $x: b}", "a.let $x = b in", "a.let $x in $x", "a.$x", "a.$", "a.@", "a.(b | c)", "a.[b].let $x = c in $x", "a.b.let $x = c in $x", "let $x = a in $x.let $y = b in $y", "a.&b", "a.!b", "a.-b", "a.`1`", "a.'r'", "a | .b", "a.[", "a.{", "a.*.",
	"let", "let $a", "let $a =", "let $a = b", "let $a = b in", "let a = b in a", "let $a b in $a", "let $a = b, in $a", "let $a = b $c = d in $a", "let $a == b in $a", "in", "$a = b", "let $ = a in $", "let $1 = a in $1",
	"@@", "$$", "@ @", "a @", "@a", "a$", "$.", "@.", "a#b", "a;b", "a\\b", "a?b", "a~b", "a^b", "#", "?", "~", "\x00", "a\x00", "é", "a.é", "\xff", "a\xffb", "1", "-1", "1.5", "a 1", "a -1", "1 + 2", "a + 1", "a.b c.d", "a[0]b", "a[*]b", "a[]b", "a[?b]c", "a.*b", "*a", "a*", "a.**", "**",
}

func c04Lists(c *Ctx, idx int) {
	nm := len(c04Members)
	if idx < nm {
		t := c04Members[idx]
		pr := c.CheckGrammar(t, map[string]string{"family": "member-list"})
		if pr.Status != ref.ParseOK {
			c.Report(Violation{Rule: "C04/harness-self-check", Expr: t, Detail: "the reference recogniser does not accept a hand-written member: " + pr.Err + strings.Join(pr.Gaps, ";")})
		}
		c.Nontrivial(t)
		return
	}
	t := c04NonMembers[idx-nm]
	pr := c.CheckGrammar(t, map[string]string{"family": "nonmember-list"})
	if pr.Status == ref.ParseOK {
		c.Report(Violation{Rule: "C04/harness-self-check", Expr: t, Detail: "the reference recogniser accepts a hand-written non-member"})
	}
	if pr.Status != ref.ParseGap {
		c.Nontrivial(t)
	}
}

// members: generated members in hostile spellings must compile
func c04Generated(c *Ctx, idx int) {
	r := c.Rand("")
	doc := gen.Doc(r, 2)
	g := &gen.ExprGen{R: r, Root: doc, Funcs: 50, Lets: true, Arith: true}
	node := g.Expr(doc, 3)
	t := ref.PrintWith(node, ref.PrintOpts{Rand: r, WS: 45, Unicode: 50, Quote: 40, RawStrings: 50, Parens: 15})
	pr := c.CheckGrammar(t, map[string]string{"family": "generated"})
	if pr.Status == ref.ParseOK {
		c.Nontrivial(t)
	} else {
		c.Count("generated_not_member:"+fmt.Sprint(pr.Status), 1)
	}
}

// JSON literal texts: generated JSON values in varied layouts must compile;
// corrupted ones must not.
func c04JSON(c *Ctx, idx int) {
	r := c.Rand("")
	v := gen.Doc(r, 3)
	js := gen.JSONLayout(r, v)
	lit := "`" + strings.ReplaceAll(js, "`", "\\`") + "`"
	pr := c.CheckGrammar(lit, map[string]string{"family": "json-literal"})
	if pr.Status == ref.ParseOK {
		c.Nontrivial(lit)
	}
	// corrupt the JSON text
	bad := gen.CorruptJSON(r, js)
	lit2 := "`" + strings.ReplaceAll(bad, "`", "\\`") + "`"
	pr2 := c.CheckGrammar(lit2, map[string]string{"family": "json-literal-corrupt"})
	if pr2.Status != ref.ParseGap {
		c.Nontrivial(lit2)
	}
	// a complete value, then k white-space characters, then junk (a decoder that reads in
	// chunks may never look that far); and values whose text ends exactly at a chunk boundary
	// (one case in 200 - thorough: in 4000 -, taken in runs of 16 consecutive indices so that the
	// batches share them evenly)
	period := 200
	if c.Tier == "thorough" {
		period = 4000
	}
	if (idx/16)%period == 3 {
		short := gen.JSONLayout(r, gen.Scalar(r))
		if (idx/16/period)%2 == 0 {
			short = gen.JSONLayout(r, gen.Array(r, 1))
		}
		short = strings.ReplaceAll(short, "`", "\\`")
		for _, k := range []int{0, 1, 100, 507, 508, 509, 510, 511, 512, 513, 1000, 1535, 1536, 1537, 4096, 10000, 70000} {
			ws := strings.Repeat(gen.Pick(r, []string{" ", "\n", "\t", " \r\n"}), k)
			for _, junk := range []string{"]", "x", "1", "}", ",", "\"\"", "[]"} {
				c.CheckGrammar("`"+short+ws+junk+"`", map[string]string{"family": "json-literal-trailing", "filler": fmt.Sprint(k)})
				c.CheckGrammar("a[?b == `"+short+ws+junk+"`]", map[string]string{"family": "json-literal-trailing", "filler": fmt.Sprint(k)})
			}
			pr3 := c.CheckGrammar("`"+short+ws+"`", map[string]string{"family": "json-literal-padded", "filler": fmt.Sprint(k)})
			if pr3.Status == ref.ParseOK {
				c.Nontrivial(short, fmt.Sprint(k))
			}
		}
		for _, total := range []int{511, 512, 513, 1535, 1536, 1537, 3583, 3584, 3585, 7679, 7680, 7681, 16384} {
			// an array text of exactly `total` bytes
			body := "[" + strings.Repeat("1,", (total-3)/2)
			for len(body) < total-2 {
				body += " "
			}
			body += "1]"
			for _, junk := range []string{"", "]", "x", " 2", "}"} {
				c.CheckGrammar("`"+body+junk+"`", map[string]string{"family": "json-literal-chunk-length", "bytes": fmt.Sprint(len(body))})
			}
		}
	}
	if idx%50 == 0 {
		c.Sample(map[string]any{"literal": lit, "corrupted": lit2, "model_status_corrupted": fmt.Sprint(pr2.Status)})
	}
}

// c04NumText: every text of up to 5 (quick) / 6 (thorough) characters over the
// alphabet of JSON numbers, as a JSON literal on its own, inside a JSON array
// and as an object member: the number grammar (no leading zeros, digits on
// both sides of the point, a digit after the exponent marker, no plus sign)
// is enforced wherever the literal is decoded.
const c04NumAlphabet = "01-+.eE9 "

func c04NumLen(c *Ctx) int { return tierN(c, 5, 6) }

func c04NumN(c *Ctx) int {
	n, p := 0, 1
	for l := 1; l <= c04NumLen(c); l++ {
		p *= len(c04NumAlphabet)
		n += p
	}
	return n
}

func c04NumText(c *Ctx, idx int) {
	l, p := 1, len(c04NumAlphabet)
	for idx >= p {
		idx -= p
		p *= len(c04NumAlphabet)
		l++
	}
	b := make([]byte, l)
	for i := range b {
		b[i] = c04NumAlphabet[idx%len(c04NumAlphabet)]
		idx /= len(c04NumAlphabet)
	}
	t := string(b)
	for _, lit := range []string{"`" + t + "`", "`[1, " + t + "]`", "`{\"k\": " + t + "}`", "a[?b == `" + t + "`]"} {
		pr := c.CheckGrammar(lit, map[string]string{"family": "json-number-text"})
		if pr.Status != ref.ParseGap {
			c.Nontrivial(lit)
		}
	}
}

// c04Long: members of the grammar that are long, wide or deep (and the same texts with
// one stray token at the very end): a size limit, a truncating reader or a depth cap
// lower than the library's documented one shows as a rejected member or an accepted non-member.
var c04LongSizes = []int{100, 1000, 4095, 4096, 4097, 10000, 65535, 65536, 65537, 300000}
var c04LongForms = []string{"or-chain", "field-chain", "index-chain", "pipe-chain", "identifier", "raw-string", "json-string", "quoted-identifier", "multi-list", "multi-hash", "args", "whitespace", "json-array", "parens", "brackets", "nots", "calls", "lets", "json-nesting", "filters", "sum-chain", "comparison-in-filter"}

func c04LongN(c *Ctx) int { return len(c04LongSizes) * len(c04LongForms) }

func c04Long(c *Ctx, idx int) {
	n := c04LongSizes[idx%len(c04LongSizes)]
	form := c04LongForms[idx/len(c04LongSizes)]
	deep := n
	if deep > 4000 {
		deep = 4000 // nesting stays well below the library's documented depth limit (10000)
	}
	rep := strings.Repeat
	var t string
	switch form {
	case "or-chain":
		t = "a" + rep(" || a", n)
	case "field-chain":
		t = "a" + rep(".a", n)
	case "index-chain":
		t = "a" + rep("[0]", n)
	case "pipe-chain":
		t = "a" + rep(" | a", n)
	case "sum-chain":
		t = "a" + rep(" + `1`", n)
	case "identifier":
		t = rep("k", n)
	case "raw-string":
		t = "'" + rep("x", n) + "'"
	case "json-string":
		t = "`\"" + rep("x", n) + "\"`"
	case "quoted-identifier":
		t = "\"" + rep("x", n) + "\""
	case "multi-list":
		t = "[a" + rep(", a", n) + "]"
	case "multi-hash":
		var b strings.Builder
		b.WriteString("{k0: a")
		for i := 1; i <= n && i <= 70000; i++ {
			fmt.Fprintf(&b, ", k%d: a", i)
		}
		b.WriteString("}")
		t = b.String()
	case "args":
		t = "not_null(a" + rep(", a", n) + ")"
	case "whitespace":
		t = "a" + rep(" ", n) + "||" + rep("\n", n) + "b"
	case "json-array":
		t = "`[1" + rep(", 1", n) + "]`"
	case "parens":
		t = rep("(", deep) + "a" + rep(")", deep)
	case "brackets":
		t = rep("[", deep) + "a" + rep("]", deep)
	case "nots":
		t = rep("!", deep) + "a"
	case "calls":
		t = rep("abs(", deep) + "a" + rep(")", deep)
	case "lets":
		t = rep("let $v = a in ", deep) + "$v"
	case "json-nesting":
		t = "`" + rep("[", deep) + rep("]", deep) + "`"
	case "filters":
		t = "a" + rep("[?a]", deep) // each projection nests the rest of the chain
	case "comparison-in-filter":
		t = "a[?" + "b == `1`" + rep(" && b == `1`", n) + "]"
	}
	pr := c.CheckGrammar(t, map[string]string{"family": "long-member", "form": form, "n": fmt.Sprint(n)})
	if pr.Status == ref.ParseOK {
		c.Nontrivial(form, fmt.Sprint(n))
	} else {
		c.Count("long_member_not_judged:"+form, 1)
	}
	// one stray token at the very end
	for _, junk := range []string{" #", " a", ")", " ||", "]", "'"} {
		pr2 := c.CheckGrammar(t+junk, map[string]string{"family": "long-nonmember", "form": form, "n": fmt.Sprint(n)})
		if pr2.Status == ref.ParseSyntax {
			c.Nontrivial(form, fmt.Sprint(n), junk)
		}
	}
}

// c04Runes: every format character (Cf), the separators, C1 controls, noncharacters, private-use
// and tag characters, variation selectors and the ends of the planes - inside a raw string, a
// quoted identifier, a JSON literal string and a JSON literal object key (where the grammar admits
// any code point from U+0020 / U+005D upwards), and bare between tokens (where it admits none).
func c04RuneList() []rune {
	var out []rune
	for _, tab := range []*unicode.RangeTable{unicode.Cf, unicode.Zl, unicode.Zp, unicode.Variation_Selector} {
		for _, r16 := range tab.R16 {
			for r := rune(r16.Lo); r <= rune(r16.Hi); r += rune(r16.Stride) {
				out = append(out, r)
			}
		}
		for _, r32 := range tab.R32 {
			n := 0
			for r := rune(r32.Lo); r <= rune(r32.Hi) && n < 8; r += rune(r32.Stride) {
				out = append(out, r)
				n++
			}
		}
	}
	for r := rune(0x7f); r <= 0xa0; r++ {
		out = append(out, r)
	}
	out = append(out, 0xfffd, 0xfffe, 0xffff, 0x1fffe, 0x1ffff, 0x10fffe, 0x10ffff, 0xe000, 0xf8ff, 0xf0000, 0x100000, 0xd7ff, 0x0300, 0x20e3, 0x1f3fb, 0xe0001, 0xe007f, 0x2060, 0x3000, 0x1680, 0x180e, 0x2800, 0x115f, 0x3164, 0xffa0)
	return out
}

var c04Runes = c04RuneList()

func c04UnusualRunes(c *Ctx, idx int) {
	r := string(c04Runes[idx])
	for _, t := range []string{"'a" + r + "b'", "'" + r + "'", "\"a" + r + "b\"", "\"" + r + "\"", "`\"a" + r + "b\"`", "`{\"" + r + "\": 1}`", "x[?y == '" + r + "']", "{\"" + r + "\": a}", "a." + "\"" + r + "\"", "a" + r + "b", "a " + r + " b", r + "a", "a" + r, "a ||" + r + " b"} {
		pr := c.CheckGrammar(t, map[string]string{"family": "unusual-runes", "rune": fmt.Sprintf("U+%04X", c04Runes[idx])})
		if pr.Status != ref.ParseGap {
			c.Nontrivial(t)
		}
	}
}

func init() {
	Register(&Property{
		ID:            "C04",
		Rule:          "Compile's verdict compared with two reference recognisers (STRICT accepts / LENIENT rejects; texts in between are not judged): every token gap of a base set (valid corpus expressions + generated members) filled with each of 5 whitespace strings (exhaustive); a third of the (gap, token) pairs of ~125 foreign tokens (operators and keywords of other query languages, plausible extensions, full-width and mathematical look-alikes of the grammar's own operators, number spellings JSON does not have) inserted bare and space-separated; the complete single-token-edit neighbourhood of the base set (delete, duplicate, swap, replace by / insert each of 45 token kinds, truncate) (exhaustive); hand-written member and non-member lists (escapes, malformed JSON literals, wrong token kinds in key/index position); generated members in hostile spellings; generated and corrupted JSON literal texts; non-trivial = text judged by the recognisers; distinct by text; string-token-bytes stream: every sequence of up to 3/4 pieces from a 13-piece byte alphabet (delimiters, backslash, 1-/2-byte characters, stray and truncated UTF-8 bytes) between each pair of string delimiters and free-standing; lone-surrogates stream: a quoted identifier with an unpaired surrogate escape is rejected or keeps everything written around the surrogate (direct oracle, 4 heads x 6 surrogates x 17 tails); escape-window stream: all 4-piece windows after \\u over a 14-piece alphabet (hex digits, look-alikes, non-ASCII characters whose low byte is a hex digit, fullwidth digits), alone and as second half of a surrogate pair, and every code point U+0080..U+24FF at each of the four positions, in quoted identifiers and JSON literals; padded-numbers stream: 1..5000 leading zeros in 24 bracket positions; identifier-neighbours stream: every code point U+0080..U+24FF and samples of the higher planes glued to the end / start / middle of a name, a variable and a function name; control-characters-in-literals stream: U+0000..U+001F and U+007F raw inside JSON-literal strings (bare, padded, in arrays and objects, as keys, next to escapes), between tokens and in the other string syntaxes",
		MinNontrivial: 2000,
		Streams: []Stream{
			{Name: "lists", N: func(c *Ctx) int { return len(c04Members) + len(c04NonMembers) }, Run: c04Lists, Exhaustive: true},
			{Name: "whitespace", Setup: c04Setup, N: c04BaseN, Run: c04Whitespace, Exhaustive: true},
			{Name: "edits", Setup: c04Setup, N: func(c *Ctx) int { return c04BaseN(c) }, Run: c04Edits, Exhaustive: true},
			{Name: "generated", N: func(c *Ctx) int { return tierN(c, 30000, 6000000) }, Run: c04Generated},
			{Name: "json", N: func(c *Ctx) int { return tierN(c, 20000, 5000000) }, Run: c04JSON},
			{Name: "unusual-runes", N: func(c *Ctx) int { return len(c04Runes) }, Run: c04UnusualRunes, Exhaustive: true},
			{Name: "long", N: c04LongN, Run: c04Long, Exhaustive: true},
			{Name: "json-number-text", N: c04NumN, Run: c04NumText, Exhaustive: true},
			{Name: "string-token-bytes", N: c04ByteN, Run: c04Bytes, Exhaustive: true},
			{Name: "lone-surrogates", N: c04SurN, Run: c04Sur, Exhaustive: true},
			{Name: "escape-window", N: c04EscN, Run: c04Esc, Exhaustive: true},
			{Name: "padded-numbers", N: c04PaddedN, Run: c04Padded, Exhaustive: true},
			{Name: "identifier-neighbours", N: c04NeighN, Run: c04Neigh, Exhaustive: true},
			{Name: "control-characters-in-literals", N: c04CtlN, Run: c04Ctl, Exhaustive: true},
		},
	})
}

// ---- string-like tokens over a byte alphabet
//
// The three delimited tokens (raw string, quoted identifier, JSON literal) are scanned by code that
// looks for the closing delimiter and for backslashes; everything between is text that must still be
// well-formed UTF-8.  Every sequence of up to four pieces from an alphabet of delimiters, backslash,
// 1- and 2-byte characters, stray continuation / lead / impossible bytes and a truncated 3-byte
// sequence is put between each pair of delimiters (and, up to length 5, on its own): 3 x 13^4 + 13^5
// texts in thorough, lengths <= 3 resp. 4 in quick.

var c04BytePieces = []string{"'", "\"", "`", "\\", "a", "é", "\xff", "\xc3", "\x80", "\xe2\x82", "1", " ", "\\\\"}

func c04ByteN(c *Ctx) int {
	k := len(c04BytePieces)
	if c.Tier == "thorough" {
		return 3*(1+k+k*k+k*k*k+k*k*k*k) + k*k*k*k*k
	}
	return 3*(1+k+k*k+k*k*k) + k*k*k*k
}

func c04ByteText(c *Ctx, idx int) string {
	k := len(c04BytePieces)
	maxIn, free := 3, 4
	if c.Tier == "thorough" {
		maxIn, free = 4, 5
	}
	per := 0
	for n, p := 0, 1; n <= maxIn; n, p = n+1, p*k {
		per += p
	}
	seq := func(i, n int) string {
		var b strings.Builder
		for j := 0; j < n; j++ {
			b.WriteString(c04BytePieces[i%k])
			i /= k
		}
		return b.String()
	}
	if idx < 3*per {
		d := []string{"'", "\"", "`"}[idx/per]
		i := idx % per
		for n, p := 0, 1; ; n, p = n+1, p*k {
			if i < p {
				return d + seq(i, n) + d
			}
			i -= p
		}
	}
	return seq(idx-3*per, free)
}

func c04Bytes(c *Ctx, idx int) {
	t := c04ByteText(c, idx)
	for _, text := range []string{t, "a == " + t, "[" + t + "]"} {
		pr := c.CheckGrammar(text, map[string]string{"family": "string-token-bytes"})
		if pr.Status != ref.ParseGap {
			c.Nontrivial(text)
		}
	}
}

// ---- lone surrogate escapes in quoted identifiers
//
// Whether a quoted identifier with an unpaired \uD800-\uDFFF escape belongs to the grammar is left
// open by the specification (the model does not judge it).  But both readings agree on this much:
// such a text is either rejected, or it names the string that its escapes spell - whatever stands
// for the lone surrogate, the characters and escapes written before and after it are part of the
// name.  Accepting the text and dropping what follows the surrogate is "a malformed expression
// silently reinterpreted as a different, valid one".  Direct oracle: if `{"<text>": a}` compiles,
// its one key starts with the decoded prefix and ends with the decoded tail.
var c04SurHead = []string{"", "ab", `\n`, `é`}
var c04SurLone = []string{`\ud83d`, `\uD800`, `\udbff`, `\udc00`, `\uDFFF`, `\ude00`}
var c04SurTail = []struct{ text, decoded string }{
	{"zu1234", "zu1234"}, {`\n1234`, "\n1234"}, {`\u0041`, "A"}, {`\u00e9xyz`, "\u00e9xyz"}, {"A", "A"}, {"abcdefgh", "abcdefgh"}, {`\\u1234`, `\u1234`}, {"/u0041", "/u0041"}, {"0u0041", "0u0041"},
	{`\t\ud83d\ude00`, "\t\U0001F600"}, {`xy\u0041`, "xyA"}, {"12345", "12345"}, {"123456", "123456"}, {"1234567", "1234567"}, {`\"quoted\"`, `"quoted"`}, {`\/\/\/`, "///"}, {`\u+!#$`, ""},
}

func c04SurN(c *Ctx) int { return len(c04SurHead) * len(c04SurLone) * len(c04SurTail) }

func c04Sur(c *Ctx, idx int) {
	h := c04SurHead[idx%len(c04SurHead)]
	idx /= len(c04SurHead)
	l := c04SurLone[idx%len(c04SurLone)]
	idx /= len(c04SurLone)
	t := c04SurTail[idx]
	hd := map[string]string{"": "", "ab": "ab", `\n`: "\n", `é`: "é"}[h]
	lowFirst := strings.HasPrefix(strings.ToLower(l), `\ud`) && strings.ToLower(l)[3] >= 'c'
	if !lowFirst && strings.HasPrefix(t.text, `\ud`) {
		return
	}
	name := `"` + h + l + t.text + `"`
	text := "{" + name + ": a}"
	feats := map[string]string{"family": "lone-surrogates"}
	c.CheckGrammar(text, feats)
	c.CheckGrammar(name, feats)
	ls := c.LibSearch(text, map[string]any{"a": json.Number("1")})
	if ls.Panic != nil {
		return // reported by CheckGrammar / C03
	}
	if ls.Err != nil {
		if ls.Cats != ref.CatSyntax {
			c.Report(Violation{Rule: "C04/lone-surrogate-outcome", Expr: text, Got: ShowOut(ls), Want: "a syntax error, or an object whose key spells the escapes", Features: feats})
		}
		c.Nontrivial(text)
		return
	}
	if t.decoded == "" {
		c.Report(Violation{Rule: "C04/reinterpreted", Expr: text, Got: "compiles: " + ShowOut(ls), Want: "a syntax error (the escape after the surrogate is malformed)", Features: feats})
		return
	}
	obj, ok := ls.Res.(map[string]any)
	var key string
	if ok && len(obj) == 1 {
		for k := range obj {
			key = k
		}
	}
	if !ok || len(obj) != 1 || !strings.HasPrefix(key, hd) || !strings.HasSuffix(key, t.decoded) || len(key) < len(hd)+len(t.decoded) {
		c.Report(Violation{Rule: "C04/reinterpreted", Expr: text, Got: fmt.Sprintf("compiles, and the key is %q", key), Want: fmt.Sprintf("a syntax error, or a key that starts with %q and ends with %q (what is written around the lone surrogate)", hd, t.decoded), Features: feats})
	}
	c.Nontrivial(text)
}

// ---- the four characters after \u
//
// A \u escape takes exactly four ASCII hex digits.  Decoders that look at bytes, at runes, or at
// one of them through a conversion of the other, disagree exactly on non-ASCII characters whose low
// byte happens to be a hex digit (Cyrillic а U+0430, dotless ı U+0131, 😰 U+1F630 ...), on fullwidth
// and other "digit" characters, and on windows that end inside a character.  Two streams: every
// sequence of four pieces from a 14-piece alphabet after \u (alone and as the second half of a
// surrogate pair), and every code point U+0080..U+24FF plus samples of the higher planes at each
// of the four positions of an otherwise valid escape; quoted identifiers and JSON literals.
var c04HexPieces = []string{"0", "a", "F", "9", "g", "G", " ", "а", "с", "ı", "Ł", "😰", "é", "０"}

func c04EscN(c *Ctx) int {
	k := len(c04HexPieces)
	return k*k*k*k + 4*(0x2500-0x80+64)
}

func c04Esc(c *Ctx, idx int) {
	k := len(c04HexPieces)
	var win string
	if idx < k*k*k*k {
		i := idx
		for j := 0; j < 4; j++ {
			win += c04HexPieces[i%k]
			i /= k
		}
	} else {
		i := idx - k*k*k*k
		pos := i % 4
		i /= 4
		var r rune
		if i < 0x2500-0x80 {
			r = rune(0x80 + i)
		} else {
			r = []rune{0xFF10, 0xFF21, 0xFF41, 0x1D7CE, 0x1F630, 0x10430, 0x3041, 0xFE30, 0xA641, 0x1E030, 0x10FFFF, 0xFFFD, 0xE030, 0x2F831}[(i-(0x2500-0x80))%14]
			r += rune((i - (0x2500 - 0x80)) / 14)
		}
		digits := []string{"0", "0", "4", "1"}
		digits[pos] = string(r)
		win = strings.Join(digits, "")
	}
	feats := map[string]string{"family": "escape-window"}
	texts := []string{`"\u` + win + `"`, `"\ud83d\u` + win + `"`, "`\"\\u" + win + "\"`"}
	if c.Tier == "thorough" {
		texts = append(texts, `"x\u`+win+`y"`, `{"\u`+win+`": a}`)
	}
	for _, t := range texts {
		pr := c.CheckGrammar(t, feats)
		if pr.Status != ref.ParseGap {
			c.Nontrivial(t)
		}
	}
}

// ---- zero-padded integers in brackets: number = ["-"] 1*digit, any number of leading zeros
func c04PaddedN(c *Ctx) int { return len(c12PadZeros) }

func c04Padded(c *Ctx, idx int) {
	z := strings.Repeat("0", c12PadZeros[idx])
	feats := map[string]string{"family": "padded-numbers", "zeros": fmt.Sprint(len(z))}
	for _, t := range []string{"foo[" + z + "1]", "foo[-" + z + "1]", "foo[" + z + "1:]", "foo[:" + z + "2]", "foo[::" + z + "2]", "foo[::-" + z + "1]", "[" + z + "]", "[" + z + "0]", "foo[" + z + "1:" + z + "2:" + z + "3]", "foo[*][" + z + "1]", "foo | [" + z + "7]", "foo[" + z + "]", "foo[-" + z + "]",
		"foo[" + z + "9223372036854775807]", "foo[-" + z + "9223372036854775808]", "foo[ " + z + "1 ]", "foo[" + z + "1 : " + z + "2]", "foo[" + z + "1a]", "foo[" + z + "1.0]", "foo[" + z + "-1]", "foo[+" + z + "1]", "foo[" + z + "1e2]", "`" + z + "1`", "foo[?bar == `" + z + "`]"} {
		pr := c.CheckGrammar(t, feats)
		if pr.Status != ref.ParseGap {
			c.Nontrivial(t)
		}
	}
}

// ---- every code point next to an identifier
//
// Outside quotes only ASCII (and the three operator signs) can continue or follow a name.  A scanner
// that classifies characters through a table indexed by a truncated code point, or through a
// Unicode predicate (IsLetter, IsDigit), accepts other alphabets' letters and digits as part of
// identifiers, variables and function names.  Every code point U+0080..U+24FF and samples of the
// higher planes, glued to the end, the start and the middle of a name, of a variable and of a
// function name.
func c04NeighN(c *Ctx) int { return 0x2500 - 0x80 + 200 }

func c04NeighRune(i int) rune {
	if i < 0x2500-0x80 {
		return rune(0x80 + i)
	}
	i -= 0x2500 - 0x80
	bases := []rune{0x3041, 0x4E00, 0xAC00, 0xFF10, 0xFF21, 0xFF41, 0x10400, 0x1D400, 0x1D7CE, 0x1F600, 0xA640, 0x2C00, 0x1E900, 0xE0030, 0x10FFC0, 0xFE30, 0x2E80, 0x3200, 0xD7B0, 0xFB00}
	return bases[i%len(bases)] + rune(i/len(bases))*7
}

func c04Neigh(c *Ctx, idx int) {
	r := string(c04NeighRune(idx))
	feats := map[string]string{"family": "identifier-neighbours", "code_point": fmt.Sprintf("U+%04X", c04NeighRune(idx))}
	texts := []string{"foo" + r, r + "foo", "fo" + r + "o", "let $v = a in $v" + r, "abs" + r + "(a)", "a." + r}
	if c.Tier == "thorough" {
		texts = append(texts, "foo."+"b"+r+"r", "$"+r, "{k"+r+": a}", "foo["+r+"]", "a"+r+"b(a)", "foo "+r, "_"+r, "a1"+r)
	}
	for _, t := range texts {
		pr := c.CheckGrammar(t, feats)
		if pr.Status != ref.ParseGap {
			c.Nontrivial(t)
		}
	}
}

// ---- raw control characters inside string tokens
//
// JSON forbids every raw character U+0000..U+001F inside a string (not only the five that have short
// escapes); a JSON literal whose string body holds one is outside the grammar - as a bare string,
// inside an array or object, as a key, with or without white space around the value, next to
// escapes or not.  (Raw strings and quoted identifiers with such characters are not judged.)
func c04CtlN(c *Ctx) int { return 0x21 }

func c04Ctl(c *Ctx, idx int) {
	r := string(rune(idx))
	if idx == 0x20 {
		r = "\x7f"
	}
	feats := map[string]string{"family": "control-characters-in-literals", "code_point": fmt.Sprintf("U+%04X", []rune(r)[0])}
	for _, t := range []string{"`\"a" + r + "b\"`", "`\"" + r + "\"`", "`\"" + r + r + "x\"`", "` \"a" + r + "b\" `", "`[\"a" + r + "b\"]`", "`{\"k\": \"" + r + "\"}`", "`{\"a" + r + "\": 1}`", "`\"a" + r + "b\\n\"`", "`\"\\t" + r + "\"`",
		"items[?name == `\"a" + r + "b\"`].id | [0]", "`\"abc\"" + r + "`", "`" + r + "\"abc\"`", "`[1," + r + "2]`", "`\"a\"`" + r, "a" + r + "b", "'a" + r + "b'", "\"a" + r + "b\"", "a ||" + r + "b"} {
		pr := c.CheckGrammar(t, feats)
		if pr.Status != ref.ParseGap {
			c.Nontrivial(t)
		}
	}
}
