package mon

import (
	"bytes"
	"encoding/json"
	"errors"
	"fmt"
	"io"
	"math"
	"math/big"
	"reflect"
	"strings"
	"time"

	"github.com/woodsbury/decimal128"
	"github.com/woodsbury/jmespath"

	"verif/harness/gen"
	"verif/harness/ref"
)

// CheckNoPanic drives text/data through Compile, Search and
// Expression.Search and reports panics (process-fatal failures are caught by
// the driver through the intent slot).  Errors are formatted every way.
func (c *Ctx) CheckNoPanic(text string, data any, feats map[string]string) (compiled bool) {
	report := func(api string, o LibOut) {
		f := map[string]string{"api": api}
		for k, v := range feats {
			f[k] = v
		}
		c.Report(Violation{Rule: "C03/panic", Expr: text, Data: gen.Describe(data), Got: ShowOut(o), Detail: firstLines(o.Stack, 30), Features: f})
	}
	l := c.LibSearch(text, data)
	if l.Panic != nil {
		report("Search", l)
	} else if l.Err != nil {
		c.checkErrFormat(text, data, l.Err)
	}
	e, lc := c.LibCompile(text)
	if lc.Panic != nil {
		report("Compile", lc)
		return false
	}
	if lc.Err != nil {
		c.checkErrFormat(text, data, lc.Err)
		return false
	}
	l2 := c.LibExprSearch(e, text, data)
	if l2.Panic != nil {
		report("Expression.Search", l2)
	} else if l2.Err != nil {
		c.checkErrFormat(text, data, l2.Err)
	}
	return true
}

func firstLines(s string, n int) string {
	lines := strings.Split(s, "\n")
	if len(lines) > n {
		lines = lines[:n]
	}
	return strings.Join(lines, "\n")
}

// checkErrFormat formats a returned error every way a caller would.
func (c *Ctx) checkErrFormat(text string, data any, err error) {
	defer func() {
		if r := recover(); r != nil {
			c.Report(Violation{Rule: "C03/error-format-panic", Expr: text, Data: gen.Describe(data), Got: fmt.Sprintf("PANIC while formatting the returned error: %v", r)})
		}
	}()
	c.Count("errors_formatted", 1)
	s := err.Error()
	_ = fmt.Sprintf("%v|%+v|%q|%s", err, err, err, err)
	for _, x := range sentinels {
		_ = errors.Is(err, x.e)
	}
	_ = errors.Unwrap(err)
	if s == "" {
		c.Report(Violation{Rule: "C03/empty-error-text", Expr: text, Data: gen.Describe(data)})
	}
}

// ---------------------------------------------------------------------------

var c03Corpus []string
var c03Docs []any

func c03Setup(c *Ctx) {
	if c03Corpus != nil {
		return
	}
	cs, err := ref.LoadCorpus("/repo/testdata/compliance")
	if err != nil || len(cs) == 0 {
		// fall back to a built-in list: the corpus is only a seed here
		c03Corpus = []string{"foo.bar[0]", "foo[?a==`1`].b", "sort_by(a,&b)[*].c", "{a:b,c:d}", "[a,b]", "foo[1:2:3]", "`{\"a\":1}`", "'raw'", "\"q\".x", "a||b&&!c", "let $x = a in $x", "a.*.b[]"}
	}
	seen := map[string]bool{}
	for _, x := range cs {
		if !seen[x.Expr] {
			seen[x.Expr] = true
			c03Corpus = append(c03Corpus, x.Expr)
		}
	}
	for _, t := range gridDocsText {
		v, _ := ref.FromJSON(t)
		c03Docs = append(c03Docs, ref.ToGo(v, ref.JSONNumber))
	}
}

func c03TruncN(c *Ctx) int {
	c03Setup(c)
	n := 0
	for _, e := range c03Corpus {
		n += 2 * (len(e) + 1)
	}
	return n
}

// every prefix and every suffix of every corpus expression
func c03Trunc(c *Ctx, idx int) {
	for _, e := range c03Corpus {
		sz := 2 * (len(e) + 1)
		if idx >= sz {
			idx -= sz
			continue
		}
		var t string
		if idx <= len(e) {
			t = e[:idx]
		} else {
			t = e[idx-len(e)-1:]
		}
		c.CheckNoPanic(t, c03Docs[idx%len(c03Docs)], map[string]string{"family": "truncation"})
		c.Nontrivial(t)
		return
	}
}

var c03Vocab = []string{"a", "b", "foo", "\"q q\"", "'raw'", "`1`", "`\"s\"`", "`[1,2]`", "`{\"a\":1}`", "`null`", "0", "1", "-1", "9223372036854775807", "-9223372036854775808", "99999999999999999999",
	".", "*", ".*", "[", "]", "[*]", "[]", "[?", "{", "}", "(", ")", ",", ":", "::", "|", "||", "&&", "&", "!", "!=", "==", "<", "<=", ">", ">=", "+", "-", "−", "×", "÷", "/", "//", "%", "=",
	"@", "$", "$x", "let", "in", " ", "\t", "\n", "abs(", "sort_by(", "length(", "map(&", "merge(", "not_null(", "zip(", "to_string(", "find_first(", "pad_left(", "split(", "'", "\"", "`", "\\", "\\u00e9", "\\ud83d", "é", "𝌆", "\xff", "\x00"}

func c03Tokens(c *Ctx, idx int) {
	c03Setup(c)
	r := c.Rand("")
	n := 1 + r.Intn(14)
	var b strings.Builder
	for i := 0; i < n; i++ {
		b.WriteString(gen.Pick(r, c03Vocab))
	}
	t := b.String()
	c.CheckNoPanic(t, c03Docs[r.Intn(len(c03Docs))], map[string]string{"family": "tokens"})
	c.Nontrivial(t)
}

const c03Chars = " !\"$%&'()*+,-./0123456789:<=>?@AZ[\\]_`az{|}"

func c03Bytes(c *Ctx, idx int) {
	c03Setup(c)
	r := c.Rand("")
	n := r.Intn(40)
	b := make([]byte, n)
	for i := range b {
		switch r.Intn(4) {
		case 0:
			b[i] = byte(r.Intn(256))
		default:
			b[i] = c03Chars[r.Intn(len(c03Chars))]
		}
	}
	t := string(b)
	c.CheckNoPanic(t, c03Docs[r.Intn(len(c03Docs))], map[string]string{"family": "bytes"})
	c.Nontrivial(t)
}

// token-level mutants of corpus expressions
func c03Mutants(c *Ctx, idx int) {
	c03Setup(c)
	r := c.Rand("")
	e := gen.Pick(r, c03Corpus)
	t := gen.Mutate(r, e)
	c.CheckNoPanic(t, c03Docs[r.Intn(len(c03Docs))], map[string]string{"family": "mutant"})
	c.Nontrivial(t)
	c.Sample(map[string]any{"base": e, "mutant": t})
}

// ---- nesting

type nestForm struct {
	name             string
	open, mid, close string
}

var nestForms = []nestForm{
	{"paren", "(", "a", ")"},
	{"not", "!", "a", ""},
	{"multiselect-list", "[", "a", "]"},
	{"multiselect-hash", "{a:", "a", "}"},
	{"pipe", "a|", "a", ""},
	{"dot", "a.", "a", ""},
	{"index", "", "a", "[0]"},
	{"wildcard", "", "a", "[*]"},
	{"flatten", "", "a", "[]"},
	{"filter", "a[?", "a", "]"},
	{"function", "abs(", "a", ")"},
	{"expref", "sort_by(a,&", "a", ")"},
	{"or", "a||", "a", ""},
	{"arith", "a+", "a", ""},
	{"unary-minus", "-", "a", ""},
	{"let", "let $a = a in ", "a", ""},
	{"json-literal-array", "`" + "[", "1", "]" + "`"},
	{"json-literal-object", "`" + `{"a":`, "1", "}" + "`"},
	{"object-wildcard", "", "a", ".*"},
	{"slice", "", "a", "[::2]"},
}

func nestDepths(c *Ctx) []int {
	if c.Tier == "thorough" {
		return []int{10, 100, 1000, 10000, 100000, 300000}
	}
	return []int{10, 100, 1000, 10000, 100000}
}

func nestText(f nestForm, d int) string {
	if strings.HasPrefix(f.name, "json-literal") {
		// the backticks go outside the nesting
		inner := strings.Repeat(strings.TrimPrefix(f.open, "`"), d) + f.mid + strings.Repeat(strings.TrimSuffix(f.close, "`"), d)
		return "`" + inner + "`"
	}
	return strings.Repeat(f.open, d) + f.mid + strings.Repeat(f.close, d)
}

func c03NestN(c *Ctx) int { return len(nestForms) * len(nestDepths(c)) }

func c03Nest(c *Ctx, idx int) {
	c03Setup(c)
	ds := nestDepths(c)
	f := nestForms[idx/len(ds)]
	d := ds[idx%len(ds)]
	t := nestText(f, d)
	doc := map[string]any{"a": map[string]any{"a": []any{json.Number("1"), json.Number("2")}}}
	c.CheckNoPanic(t, doc, map[string]string{"family": "nesting", "construct": f.name, "depth": fmt.Sprint(d)})
	c.Nontrivial(f.name, fmt.Sprint(d))
}

// The deep-nesting witnesses of the known finding (goroutine stack overflow):
// run last, one per construct that recurses in the parser.
var c03DeepForms = []string{"paren", "not", "multiselect-list"}

const c03DeepDepth = 4000000

func c03Deep(c *Ctx, idx int) {
	var f nestForm
	for _, x := range nestForms {
		if x.name == c03DeepForms[idx] {
			f = x
		}
	}
	t := nestText(f, c03DeepDepth)
	c.CheckNoPanic(t, nil, map[string]string{"family": "deep-nesting", "construct": f.name, "depth": fmt.Sprint(c03DeepDepth)})
	c.Nontrivial("deep", f.name)
}

// pad widths that exceed any memory: witnesses of the known finding
var c03PadHuge = []string{"pad_left('a', `4000000000000`, '𝌆')", "pad_right('a', `4000000000000`, '𝌆')"}

func c03Pad(c *Ctx, idx int) {
	c.CheckNoPanic(c03PadHuge[idx], nil, map[string]string{"family": "pad-huge"})
	c.Nontrivial(c03PadHuge[idx])
}

// long flat inputs
func c03Long(c *Ctx, idx int) {
	n := 1 << 20
	var t string
	switch idx {
	case 0:
		t = strings.Repeat("a", n)
	case 1:
		t = "'" + strings.Repeat("é", n/2) + "'"
	case 2:
		t = "\"" + strings.Repeat("\\u00e9", n/6) + "\""
	case 3:
		t = "`\"" + strings.Repeat("x", n) + "\"`"
	case 4:
		t = "[" + strings.Repeat("a,", n/2) + "a]"
	case 5:
		t = "{" + strings.Repeat("a:a,", n/4) + "a:a}"
	case 6:
		t = "a" + strings.Repeat(" ", n) + ".b"
	case 7:
		t = "`" + strings.Repeat("1", n) + "`"
	case 8:
		t = strings.Repeat("a||", n/3) + "a"
	case 9:
		t = "merge(" + strings.Repeat("a,", n/2) + "a)"
	case 10:
		t = "a" + strings.Repeat("[0]", n/3)
	case 11:
		t = "a[" + strings.Repeat("9", 400) + "]"
	}
	c.CheckNoPanic(t, map[string]any{"a": map[string]any{"a": "x"}}, map[string]string{"family": "long", "form": fmt.Sprint(idx)})
	c.Nontrivial("long", fmt.Sprint(idx))
}

// ---- hostile Go values

type foreign struct{ X int }

// HostileValues: every numeric kind incl. non-finite, odd json.Number texts,
// decimal specials, typed nils, foreign values, invalid UTF-8.
func HostileValues() []any {
	var nilSlice []any
	var nilMap map[string]any
	i := 5
	return append([]any{
		nil, true, "", "a", "é𝌆", "\xff\xfe", "a\x00b",
		json.Number("1"), json.Number("1.5"), json.Number("-0"), json.Number("1e400"), json.Number("1e7000"), json.Number("1e-7000"), json.Number(""), json.Number("abc"), json.Number("NaN"), json.Number("Infinity"), json.Number("0x10"), json.Number("1_000"), json.Number(" 1"), json.Number("9223372036854775808"), json.Number("-9223372036854775809"), json.Number(strings.Repeat("9", 50)),
		float64(1.5), float64(0), math.NaN(), math.Inf(1), math.Inf(-1), float64(9223372036854775808), float64(-9223372036854775808), math.MaxFloat64, math.SmallestNonzeroFloat64, math.Copysign(0, -1),
		float32(2.5), float32(math.NaN()), float32(math.Inf(1)), float32(9223372036854775808),
		int(3), int(-3), int(math.MaxInt64), int(math.MinInt64), int8(-128), int16(-32768), int32(math.MinInt32), int64(math.MinInt64), int64(math.MaxInt64),
		uint(3), uint(math.MaxUint64), uint8(255), uint16(65535), uint32(math.MaxUint32), uint64(math.MaxUint64), uint64(1 << 63),
		decimal128.MustParse("1.5"), decimal128.MustParse("3"), decimal128.NaN(), decimal128.Inf(1), decimal128.Inf(-1), decimal128.MustParse("-0"), decimal128.MustParse("1e6000"), decimal128.MustParse("1e-6000"), decimal128.MustParse("9223372036854775808"), decimal128.MustParse("-9223372036854775809"),
		nilSlice, nilMap, []any{}, map[string]any{}, []any{nil}, []any{json.Number("1"), "a"}, map[string]any{"k": nil},
		[]any{[]any{nil, json.Number("1")}}, []any{[]any{"k"}}, []any{[]any{}}, []any{[]any{json.Number("1"), nil}}, []any{nil, "a"}, []any{[]any{"a", nil}, nil},
		foreign{1}, &foreign{2}, &i, make(chan int), func() {}, []string{"a"}, map[int]any{1: 2}, time.Unix(0, 0), []byte("x"), map[string]string{"a": "b"}, []int{1}, errors.New("e"), uintptr(1), complex(1, 2), [2]any{1, 2}, struct{}{},
	}, StdlibCarriers()...)
}

// nilStringer has methods that dereference the receiver: calling them on a typed nil panics.
type nilStringer struct{ s string }

func (n *nilStringer) String() string               { return n.s }
func (n *nilStringer) Error() string                { return n.s }
func (n *nilStringer) MarshalJSON() ([]byte, error) { return []byte(n.s), nil }
func (n *nilStringer) MarshalText() ([]byte, error) { return []byte(n.s), nil }
func (n *nilStringer) Read(p []byte) (int, error)   { return copy(p, n.s), io.EOF }

// StdlibCarriers: values of standard-library (and the decimal package's) types that a library could
// plausibly learn to understand one day - big numbers, raw JSON, pointers to scalars and containers,
// readers, marshalers - each as a useful value, as a malformed one and as a typed nil.  Today they
// are opaque foreign values; a commit that teaches the library about one of them must keep every
// guarantee (no panic on the typed nil, static faults before the document is looked at, ...).
func StdlibCarriers() []any {
	jn := json.Number("2.5")
	str := "s"
	f := 1.5
	i64 := int64(7)
	b := true
	dec := decimal128.MustParse("1.5")
	arr := []any{json.Number("1"), "a"}
	obj := map[string]any{"a": json.Number("1")}
	var av any = "x"
	raw := json.RawMessage(`{"a":1,"xs":[3,1,2]}`)
	tm := time.Unix(0, 0)
	return []any{
		big.NewInt(5), (*big.Int)(nil), *big.NewInt(5), big.NewFloat(1.5), (*big.Float)(nil), big.NewRat(1, 3), (*big.Rat)(nil), new(big.Int).Lsh(big.NewInt(1), 200),
		&jn, (*json.Number)(nil), raw, &raw, json.RawMessage(`{"a": `), json.RawMessage(`{"a":1} x`), json.RawMessage(``), json.RawMessage(nil), (*json.RawMessage)(nil), []byte(nil), []byte(`{"a": `), []byte(`[1,2]`),
		&str, (*string)(nil), &f, (*float64)(nil), &i64, (*int64)(nil), (*int)(nil), &b, (*bool)(nil), &dec, (*decimal128.Decimal)(nil),
		&arr, (*[]any)(nil), &obj, (*map[string]any)(nil), &av, (*any)(nil),
		&tm, (*time.Time)(nil), time.Duration(5), bytes.NewBufferString(`{"a":1}`), (*bytes.Buffer)(nil), strings.NewReader(`{"a": `), (*strings.Reader)(nil), (*strings.Builder)(nil),
		&nilStringer{"n"}, (*nilStringer)(nil), fmt.Stringer((*nilStringer)(nil)), error((*nilStringer)(nil)), json.Marshaler((*nilStringer)(nil)), io.Reader((*nilStringer)(nil)),
		reflect.ValueOf(1), reflect.Value{}, []json.Number{"1", "x"}, map[string]json.Number{"a": "1"}, []float64(nil), []float64{1.5}, map[string]float64{"a": 1}, [][]any{{1}}, []map[string]any{{"a": 1}}, map[string][]any{"a": {1}},
	}
}

// c03Panel: expressions that hand h0/h1/h2 to every operator and builtin in
// every argument position.
var c03Panel []string

func c03PanelSetup() {
	if c03Panel != nil {
		return
	}
	p := []string{
		"h0", "@", "h0.a", "h0[0]", "h0[-1]", "h0[1:2]", "h0[::-1]", "h0[::2]", "h0[*]", "h0.*", "h0[]", "h0[?@]", "h0[?@ == h1]", "arr[?@ == `1`]", "arr[*].a", "obj.*.a",
		"h0 == h1", "h0 != h1", "h0 < h1", "h0 <= h1", "h0 > h1", "h0 >= h1", "h0 + h1", "h0 - h1", "h0 * h1", "h0 × h1", "h0 / h1", "h0 ÷ h1", "h0 // h1", "h0 % h1", "-h0", "+h0", "−h0", "!h0",
		"h0 && h1", "h0 || h1", "h0 | @", "[h0, h1]", "{a: h0, b: h1}", "h0.[@]", "h0.{a: @}", "let $v = h0 in [$v, $v == h1]", "arr[?@ < h0]", "arr[?@ == h0]",
		"sort_by(arr, &@)", "max_by(arr, &@)", "min_by(arr, &@)", "group_by(arr, &@)", "map(&@, arr)", "map(&(@ + h0), arr)", "sort_by(objs, &k)", "max_by(objs, &k)", "min_by(objs, &k)", "group_by(objs, &k)",
		"arr[0:h0]", "contains(arr, h0)", "contains(h0, h1)", "to_string(arr)", "to_string(obj)", "to_number(to_string(h0))", "[arr][]", "arr[]", "sum(arr)", "avg(arr)", "max(arr)", "min(arr)", "sort(arr)", "join(h0, arr)", "reverse(arr)", "length(arr)", "keys(obj)", "values(obj)", "items(obj)", "from_items(items(obj))", "merge(obj, obj)", "zip(arr, arr)", "not_null(h0, h1)", "to_array(h0)", "type(h0)",
	}
	for _, n := range ref.FunctionNames() {
		mn, mx, ex, _ := ref.Arity(n)
		if mx < 0 {
			mx = 2
		}
		for a := mn; a <= mx; a++ {
			for pos := 0; pos < a; pos++ {
				// hostile value at position pos, plausible values elsewhere
				args := make([]string, a)
				for i := range args {
					args[i] = c03Plausible(n, i)
					for _, e := range ex {
						if e == i {
							args[i] = "&@"
						}
					}
				}
				isE := false
				for _, e := range ex {
					if e == pos {
						isE = true
					}
				}
				if isE {
					args[pos] = "&h0"
				} else {
					args[pos] = "h0"
				}
				p = append(p, n+"("+strings.Join(args, ", ")+")")
				if a >= 2 && !isE {
					q := append([]string{}, args...)
					for i := range q {
						if i != pos && !strings.HasPrefix(q[i], "&") {
							q[i] = "h1"
							break
						}
					}
					p = append(p, n+"("+strings.Join(q, ", ")+")")
				}
			}
		}
	}
	c03Panel = p
}

func c03Plausible(fn string, i int) string {
	switch fn {
	case "abs", "ceil", "floor":
		return "`1.5`"
	case "avg", "sum", "max", "min", "sort", "reverse", "to_array", "length":
		return "`[1,2]`"
	case "contains":
		if i == 0 {
			return "`[1,2]`"
		}
		return "`1`"
	case "join":
		if i == 0 {
			return "','"
		}
		return "`[\"a\",\"b\"]`"
	case "keys", "values", "items", "merge":
		return "`{\"a\":1}`"
	case "from_items":
		return "`[[\"a\",1]]`"
	case "group_by", "sort_by", "max_by", "min_by":
		return "`[{\"a\":\"x\"},{\"a\":\"y\"}]`"
	case "map", "zip":
		return "`[1,2]`"
	case "find_first", "find_last":
		if i >= 2 {
			return "`1`"
		}
		return "'abcabc'"
	case "pad_left", "pad_right":
		if i == 1 {
			return "`5`"
		}
		if i == 2 {
			return "'-'"
		}
		return "'ab'"
	case "replace":
		if i == 3 {
			return "`1`"
		}
		return "'a'"
	case "split":
		if i == 2 {
			return "`1`"
		}
		return "'a,b'"
	}
	return "'a'"
}

func c03HostileN(c *Ctx) int {
	c03PanelSetup()
	hv := len(HostileValues())
	if c.Tier == "thorough" {
		return len(c03Panel) * hv * 12
	}
	return len(c03Panel) * hv * 3
}

func c03Hostile(c *Ctx, idx int) {
	c03PanelSetup()
	hv := HostileValues()
	expr := c03Panel[idx%len(c03Panel)]
	idx /= len(c03Panel)
	h0 := hv[idx%len(hv)]
	idx /= len(hv)
	// the companion value cycles deterministically through the pool
	r := c.Rand("")
	h1 := hv[(idx*17+r.Intn(len(hv)))%len(hv)]
	h2 := hv[r.Intn(len(hv))]
	var data any = map[string]any{"h0": h0, "h1": h1, "h2": h2, "arr": []any{h0, h1}, "obj": map[string]any{"k": h0, "j": h1}, "objs": []any{map[string]any{"k": h0}, map[string]any{"k": h1}}}
	if expr == "@" {
		data = h0
	}
	if strings.HasPrefix(expr, "pad_") && (hugeNumber(h0) || hugeNumber(h1)) {
		// a huge width legitimately drives the result size: covered by the
		// pad-huge witnesses (known finding), not repeated for every spelling
		c.Count("skipped_huge_pad", 1)
		return
	}
	c.CheckNoPanic(expr, data, map[string]string{"family": "hostile"})
	c.Nontrivial(expr, gen.Describe(h0), gen.Describe(h1))
	if idx%97 == 0 {
		c.Sample(map[string]any{"expr": expr, "h0": gen.Describe(h0), "h1": gen.Describe(h1)})
	}
}

// random expressions over hostile trees
func c03HostileRandom(c *Ctx, idx int) {
	r := c.Rand("")
	hv := HostileValues()
	doc := gen.Doc(r, 2)
	g := &gen.ExprGen{R: r, Root: doc, Funcs: 60, Lets: true, Arith: true}
	node := g.Expr(doc, 2)
	text := ref.Print(node)
	if strings.Contains(text, "pad_") {
		// no huge widths here (see the pad-huge stream)
		var small []any
		for _, h := range hv {
			if !hugeNumber(h) {
				small = append(small, h)
			}
		}
		hv = small
	}
	data := gen.Graft(r, ref.ToGo(doc, ref.JSONNumber), hv)
	if strings.Contains(text, "pad_") && (hasHuge(data) || strings.Contains(text, "00000000") || strings.Contains(text, "123456789")) {
		c.Count("skipped_huge_pad", 1)
		return
	}
	c.CheckNoPanic(text, data, map[string]string{"family": "hostile-random"})
	c.Nontrivial(text, gen.Describe(data))
}

// integer-parameter lattice with multi-byte subjects (the offsets where byte and
// code-point arithmetic diverge), watched for panics only
func c03IntLattice(c *Ctx, idx int) {
	subj := []string{"", "a", "éaéaéaéaéa", "日本語日本語", "aé𝌆b", "𝌆𝌆a𝌆", "ab,cd,,e", "\ufffdx\ufffd"}
	ints := []string{"-9223372036854775808", "-7", "-3", "-1", "0", "1", "2", "3", "4", "5", "6", "7", "9", "12", "30", "2147483648", "9223372036854775807", "1.5", "1e1"}
	forms := []string{"find_first(%s, %s, `%s`, `%s`)", "find_last(%s, %s, `%s`, `%s`)", "%s[%s:%s]|%s", "split(%s, %s, `%s`)|%s", "replace(%s, %s, 'é', `%s`)|%s", "pad_left(%s, `%s`, %s)|%s"}
	n := len(subj) * len(ints) * len(ints)
	f := forms[idx/n%len(forms)]
	k := idx % n
	s := subj[k%len(subj)]
	k /= len(subj)
	a, b := ints[k%len(ints)], ints[k/len(ints)%len(ints)]
	sub := "'a'"
	if strings.Contains(s, "本") {
		sub = "'本'"
	} else if strings.Contains(s, "𝌆") {
		sub = "'𝌆'"
	}
	var text string
	switch {
	case strings.HasPrefix(f, "find_"):
		text = fmt.Sprintf(f, ref.RawString(s), sub, a, b)
	case strings.HasPrefix(f, "%s["):
		if strings.ContainsAny(a+b, ".e") {
			return
		}
		text = fmt.Sprintf("%s[%s:%s]", ref.RawString(s), a, b)
	case strings.HasPrefix(f, "split"):
		text = fmt.Sprintf("split(%s, %s, `%s`)", ref.RawString(s), sub, a)
	case strings.HasPrefix(f, "replace"):
		text = fmt.Sprintf("replace(%s, %s, 'é', `%s`)", ref.RawString(s), sub, a)
	default:
		if len(a) > 3 {
			return
		}
		text = fmt.Sprintf("pad_left(%s, `%s`, %s)", ref.RawString(s), a, sub)
	}
	c.CheckNoPanic(text, nil, map[string]string{"family": "int-lattice"})
	c.Nontrivial(text)
}

// slice-lattice: every start/stop/step combination over the 64-bit limits, on
// single-byte strings, multi-byte strings and arrays of several lengths, as
// literal subject, as current node and after a pipe.
var c03SliceSubj = []string{"''", "'a'", "'abc'", "'abcdefghij'", "'aé𝌆b'", "'日本語日本語'", "'\ufffdx\ufffd'", "`[]`", "`[1]`", "`[1,2,3]`", "`[0,1,2,3,4,5,6,7,8,9]`", "`[[1,2],[3,4],[5,6]]`"}
var c03SliceBounds = []string{"", "0", "1", "2", "-1", "-2", "9", "9223372036854775807", "9223372036854775806", "-9223372036854775808", "-9223372036854775807", "4611686018427387904", "-4611686018427387904"}
var c03SliceSteps = []string{"", "1", "-1", "2", "-2", "3", "9223372036854775807", "9223372036854775806", "-9223372036854775808", "-9223372036854775807", "4611686018427387904"}

func c03SliceLatticeN(c *Ctx) int {
	return len(c03SliceSubj) * len(c03SliceBounds) * len(c03SliceBounds) * len(c03SliceSteps)
}

func c03SliceLattice(c *Ctx, idx int) {
	s := c03SliceSubj[idx%len(c03SliceSubj)]
	idx /= len(c03SliceSubj)
	a := c03SliceBounds[idx%len(c03SliceBounds)]
	idx /= len(c03SliceBounds)
	b := c03SliceBounds[idx%len(c03SliceBounds)]
	idx /= len(c03SliceBounds)
	st := c03SliceSteps[idx]
	sl := "[" + a + ":" + b + ":" + st + "]"
	if st == "" && idx%2 == 0 {
		sl = "[" + a + ":" + b + "]"
	}
	for _, text := range []string{s + sl, s + " | @" + sl, s + " | " + sl, "[" + s + "][0]" + sl, s + sl + sl} {
		c.CheckNoPanic(text, nil, map[string]string{"family": "slice-lattice"})
	}
	c.Nontrivial(s, sl)
}

// error-texts: failing expressions of every error category whose text has a chosen
// number of characters of a chosen encoded width (1-4 bytes), so that byte length and
// character count differ by up to 4x around every plausible cut-off of an error message
// (quoting, abbreviating, position arithmetic); every error is formatted every way.
var c03ErrKinds = []struct{ pre, post string }{
	{"'", ""},                  // unterminated raw string
	{"\"", ""},                 // unterminated quoted identifier
	{"`\"", ""},                // unterminated JSON literal
	{"\"", "\" ||"},            // dangling operator after a long identifier
	{"\"", "\" #"},             // bad token at the end
	{"# \"", "\""},             // bad token at the start
	{"nosuchfn('", "')"},       // unknown function
	{"abs('", "', `1`)"},       // arity
	{"abs('", "')"},            // invalid type at evaluation
	{"pad_left('", "', `-1`)"}, // invalid value
	{"$", ""},                  // undefined variable with a long name (ASCII filler only is a valid name)
	{"`1` / `0` || '", "'"},    // not a number
	{"'", "'[::0]"},            // slice step 0
	{"\"", "\".\"b\"[?"},       // truncated filter
	// the long text in other argument positions (each fails with its own message)
	{"pad_left('x', `5`, '", "')"}, // pad of the wrong length
	{"pad_right('x', `5`, '", "')"},
	{"split('a', '", "', `-1`)"}, // separator quoted in an invalid-value message
	{"replace('a', '", "', 'b', `1.5`)"},
	{"find_first('a', '", "', `0.5`)"},
	{"trim('a', `1`) || '", "'"}, // invalid type after a long operand
	{"join('", "', `[1]`)"},      // long separator, wrong element type
	{"starts_with(`1`, '", "')"},
	{"from_items(`[[1, \"", "\"]]`)"},                  // long value next to a bad key
	{"not_a_function_", "()"},                          // long unknown function name
	{"$v", ""},                                         // long undefined variable name
	{"{\"", "\": $u}"},                                 // long key, undefined variable
	{"sort_by(`[{\"k\": \"", "\"}, {\"k\": 1}]`, &k)"}, // mixed key types, long first key
	{"`{\"a\": \"", "\"}` + `1`"},                      // arithmetic on an object holding a long string
}
var c03ErrFill = []string{"a", "é", "日", "😀", "\u0301", "\ufffd", " ", "\\\\"}
var c03ErrLens = func() []int {
	var out []int
	for n := 0; n <= 140; n++ {
		out = append(out, n)
	}
	return append(out, 200, 255, 256, 257, 300, 511, 512, 513, 1023, 1024, 1025, 4096, 65535, 65536, 65537)
}()

func c03ErrTextsN(c *Ctx) int { return len(c03ErrKinds) * len(c03ErrFill) * len(c03ErrLens) }

func c03ErrTexts(c *Ctx, idx int) {
	k := c03ErrKinds[idx%len(c03ErrKinds)]
	idx /= len(c03ErrKinds)
	f := c03ErrFill[idx%len(c03ErrFill)]
	n := c03ErrLens[idx/len(c03ErrFill)]
	// every alignment of the multi-byte characters: zero to three single-byte characters in front
	for shift := 0; shift < 4; shift++ {
		if shift > 0 && (len(f) == 1 || n > 300) {
			break
		}
		text := k.pre + strings.Repeat("a", shift) + strings.Repeat(f, n) + k.post
		c.CheckNoPanic(text, map[string]any{"a": json.Number("1")}, map[string]string{"family": "error-texts"})
	}
	c.Nontrivial(k.pre, f, fmt.Sprint(n))
}

func init() {
	Register(&Property{
		ID:            "C03",
		Rule:          "expression bytes (all prefixes/suffixes of every corpus expression - exhaustive; random bytes; random token sequences over a hostile vocabulary incl. invalid UTF-8; token mutants; 1 MiB flat inputs; 20 recursive constructs nested to depth 10..1e5 (3e5 thorough) and the 4e6 witnesses) and data (every Go numeric kind incl. NaN/Inf, odd json.Number texts, decimal specials, typed nils, foreign values, invalid UTF-8) placed in every argument position of every builtin and operator; failing expressions of every error category whose text - the whole expression, or one argument at each argument position - has 0..140 and up to 65537 characters of one encoded width at every byte alignment (byte length and character count differ by up to 4x around every plausible cut-off of an error message); an exhaustive slice lattice (start/stop/step over {absent, small, +-2^62, 2^63-1, 2^63-2, -2^63, -2^63+1} on single-byte strings, multi-byte strings and arrays, as literal subject / current node / after a pipe / twice in a row); each driven through Search, Compile and Expression.Search with every returned error formatted; a monitor reports recovered panics, the driver attributes child deaths through the crash-surviving intent slot; non-trivial = every distinct input (all are meaningful for a crash property); the hostile values include a pool of standard-library carriers (math/big numbers, raw JSON, pointers to scalars and containers, readers, marshalers with nil-dereferencing methods), each as a useful value, a malformed one and a typed nil; byte-runs stream: every byte value and 20 ill-formed byte patterns repeated 1..70000 times (22 lengths around 64, 128, 256, 1024, 4096), alone, after a prefix, before a suffix and inside each token kind, every error formatted; misspelled-builtins stream: every name within one edit of a builtin, its prefixes, suffixes and case variants, all one- and two-letter names, in 4 call shapes; long-chains stream: 20 units alternating two selector kinds ([*].[*], [*].{a: a}, .[*].*, [::2].[a], .*[*], [?a].[a], ...) repeated to 16 MB (6 MB for flat chains)",
		MinNontrivial: 1000,
		Streams: []Stream{
			{Name: "truncations", N: c03TruncN, Run: c03Trunc, Exhaustive: true},
			{Name: "per-element-reentry", N: reN, Run: reRun("C03"), Exhaustive: true},
			{Name: "tokens", N: func(c *Ctx) int { return tierN(c, 150000, 3000000) }, Run: c03Tokens},
			{Name: "bytes", N: func(c *Ctx) int { return tierN(c, 50000, 1000000) }, Run: c03Bytes},
			{Name: "mutants", N: func(c *Ctx) int { return tierN(c, 60000, 1500000) }, Run: c03Mutants},
			{Name: "hostile", N: c03HostileN, Run: c03Hostile},
			{Name: "hostile-random", N: func(c *Ctx) int { return tierN(c, 40000, 800000) }, Run: c03HostileRandom},
			{Name: "int-lattice", N: func(c *Ctx) int { return 8 * 19 * 19 * 6 }, Run: c03IntLattice, Exhaustive: true},
			{Name: "error-texts", N: c03ErrTextsN, Run: c03ErrTexts, Exhaustive: true},
			{Name: "slice-lattice", N: c03SliceLatticeN, Run: c03SliceLattice, Exhaustive: true},
			{Name: "long", N: func(c *Ctx) int { return 12 }, Run: c03Long, Exhaustive: true},
			{Name: "byte-runs", N: c03RunsN, Run: c03Runs, Exhaustive: true},
			{Name: "misspelled-builtins", N: misspelledN, Run: c03Misspelled, Exhaustive: true},
			{Name: "long-chains", N: func(c *Ctx) int { return len(c03ChainUnits) }, Run: c03Chains, Exhaustive: true},
			{Name: "nesting", N: c03NestN, Run: c03Nest, Exhaustive: true},
			{Name: "pad-huge", N: func(c *Ctx) int { return len(c03PadHuge) }, Run: c03Pad, Exhaustive: true},
			{Name: "deep-nesting", N: func(c *Ctx) int { return len(c03DeepForms) }, Run: c03Deep, Exhaustive: true},
		},
	})
	assumptions["C03"] = []string{"process-fatal failures are attributed to the last intent record written before the call; a death that does not reproduce when the single case is replayed is reported as inconclusive", "address space of each child capped at 8 GiB (ulimit -v): an allocation beyond it is a fatal out-of-memory"}
	_ = jmespath.ErrSyntax
}

func hugeNumber(v any) bool {
	m, err := ref.FromGo(v)
	if err != nil {
		return false
	}
	n, ok := m.(ref.Num)
	if !ok {
		return false
	}
	return n.R.Cmp(ref.Pow10(7)) > 0
}

func hasHuge(v any) bool {
	switch x := v.(type) {
	case []any:
		for _, e := range x {
			if hasHuge(e) {
				return true
			}
		}
		return false
	case map[string]any:
		for _, e := range x {
			if hasHuge(e) {
				return true
			}
		}
		return false
	}
	return hugeNumber(v)
}

// ---- runs of one byte value
//
// Error messages quote the offending text, and code that shortens or escapes that text walks
// over bytes the lexer never validated.  Every byte value (and a few two- and three-byte patterns of
// continuation, lead and impossible bytes) is repeated 1..70000 times, alone, after a valid prefix
// and before a valid suffix; the calls must return and every error must format.
var c03RunLens = []int{1, 2, 3, 4, 63, 64, 65, 127, 128, 129, 255, 256, 257, 1023, 1024, 1025, 1026, 1027, 4095, 4096, 4097, 70000}

var c03RunPatterns = []string{"\x80\xbf", "\x80\xbf\x9a", "\xc3", "\xe2\x82", "\xf0\x9f\x98", "\xc3\x28", "\xed\xa0\x80", "\xf4\x90\x80\x80", "\xc0\xaf", "\xef\xbf\xbd", "\xef\xbb\xbf", "é", " ", "\U0001F600", "\\", "\\u", "\\ud83d", "'\\", "\"\\", "`\\"}

func c03RunsN(c *Ctx) int { return (256 + len(c03RunPatterns)) * len(c03RunLens) }

func c03Runs(c *Ctx, idx int) {
	n := c03RunLens[idx%len(c03RunLens)]
	k := idx / len(c03RunLens)
	var unit string
	if k < 256 {
		unit = string([]byte{byte(k)})
	} else {
		unit = c03RunPatterns[k-256]
	}
	run := strings.Repeat(unit, (n+len(unit)-1)/len(unit))
	for _, t := range []string{run, "a." + run, run + ".a", "'" + run + "'", "\"" + run + "\"", "`\"" + run + "\"`", "a[?b == '" + run, "$" + run, "nosuch" + run + "(a)", "a." + run + "x"} {
		c.CheckNoPanic(t, map[string]any{"a": map[string]any{"a": "x"}}, map[string]string{"family": "byte-runs", "unit": fmt.Sprintf("%q", unit), "length": fmt.Sprint(n)})
	}
	c.Nontrivial("byte-runs", fmt.Sprint(idx))
}

// ---- long chains of two alternating selectors
//
// The parser limits nesting where it recurses through expression(); a chain that alternates two
// selector kinds can recurse through other routines (a multi-select or wildcard head followed by
// further selectors) and so grow the stack without being counted.  Each unit is repeated until the
// text has 16 MB (6 MB for chains that legitimately parse flat and cost memory per node); the calls
// must return - with a result or an error - and never kill the process.
var c03ChainUnits = []struct {
	unit  string
	bytes int
}{
	{"[*].[*]", 16 << 20}, {".*[*]", 16 << 20}, {"[*].{a: a}", 16 << 20}, {"[].[a]", 16 << 20}, {".[a][0]", 16 << 20}, {".*.*", 16 << 20}, {"[*].*", 16 << 20}, {".[*].*", 16 << 20}, {"[?a].[a]", 16 << 20}, {".{a: a}.a", 16 << 20},
	{".*[0]", 16 << 20}, {"[*][0]", 16 << 20}, {".[a].[a]", 16 << 20}, {"[::2].[a]", 16 << 20}, {" | [a][*]", 16 << 20}, {".a", 6 << 20}, {"[0]", 6 << 20}, {" || a", 6 << 20}, {" | a", 6 << 20}, {"[*]", 6 << 20},
}

func c03Chains(c *Ctx, idx int) {
	u := c03ChainUnits[idx]
	t := "a" + strings.Repeat(u.unit, u.bytes/len(u.unit))
	c.CheckNoPanic(t, map[string]any{"a": map[string]any{"a": []any{"x"}}}, map[string]string{"family": "long-chains", "unit": u.unit, "bytes": fmt.Sprint(len(t))})
	c.Nontrivial("long-chains", u.unit)
}
