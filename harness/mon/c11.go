package mon

import (
	"fmt"
	"strings"
	"unicode/utf8"

	"verif/harness/gen"
	"verif/harness/ref"
)

var c11Alphabet = []string{"a", "b", "z", "é", "ü", "✓", "日", "𝌆", "😀", "́", "�", " ", ",", "A", " ", "\U0010ffff", "߿", ""}

func c11String(r *gen.R, maxLen int) string {
	n := r.Intn(maxLen + 1)
	var b strings.Builder
	for i := 0; i < n; i++ {
		b.WriteString(gen.Pick(r, c11Alphabet))
	}
	return b.String()
}

// validUTF8 walks a Go result and reports the first invalid string.
func invalidUTF8(v any) (string, bool) {
	switch x := v.(type) {
	case string:
		if !utf8.ValidString(x) {
			return x, true
		}
	case []any:
		for _, e := range x {
			if s, bad := invalidUTF8(e); bad {
				return s, true
			}
		}
	case map[string]any:
		for k, e := range x {
			if !utf8.ValidString(k) {
				return k, true
			}
			if s, bad := invalidUTF8(e); bad {
				return s, true
			}
		}
	}
	return "", false
}

func (c *Ctx) c11Check(text string, doc ref.V) ref.Outcome {
	goDoc := ref.ToGo(doc, ref.JSONNumber)
	m, l := c.CheckModel("C11", text, doc, goDoc, CheckOpts{})
	if l.Err == nil && l.Panic == nil {
		if s, bad := invalidUTF8(l.Res); bad {
			c.Report(Violation{Rule: "C11/invalid-utf8-result", Expr: text, Data: gen.Describe(goDoc), Got: fmt.Sprintf("%q", s)})
		}
	}
	return m
}

// positions: every position parameter over [-len-2, len+2] and extremes
func c11Positions(c *Ctx, idx int) {
	r := c.Rand("")
	s := c11String(r, 6)
	if idx%40 == 0 {
		s = c11String(r, 200)
	}
	if idx%40 == 20 {
		// one encoded width only (what a fast path guards on), at lengths around
		// the block sizes such paths use
		class := [][]string{{"a", "b", "z", " ", ",", "A"}, {"é", "ü", "߿", "́"}, {"✓", "日", "�"}, {"𝌆", "😀", "\U0010ffff"}, {"a", "b", "日"}, {"a", "é"}}[(idx/40)%6]
		n := []int{15, 16, 17, 31, 32, 33, 63, 64, 65, 100, 127, 128, 129, 200, 255, 256, 257}[((idx/40)*7)%17]
		var b strings.Builder
		for i := 0; i < n; i++ {
			b.WriteString(gen.Pick(r, class))
		}
		s = b.String()
	}
	n := utf8.RuneCountInString(s)
	rs := []rune(s)
	sub := ""
	if n > 0 {
		i := r.Intn(n)
		j := i + 1 + r.Intn(min(2, n-i))
		sub = string(rs[i:j])
	}
	if r.Chance(15) {
		sub = gen.Pick(r, c11Alphabet)
	}
	doc := ref.NewObj()
	doc.Set("s", s)
	doc.Set("sub", sub)
	var ps []int
	lim := n + 2
	if n > 12 {
		lim = 0
		for k := 0; k < 6; k++ {
			ps = append(ps, r.Intn(2*n+5)-n-2)
		}
	}
	for p := -lim; p <= lim && n <= 12; p++ {
		ps = append(ps, p)
	}
	ps = append(ps, 1<<31, -(1 << 31), 1<<62, -(1 << 62))
	pad := gen.Pick(r, []string{"-", "é", "𝌆", "✓", " "})
	q := r.Intn(n+3) - 1
	nontriv := func(m ref.Outcome, t string) {
		if !m.Unspec {
			c.Nontrivial(t, s, sub)
		}
	}
	for _, p := range ps {
		forms := []string{
			fmt.Sprintf("s[%d:]", p), fmt.Sprintf("s[:%d]", p), fmt.Sprintf("s[%d:%d]", p, q), fmt.Sprintf("s[%d:%d]", q, p),
			fmt.Sprintf("find_first(s, sub, `%d`)", p), fmt.Sprintf("find_last(s, sub, `%d`)", p),
			fmt.Sprintf("find_first(s, sub, `%d`, `%d`)", p, q), fmt.Sprintf("find_first(s, sub, `%d`, `%d`)", q, p),
			fmt.Sprintf("find_last(s, sub, `%d`, `%d`)", p, q), fmt.Sprintf("find_last(s, sub, `%d`, `%d`)", q, p),
		}
		if p != 0 && p > -1000 && p < 1000 {
			forms = append(forms, fmt.Sprintf("s[::%d]", p), fmt.Sprintf("s[%d::%d]", q, p))
		}
		if p >= -1 && p < 1000 {
			forms = append(forms, fmt.Sprintf("pad_left(s, `%d`)", p), fmt.Sprintf("pad_right(s, `%d`, %s)", p, ref.RawString(pad)), fmt.Sprintf("pad_left(s, `%d`, %s)", p, ref.RawString(pad)),
				fmt.Sprintf("split(s, '', `%d`)", p), fmt.Sprintf("split(s, sub, `%d`)", p), fmt.Sprintf("replace(s, sub, %s, `%d`)", ref.RawString(pad), p))
		}
		for _, f := range forms {
			nontriv(c.c11Check(f, doc), f)
		}
	}
	for _, w := range []int{22, 23, 30, 43, 64, 65, 100, 130} {
		for _, pc := range []string{"-", "é", "✓", "€", "𝌆", "\ufffd"} {
			f := fmt.Sprintf("pad_left(s, `%d`, %s)", w, ref.RawString(pc))
			if (w+len(pc))%2 == 0 {
				f = fmt.Sprintf("pad_right(s, `%d`, %s)", w, ref.RawString(pc))
			}
			nontriv(c.c11Check(f, doc), f)
		}
	}
	if idx%100 == 50 {
		// results of up to a few megabytes: the outcome must depend on code points, never on encoded size
		for _, w := range []int{262144, 262145, 349526, 524289, 1048577} {
			for _, pc := range []string{"-", "é", "✓", "𝌆"} {
				for _, f := range []string{fmt.Sprintf("length(pad_left(s, `%d`, %s)) == `%d`", w, ref.RawString(pc), max(w, n)), fmt.Sprintf("pad_right(s, `%d`, %s)[-1:] == %s", w, ref.RawString(pc), ref.RawString(pc)), fmt.Sprintf("length(pad_left(s, `%d`))", w)} {
					nontriv(c.c11Check(f, doc), f)
				}
			}
		}
	}
	if idx%100 == 75 {
		// subjects of 4000..9000 code points; the needle sits just before / at / after large
		// start offsets, in texts whose characters straddle 4 KiB (and 512 B, 64 B) block boundaries
		unit := gen.Pick(r, []string{"€", "日本", "aé", "a€", "€𝌆", "ab€", "é"})
		units := []rune(unit)
		total := 4090 + r.Intn(5000)
		rs2 := make([]rune, total)
		for i := range rs2 {
			rs2[i] = units[i%len(units)]
		}
		for _, at := range []int{4093, 4094, 4095, 4096, 4097, 1364, 1365, 1366, 2047, 2048, 8190, 8191} {
			if at >= total {
				continue
			}
			sub2 := append([]rune{}, rs2...)
			sub2[at] = 'x'
			ldoc := ref.NewObj()
			ldoc.Set("s", string(sub2))
			for _, st := range []int{at - 2, at - 1, at, at + 1, at + 2, 4096, 4095, 8192, total - 1, total} {
				if st < 0 {
					continue
				}
				for _, f := range []string{fmt.Sprintf("find_first(s, 'x', `%d`)", st), fmt.Sprintf("find_last(s, 'x', `%d`)", st), fmt.Sprintf("find_first(s, 'x', `%d`, `%d`)", st, total), fmt.Sprintf("find_last(s, 'x', `0`, `%d`)", st), fmt.Sprintf("find_first(s, %s, `%d`)", ref.RawString(string(units[:1])), st), fmt.Sprintf("s[%d:%d]", st, st+3), fmt.Sprintf("length(s[%d:])", st)} {
					nontriv(c.c11Check(f, ldoc), f)
				}
			}
		}
	}
	for _, f := range []string{"length(s)", "reverse(s)", "s[::-1]", "reverse(s) == s[::-1]", "split(s, '')", "length(split(s, '')) == length(s)", "join('', split(s, '')) == s", "find_first(s, sub)", "find_last(s, sub)", "contains(s, sub)", "starts_with(s, sub)", "ends_with(s, sub)", "replace(s, sub, 'é𝌆')", "split(s, sub)", "trim(s, sub)", "trim_left(s, sub)", "trim_right(s, sub)", "pad_left(s, length(s))", "[s, sub] | sort(@)", "max([s, sub])", "min([s, sub])", "s == sub", "join(sub, [s, s])"} {
		nontriv(c.c11Check(f, doc), f)
	}
	c.Sample(map[string]any{"s": s, "sub": sub, "code_points": n, "bytes": len(s), "positions": len(ps)})
}

// ordering by code point (not UTF-16 units, not bytes-with-surprises)
var c11OrderPairs = [][2]string{{"～", "\U0001f600"}, {"", "\U00010000"}, {"￿", "\U00010000"}, {"z", "é"}, {"é", "✓"}, {"a", "á"}, {"", "a"}, {"a", "ab"}, {"Z", "a"}, {"\U0010ffff", "�"}, {"ab", "b"}, {"߿", "ࠀ"}}

func c11Order(c *Ctx, idx int) {
	r := c.Rand("")
	var strs []string
	if idx < len(c11OrderPairs)*2 {
		p := c11OrderPairs[idx/2]
		strs = []string{p[0], p[1]}
		if idx%2 == 1 {
			strs = []string{p[1], p[0]}
		}
	} else {
		n := 2 + r.Intn(8)
		for i := 0; i < n; i++ {
			if r.Chance(30) {
				p := gen.Pick(r, c11OrderPairs)
				strs = append(strs, p[r.Intn(2)])
			} else {
				strs = append(strs, c11String(r, 3))
			}
		}
	}
	arr := &ref.Arr{}
	recs := &ref.Arr{}
	for i, s := range strs {
		arr.E = append(arr.E, s)
		o := ref.NewObj()
		o.Set("k", s)
		o.Set("id", gen.IntV(int64(i)))
		recs.E = append(recs.E, o)
	}
	doc := ref.NewObj()
	doc.Set("xs", arr)
	doc.Set("rs", recs)
	for _, f := range []string{"sort(xs)", "max(xs)", "min(xs)", "sort_by(rs, &k)[*].id", "max_by(rs, &k).k", "min_by(rs, &k).k", "sort_by(rs, &k)[*].k == sort(xs)", "reverse(sort(xs))[0] == max(xs)"} {
		m := c.c11Check(f, doc)
		if !m.Unspec {
			c.Nontrivial(f, strings.Join(strs, "|"))
		}
	}
}

// ---- renaming relation

type renamer struct {
	name string
	base rune
}

var c11Renamers = []renamer{{"cyrillic-2-byte", 0x0430}, {"kana-3-byte", 0x3041}, {"math-bold-4-byte", 0x1D41A}}

var foldHigh = renamer{name: "fold", base: -1}

func (rn renamer) str(s string) string {
	var b strings.Builder
	for _, r := range s {
		if rn.base < 0 {
			if r > 'z' {
				b.WriteRune('A' + r%26)
			} else {
				b.WriteRune(r)
			}
			continue
		}
		if r >= 'a' && r <= 'z' {
			b.WriteRune(rn.base + (r - 'a'))
		} else {
			b.WriteRune(r)
		}
	}
	return b.String()
}

func (rn renamer) value(v ref.V) ref.V {
	switch x := v.(type) {
	case string:
		return rn.str(x)
	case *ref.Arr:
		a := &ref.Arr{E: make([]ref.V, len(x.E)), Unordered: x.Unordered}
		for i, e := range x.E {
			a.E[i] = rn.value(e)
		}
		return a
	case *ref.Obj:
		o := ref.NewObj()
		for _, k := range x.Keys {
			o.Set(rn.str(k), rn.value(x.M[k]))
		}
		return o
	}
	return v
}

func (rn renamer) node(n *ref.Node) *ref.Node {
	if n == nil {
		return nil
	}
	c := *n
	switch n.Kind {
	case ref.NField:
		c.Name = rn.str(n.Name)
	case ref.NLiteral:
		c.Val = rn.value(n.Val)
	case ref.NMultiHash:
		c.Keys = make([]string, len(n.Keys))
		for i, k := range n.Keys {
			c.Keys[i] = rn.str(k)
		}
	}
	c.Kids = make([]*ref.Node, len(n.Kids))
	for i, k := range n.Kids {
		c.Kids[i] = rn.node(k)
	}
	return &c
}

// functions whose result is not invariant under renaming letters
var c11NotInvariant = map[string]bool{"upper": true, "lower": true, "to_string": true, "to_number": true, "type": true}

func usesNonInvariant(n *ref.Node) bool {
	if n == nil {
		return false
	}
	if n.Kind == ref.NFunc && c11NotInvariant[n.Name] {
		return true
	}
	for _, k := range n.Kids {
		if usesNonInvariant(k) {
			return true
		}
	}
	return false
}

func hasLetters(v ref.V) bool {
	switch x := v.(type) {
	case string:
		for _, r := range x {
			if r >= 'a' && r <= 'z' {
				return true
			}
		}
	case *ref.Arr:
		for _, e := range x.E {
			if hasLetters(e) {
				return true
			}
		}
	case *ref.Obj:
		for _, k := range x.Keys {
			if hasLetters(k) || hasLetters(x.M[k]) {
				return true
			}
		}
	}
	return false
}

func c11Rename(c *Ctx, idx int) {
	r := c.Rand("")
	doc := gen.Doc(r, 3)
	g := &gen.ExprGen{R: r, Root: doc, Funcs: 70, Lets: true, Arith: false}
	var node *ref.Node
	for try := 0; try < 5; try++ {
		node = g.Expr(doc, 2)
		if !usesNonInvariant(node) {
			break
		}
		node = nil
	}
	if node == nil {
		c.Count("skipped_not_invariant", 1)
		return
	}
	// the relation needs the renaming to preserve order against every other
	// character too: fold everything above 'z' into upper-case letters first
	// (a non-injective preparation of the input, not part of the relation)
	node = foldHigh.node(node)
	doc = foldHigh.value(doc)
	text := ref.Print(node)
	if pr := ref.Parse(text); pr.Status != ref.ParseOK {
		return
	}
	if m := ref.Search(text, doc); m.Unspec && strings.Contains(m.Why, "width beyond") {
		return
	}
	if m := ref.Search(text, doc); m.Unspec && Enumerates(text) {
		// may depend on the order in which object members are enumerated
		c.Count("skipped_order_dependent", 1)
		return
	}
	goDoc := ref.ToGo(doc, ref.JSONNumber)
	l1 := c.LibSearch(text, goDoc)
	if l1.Panic != nil || (l1.Err == nil && l1.MErr != nil) {
		return // C03 / C18 business
	}
	for _, rn := range c11Renamers {
		text2 := ref.Print(rn.node(node))
		doc2 := rn.value(doc)
		l2 := c.LibSearch(text2, ref.ToGo(doc2, ref.JSONNumber))
		var want LibOut = l1
		if l1.Err == nil {
			want.M = rn.value(l1.M)
		}
		if MultiFaultOK(ref.Search(text, doc), want, l2) {
			continue
		}
		if !SameOutcome(want, l2, Enumerates(text)) {
			c.Report(Violation{Rule: "C11/renaming", Expr: text, Data: ref.ToJSONText(doc), Got: ShowOut(l2), Want: ShowOut(want), Detail: "renamed expression: " + text2 + " ; renamed document: " + ref.ToJSONText(doc2), Features: map[string]string{"renaming": rn.name}})
		}
		if l1.Err == nil && hasLetters(l1.M) {
			c.Nontrivial(text, ref.ToJSONText(doc), rn.name)
		}
	}
	if l1.Err == nil && hasLetters(l1.M) {
		c.Sample(map[string]any{"expr": text, "renamed_expr": ref.Print(c11Renamers[2].node(node)), "result": ShowOut(l1)})
	}
}

func init() {
	Register(&Property{
		ID:            "C11",
		Rule:          "strings over an alphabet of 1- to 4-byte code points, combining marks, U+FFFD, U+10FFFF and the empty string (length 0..6, some up to 200, some of 4000-9000 code points with the needle placed around offsets 1365, 2048, 4096 and 8191, and strings of one encoded width only - 1, 2, 3 or 4 bytes - or two widths, at lengths 15..257 around the usual block sizes): every position parameter over [-len-2, len+2] and +-2^31/2^62 through slices, find_first/find_last (2-4 arguments), pad_left/pad_right (pad characters of every width; widths up to 130, and widths of 2^18 .. 2^20+1 whose results are 0.3-4.4 MB), split on '' and on substrings with counts, replace with counts, plus length/reverse/join/trim/contains/starts_with/ends_with/sort/min/max(_by) incl. pairs ordered differently by UTF-16 unit and by code point - compared with the reference model on code points; every string in every result checked for UTF-8 validity; renaming relation: a-z mapped order-preservingly to 2-, 3- and 4-byte letters in expression and data must rename the result the same way (library against itself); non-trivial = model decides (positions/order), result contains renamed letters (renaming); case-mapping stream: lower/upper of every code point that has a case mapping (alone and between other characters) must be valid UTF-8 and measure consistently under length / split / reverse; composition stream: 20 forms applying a second string operation (negative slice bounds, length, reverse, find_*, pad, split, comparison, case) to prefixes and suffixes of subjects of 100..20000 code points within one evaluation, against the model; rename-directed stream: ~400 (subject, needle) pairs over {a, b, c} (every subject of 0..4 letters, longer periodic ones) x 67 forms whose counts, windows and widths are written relative to length(s) (split on '' and on needles with counts reaching the end, replace with counts, find windows ending at the last character, pads, trims, slices, ordering): the answer for 2-, 3- and 4-byte letters must be the renamed answer for ASCII letters (library against itself, also where the model abstains)",
		MinNontrivial: 5000,
		Streams: []Stream{
			{Name: "positions", N: func(c *Ctx) int { return tierN(c, 1500, 100000) }, Run: c11Positions},
			{Name: "case-mapping", N: casedN, Run: c11CaseMap, Exhaustive: true},
			{Name: "composition", N: func(c *Ctx) int { return tierN(c, 400, 20000) }, Run: c11Composition},
			{Name: "order", N: func(c *Ctx) int { return tierN(c, 3000, 60000) }, Run: c11Order},
			{Name: "rename", N: func(c *Ctx) int { return tierN(c, 20000, 4000000) }, Run: c11Rename},
			{Name: "rename-directed", N: c11RelN, Run: c11Rel, Exhaustive: true},
		},
	})
}

// c11Composition: an operation applied to the result of another string operation within one
// evaluation.  Go substrings share memory with their parent, so anything remembered about "this
// string" by address (a code point count, an all-ASCII flag, an offset table) is wrong for a prefix
// or suffix taken from it.  Subjects of 3000..20000 code points (so that they cross the 4 KiB / 16 KiB /
// 64 KiB thresholds of such caches), mixed widths; the second operation uses length-relative
// (negative) positions.
func c11Composition(c *Ctx, idx int) {
	r := c.Rand("")
	n := gen.Pick(r, []int{100, 1500, 3000, 4096, 5000, 9000, 15000, 20000})
	var b strings.Builder
	pool := gen.Pick(r, [][]string{{"a", "é", "日", "𝌆", "b", "ï"}, {"a", "b", "c", "é"}, {"日", "本", "語"}, {"a", "b", "c", "d"}, {"𝌆", "a"}})
	for i := 0; i < n; i++ {
		b.WriteString(pool[r.Intn(len(pool))])
	}
	doc := ref.NewObj()
	doc.Set("s", b.String())
	goDoc := ref.ToGo(doc, ref.JSONNumber)
	k := n/3 + r.Intn(n/2)
	j := 1 + r.Intn(k-1)
	forms := []string{
		fmt.Sprintf("s[:%d][-3:]", k), fmt.Sprintf("s[:%d][:-3] | length(@)", k), fmt.Sprintf("length(s[:%d][:-1])", k), fmt.Sprintf("s[:%d] | [-3:]", k), fmt.Sprintf("let $p = s[:%d] in $p[-2:]", k),
		fmt.Sprintf("[s, s[:%d], s[:%d]][*][-2:]", k, j), fmt.Sprintf("[s[-2:], s[:%d][-2:], s[:%d][-2:]]", k, j), fmt.Sprintf("s[%d:][:%d][-3:]", j, k-j), fmt.Sprintf("s[:%d][-5:-2]", k),
		fmt.Sprintf("[length(s), length(s[:%d]), length(s[:%d]), length(s[%d:])]", k, j, j), fmt.Sprintf("reverse(s[:%d])[:3]", k), fmt.Sprintf("[s[::-1][:2], s[:%d][::-1][:2]]", k),
		fmt.Sprintf("[find_last(s, 'a'), find_last(s[:%d], 'a'), find_last(s[:%d], 'a')]", k, j), fmt.Sprintf("[find_first(s, 'a', `-50`), find_first(s[:%d], 'a', `-50`)]", k),
		fmt.Sprintf("pad_left(s[:%d], `%d`, '.')[:4]", j, j+3), fmt.Sprintf("[s[:%d] < s, s[:%d] == s[:%d], s[:%d] == s[:%d]]", k, k, k, k, j), fmt.Sprintf("split(s[:%d], '')[-2:]", k),
		fmt.Sprintf("[s[:%d], s][*].[length(@), @[-1:]]", k), fmt.Sprintf("s[:%d][-1:] == s[%d:%d]", k, k-1, k), fmt.Sprintf("[upper(s[:%d])[-2:], lower(s)[-2:]]", k),
	}
	for _, f := range forms {
		m, _ := c.CheckModel("C11", f, doc, goDoc, CheckOpts{Features: map[string]string{"stream": "composition", "code_points": fmt.Sprint(n)}})
		if !m.Unspec {
			c.Nontrivial(f, fmt.Sprint(idx))
		}
	}
}
