package mon

import (
	"encoding/json"
	"fmt"
	"strings"
)

// per-element-reentry (C03: no panic; C17: the projection equals the per-row answers): a builtin
// nested in an argument of another builtin (itself included), in every argument position, with the
// inner call's result flattened, used as a condition, indexed or passed on as it is - evaluated for
// every row of an array whose rows hold arrays of different lengths (4/4/2/2, 1/1/5/5, 6/6/0/0, ...).
// Scratch space that an implementation keeps on the evaluator between calls of one builtin is then
// re-entered while the outer call still uses it, with sizes that differ from row to row.
var reInner = []string{"zip(c, d)", "zip(a, b)", "zip(c, a)", "sort(c)", "reverse(a)", "map(&@, c)", "map(&[@], c)", "sort_by(r, &k)", "sort_by(c, &@)", "max_by(r, &k)", "min_by(r, &s)", "group_by(r, &s)", "merge(o, p)", "not_null(c, a)", "to_array(c)", "keys(o)", "values(o)",
	"join(',', t)", "[c, d]", "c[*]", "a[?@ > `1`]", "c[::-1]", "{x: c}.x", "sum(c)", "length(c)", "items(o)", "from_items(items(o))", "split(s, ',')", "let $v = c in $v", "max(c)", "avg(a)", "contains(c, `1`)", "replace(s, ',', ';')", "find_first(s, ',')", "pad_left(s, `9`)", "to_string(c)", "abs(n)"}

var reTails = []string{"", "[]", " && b", " || b", "[0]", "[:1]", " | @"}

var reOuter = []string{"zip(a, %s)", "zip(%s, a)", "zip(a, b, %s)", "zip(%s, %s)", "sort(%s)", "reverse(%s)", "sort_by(%s, &@)", "sort_by(r, &%s)", "sort_by(a, &(%s && @))", "max_by(r, &length(to_array(%s)))", "min_by(r, &(%s && k))", "group_by(r, &to_string(%s))", "map(&%s, a)", "map(&[@, %s], c)",
	"merge(o, {x: %s})", "merge({x: %s}, p)", "not_null(%s, a)", "not_null(missing, %s)", "join(',', %s)", "join(s, map(&to_string(@), %s))", "sum(%s)", "max(%s)", "length(%s)", "to_array(%s)", "contains(%s, `1`)", "contains(a, %s)", "[%s, %s]", "{x: %s, y: a}", "a[?@ > length(to_array(%s))]",
	"sort(keys(from_items(zip(t, %s))))", "let $q = %s in zip(a, $q)", "from_items(zip(t, %s))", "split(s, ',', length(to_array(%s)))", "find_first(s, ',', length(to_array(%s)))", "replace(s, ',', ';', length(to_array(%s)))", "pad_left(s, length(to_array(%s)))", "to_string(%s)", "[%s][]", "sort(%s || a)"}

func reDoc() any {
	nums := func(n, from int) []any {
		out := make([]any, n)
		for i := range out {
			out[i] = json.Number(fmt.Sprint((from + i*7) % 10))
		}
		return out
	}
	strs := func(n int) []any {
		out := make([]any, n)
		for i := range out {
			out[i] = fmt.Sprintf("t%d", i)
		}
		return out
	}
	recs := func(n int) []any {
		out := make([]any, n)
		for i := range out {
			out[i] = map[string]any{"k": json.Number(fmt.Sprint((i * 3) % 5)), "s": fmt.Sprintf("s%d", i%2)}
		}
		return out
	}
	var rows []any
	for i, sz := range [][2]int{{4, 2}, {1, 5}, {6, 0}, {2, 2}, {3, 7}, {0, 3}} {
		rows = append(rows, map[string]any{"a": nums(sz[0], i), "b": nums(sz[0], i+3), "c": nums(sz[1], i+1), "d": nums(sz[1], i+5), "s": strings.Repeat("x,", sz[0]) + "y", "t": strs(sz[1]), "o": map[string]any{"a": json.Number("1"), "b": "two"}, "p": map[string]any{"b": json.Number("3")}, "n": json.Number(fmt.Sprint(i - 2)), "r": recs(sz[0] + 1)})
	}
	return map[string]any{"rows": rows}
}

func reN(c *Ctx) int { return len(reOuter) * len(reInner) }

func reText(idx int, tail string) string {
	o := reOuter[idx%len(reOuter)]
	in := reInner[idx/len(reOuter)]
	x := in + tail
	if tail != "" && tail != "[]" && tail != "[0]" && tail != "[:1]" {
		x = "(" + in + tail + ")"
	}
	if strings.Count(o, "%s") == 2 {
		return fmt.Sprintf(o, x, x)
	}
	return fmt.Sprintf(o, x)
}

func reRun(prop string) func(c *Ctx, idx int) {
	return func(c *Ctx, idx int) {
		doc := reDoc()
		rows := doc.(map[string]any)["rows"].([]any)
		for _, tail := range reTails {
			body := reText(idx, tail)
			feats := map[string]string{"stream": "per-element-reentry"}
			if prop == "C03" {
				for _, text := range []string{"rows[*]." + body, "map(&" + body + ", rows)", "rows[?" + body + "] | length(@)", "rows[*].[" + body + ", " + body + "]"} {
					if strings.Contains(text, "rows[*].let ") {
						text = strings.Replace(text, "rows[*].let ", "rows[*].[let ", 1) + "]"
					}
					c.CheckNoPanic(text, doc, feats)
					c.Nontrivial("re", text)
				}
				continue
			}
			// C17: map over the rows in one evaluation == the rows one at a time (not judged where the
			// body enumerates an object: its answer may legitimately vary from call to call)
			if Enumerates(body) {
				c.Count("skipped_order_dependent", 1)
				continue
			}
			text := "map(&" + body + ", rows)"
			whole := c.LibSearch(text, doc)
			if whole.Panic != nil {
				continue
			}
			var parts []any
			failed := false
			for _, row := range rows {
				one := c.LibSearch(body, row)
				if one.Panic != nil {
					return
				}
				if one.Err != nil {
					failed = true
					break
				}
				parts = append(parts, one.Res)
			}
			if failed {
				if whole.Err == nil {
					c.Report(Violation{Rule: "C17/identity", Expr: text, Data: "rows with arrays of lengths 4/2, 1/5, 6/0, 2/2, 3/7, 0/3", Got: ShowOut(whole), Want: "an error, as for one of the rows searched alone with " + body, Features: feats})
				}
				continue
			}
			want := Observe(func() (any, error) { return parts, nil })
			if !SameOutcome(whole, want, false) {
				c.Report(Violation{Rule: "C17/identity", Expr: text, Data: "rows with arrays of lengths 4/2, 1/5, 6/0, 2/2, 3/7, 0/3", Got: ShowOut(whole), Want: ShowOut(want) + "  (each row searched alone with " + body + ")", Features: feats})
			}
			c.Nontrivial("re", text)
		}
	}
}
