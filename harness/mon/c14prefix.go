package mon

import (
	"encoding/json"
	"fmt"

	"github.com/woodsbury/decimal128"
)

// carrier-prefixes: an array of numbers whose first k elements travel in one Go type and the rest in
// another (k = 1..n-1, every ordered pair of 10 carriers), with the extreme, the duplicates and the
// needle placed before, at and after the seam: a builtin that starts on a fast path for the first
// carrier and falls back when it meets the second must carry over what it has seen. Each outcome is
// compared with the outcome on the same values as json.Number throughout (library against itself).
var c14PrefixCarriers = []struct {
	name string
	mk   func(i int64) any
}{
	{"json.Number", func(i int64) any { return json.Number(fmt.Sprint(i)) }},
	{"float64", func(i int64) any { return float64(i) }},
	{"float32", func(i int64) any { return float32(i) }},
	{"int", func(i int64) any { return int(i) }},
	{"int64", func(i int64) any { return i }},
	{"int8", func(i int64) any { return int8(i) }},
	{"uint", func(i int64) any { return uint(i) }},
	{"uint64", func(i int64) any { return uint64(i) }},
	{"decimal128", func(i int64) any { return decimal128.FromInt64(i) }},
	{"json.Number .0", func(i int64) any { return json.Number(fmt.Sprintf("%d.0", i)) }},
}

var c14PrefixTemplates = []string{"max(@)", "min(@)", "sort(@)", "sum(@)", "avg(@)", "max_by(@, &@)", "min_by(@, &@)", "sort_by(@, &@)", "reverse(sort(@))[0]", "@[?@ > `50`] | length(@)", "contains(@, `77`)", "contains(@, `3`)", "[max(@), min(@)]", "map(&(@ + `1`), @) | max(@)",
	"group_by(@, &to_string(@ > `50`)) | length(@)", "length(@[?@ == `77`])", "sort(@)[-1] == max(@)", "sum(@) == sum(sort(@))", "zip(@, @)[0]", "@[::-1] | max(@)", "not_null(@[5], @[0])", "abs(min(@))", "sort(@) | [0] < [1]"}

func c14PrefixN(c *Ctx) int { return len(c14PrefixCarriers) * len(c14PrefixCarriers) }

func c14PrefixRun(c *Ctx, idx int) {
	a := c14PrefixCarriers[idx/len(c14PrefixCarriers)]
	b := c14PrefixCarriers[idx%len(c14PrefixCarriers)]
	// values 0..100; 77 is the maximum, 3 the minimum, each placed at every position in turn
	base := []int64{40, 12, 55, 40, 9, 61, 12, 30}
	for n := 3; n <= len(base); n++ {
		for pos := 0; pos < n; pos++ {
			for _, extreme := range []int64{77, 3} {
				vals := append([]int64{}, base[:n]...)
				vals[pos] = extreme
				uniform := make([]any, n)
				for i, v := range vals {
					uniform[i] = json.Number(fmt.Sprint(v))
				}
				for k := 1; k < n; k++ {
					if n > 5 && k != 1 && k != 2 && k != pos && k != pos+1 && k != n-1 {
						continue
					}
					mixed := make([]any, n)
					for i, v := range vals {
						if i < k {
							mixed[i] = a.mk(v)
						} else {
							mixed[i] = b.mk(v)
						}
					}
					for _, t := range c14PrefixTemplates {
						want := c.LibSearch(t, uniform)
						got := c.LibSearch(t, mixed)
						if want.Panic != nil || got.Panic != nil {
							continue
						}
						if !SameOutcome(want, got, false) {
							c.Report(Violation{Rule: "C14/representation-dependent", Expr: t, Data: fmt.Sprintf("%v: first %d as %s, the rest as %s", vals, k, a.name, b.name), Got: ShowOut(got), Want: ShowOut(want) + "  (all json.Number)", Features: map[string]string{"stream": "carrier-prefixes"}})
						}
					}
				}
				c.Nontrivial("prefix", a.name, b.name, fmt.Sprint(n, pos, extreme))
			}
		}
	}
}
