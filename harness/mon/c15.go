package mon

import (
	"bufio"
	"crypto/sha256"
	"encoding/hex"
	"encoding/json"
	"fmt"
	"os"
	"path/filepath"
	"sort"
	"strings"

	"github.com/woodsbury/jmespath"

	"verif/harness/gen"
	"verif/harness/ref"
)

// rebuild constructs the Go document again from the model value: fresh maps,
// shuffled insertion order, varying capacity hints.
func rebuild(r *gen.R, v ref.V) any {
	switch x := v.(type) {
	case ref.Num:
		return ref.JSONNumber(x)
	case *ref.Arr:
		a := make([]any, len(x.E), len(x.E)+r.Intn(3))
		for i, e := range x.E {
			a[i] = rebuild(r, e)
		}
		return a
	case *ref.Obj:
		m := make(map[string]any, r.Intn(2*len(x.Keys)+1))
		ks := append([]string{}, x.Keys...)
		gen.Shuffle(r, ks)
		// sometimes insert and delete extra keys first (changes the bucket layout)
		if r.Chance(30) {
			for i := 0; i < 8; i++ {
				m[fmt.Sprint("tmp", i)] = nil
			}
			for i := 0; i < 8; i++ {
				delete(m, fmt.Sprint("tmp", i))
			}
		}
		for _, k := range ks {
			m[k] = rebuild(r, x.M[k])
		}
		return m
	}
	return v
}

// canon renders an outcome canonically.  loose: arrays sorted (multiset
// comparison) - used for expressions that enumerate object members.
func canon(l LibOut, loose bool, anyOf ref.Cat) string {
	switch {
	case l.Panic != nil:
		return "panic"
	case l.Err != nil:
		if anyOf != 0 && anyOf.Count() > 1 && l.Cats&anyOf != 0 {
			return "error:one-of(" + anyOf.String() + ")"
		}
		return "error:" + l.Cats.String()
	case l.MErr != nil:
		return "non-json:" + l.MErr.Error()
	}
	return canonV(l.M, loose)
}

func canonV(v ref.V, loose bool) string {
	switch x := v.(type) {
	case ref.Num:
		return "#" + x.R.RatString()
	case *ref.Arr:
		parts := make([]string, len(x.E))
		for i, e := range x.E {
			parts[i] = canonV(e, loose)
		}
		if loose {
			sort.Strings(parts)
		}
		return "[" + strings.Join(parts, ",") + "]"
	case *ref.Obj:
		ks := append([]string{}, x.Keys...)
		sort.Strings(ks)
		parts := make([]string, len(ks))
		for i, k := range ks {
			parts[i] = fmt.Sprintf("%q:%s", k, canonV(x.M[k], loose))
		}
		return "{" + strings.Join(parts, ",") + "}"
	}
	return ref.Show(v)
}

var c15Forms = []string{
	"let $x = `1` in let $a = `2`, $b = $a in $b", "let $a = 'outer' in [let $x = 'mid' in let $a = 'inner', $b = $a in $b]", "let $x = a in let $p = b, $q = $p, $r = $q in [$x, $r]", "let $x = a in let $y = b in let $p = c, $q = [$p, $y] in $q",
	"{x: let $a = a in $a, y: let $b = b in $a}", "let $a = 'outer' in {x: let $a = 'inner' in $a, y: let $b = b in [$a, $b]}", "[let $a = a in $a, let $b = b in [$b]]",
	"let $p = (let $a = a in $a), $q = (let $b = b in [$b, $b]) in [$p, $q]", "{x: let $a = a in [$a], y: let $b = b in {z: $b}, z: let $c = c in $c}", "let $a = a in {x: let $b = b in [$a, $b], y: let $c = c in [$a, $c], z: $a}",
	"{p: let $a = a, $b = b in [$a, $b], q: let $a = c in $a, r: let $d = d in $d}", "rs[*].{x: let $i = id in $i, y: let $k = k in [$k], z: let $n = n in $n}", "[*].length(merge(`{}`, @))", "rs[*].merge(`{\"tag\":\"t\"}`, @).id", "merge(`{\"kind\":\"default\"}`, o1) | length(@)", "merge(`{\"enabled\": false}`, @) | keys(@) | sort(@)", "merge(`{}`, o1, o2) | length(@)", "merge({a: `1`}, o2) | keys(@) | sort(@)", "rs[*].merge(`{\"z\": 0}`, @) | [*].length(@)", "from_items(`[[\"a\", 1]]`) | merge(@, o1) | length(@)",
	"{a: a, b: b, a: c}", "{b: a, a: b, b: c}.b", "let $x = a, $y = b, $x = c in [$x, $y]", "let $a = a, $b = b, $c = c, $d = d, $e = e in [$a, $b, $c, $d, $e]",
	// wide lets (more bindings than a small inline table holds) and, around them, narrow lets that
	// look up names they do not bind: anything left behind by the wide ones shows here
	"let $a = a, $b = b, $c = c, $d = d, $e = e, $f = a, $g = b, $h = c in [$a, $b, $c, $d, $e, $f, $g, $h]",
	"let $a = 'A', $b = 'B', $c = 'C', $d = 'D', $e = 'E', $f = 'F', $g = 'G', $h = 'H', $i = 'I', $j = 'J' in [$j, $a]",
	"rs[*].[let $a = id, $b = k, $c = n, $d = id, $e = k, $f = n in [$a, $f]]",
	"let $q = `0` in $a", "let $q = `0` in [$q, $h]", "let $z = a in {x: $z, y: $e}", "let $a = `7` in let $q = `0` in [$a, $q]", "let $q = `0`, $r = `1` in $j",
	"let $a = `7`, $b = `7`, $c = `7`, $d = `7`, $e = `7`, $f = `7` in let $q = `0` in [$a, $b, $c, $d, $e, $f]", "[let $q = a in $q, let $r = b in $f]",
	// lets inside the binding expressions of a let with several bindings (bindings are evaluated in map order)
	"let $a = 'a0', $b = 'b0', $c = 'c0' in let $a = (let $t = 't' in 'a1'), $b = (let $t = 't' in 'b1') in [$a, $b, $c]",
	"let $a = (let $t = a in $t), $b = (let $u = b in $u), $c = (let $v = c in $v) in [$a, $b, $c]",
	"let $a = (let $t = a in [$t]), $b = (let $t = b in [$t]) in {x: $a, y: $b}",
	"let $p = 'p' in let $a = (let $t = $p in [$t, 'a']), $b = (let $t = $p in [$t, 'b']), $c = $p in [$a, $b, $c]",
	"let $a = rs[*].[let $i = id in $i], $b = rs[*].[let $k = k in $k] in [$a, $b]",
	"let $a = (let $x = a, $y = b in [$x, $y]), $b = (let $x = c, $y = d in [$x, $y]) in [$a, $b]",
	"let $a = a, $b = (let $a = b in $a), $c = (let $a = c in $a) in [$a, $b, $c]",
	"{x: let $a = (let $t = a in $t), $b = b in [$a, $b], y: let $a = a, $b = (let $t = b in $t) in [$a, $b]}",
	// an empty object of the document (or of a let, or of a literal) reaches merge without a copy while
	// a sibling member reads the same object: the outcome must not depend on which member is evaluated first
	"{merged: merge(eo && {x: 'y'}, o1), n: length(eo)}", "{n: length(eo), merged: merge(eo || {x: 'y'}, o1), k: keys(eo)}", "{a: merge(eo, o1), b: merge(eo, o2), c: eo}", "{m: merge(not_null(eo), o1), e: eo, l: length(eo)}",
	"let $e = from_items(`[]`) in {merged: merge($e && {x: 'y'}, o1), n: length($e)}", "let $e = eo in {merged: merge($e, {x: 'y'}), n: length($e), again: merge($e, {z: `1`})}", "{m: merge(`{}` && {x: 'y'}, o1), n: length(`{}`)}",
	"{m1: merge(o1 && eo, {p: `1`}), m2: merge(o2 && eo, {q: `2`}), e: eo}", "[merge(eo, {a: `1`}), eo, merge(eo, {b: `2`}), eo]", "{x: merge([eo][0], o1), y: [eo][0], z: length([eo][0])}", "{g: group_by(rs, &k), m: merge(group_by(rs, &k), {zz: `1`}), n: length(group_by(rs, &k))}",
	"merge(@, {a: `1`}, {a: `2`})", "merge({a: `1`, b: `1`}, {b: `2`, c: `2`}, {c: `3`, a: `3`})", "merge(a, b, c)", "merge(o1, o2, o1)", "merge(o2, o1)",
	"group_by(rs, &k)", "group_by(rs, &k).*", "group_by(rs, &k) | keys(@) | sort(@)", "group_by(rs, &to_string(n))", "from_items(ps)", "from_items(items(o1))", "from_items(`[[\"a\",1],[\"b\",2],[\"a\",3]]`)", "from_items(zip(keys(o1), values(o1)))",
	"sort(keys(o1))", "sort(values(o2))", "length(keys(@))", "sort_by(items(o1), &[0])", "sort_by(rs, &k)[*].id", "sort_by(rs, &n)[*].id", "max_by(rs, &n).id", "min_by(rs, &n).id", "rs[*].[id, k]", "rs[?k == 'x'].id",
	"*", "*.a", "o1.*", "keys(o1)", "values(o1)", "items(o1)", "o1.* | sort(@)", "sum(o2.*)", "length(*)", "max(o2.*)", "avg(values(o2))", "contains(keys(o1), 'a')", "* | length(@)", "[*] | [0] | length(@)", "*[0]", "o1.*[?@ > `1`]", "map(&[0], items(o2)) | sort(@)",
	"to_string(o1)", "to_string(@)", "to_string(rs)", "to_string([a, b])", "to_string(o2) | length(@)", "{x: a, y: b} | to_string(@)", "to_string(merge(o1, o2))",
	"{x: $v, y: abs('a')}", "[a, b, c, d, e][?@]", "{p: a, q: b, r: c} | keys(@) | sort(@)", "[o1, o2] | [*].a", "o1 == o2", "o1 == o1", "[o1] == [o1]", "contains([o1, o2], o1)", "not_null(missing, o1.zz, o2.a)",
	"let $v = {a: a, b: b} in $v.a", "let $m = merge(o1, o2) in sort(keys($m))", "sort(rs[*].k)", "rs[*].k | sort(@) | join(',', @)", "join(',', sort(keys(o2)))", "type(@)", "length(@)", "@.a", "a || b || c", "ps[*][0]", "zip(ps[*][0], ps[*][1])", "reverse(rs)[*].id", "rs[::-1][*].id", "rs[1:][*].n",
}

func c15Doc(r *gen.R) *ref.Obj {
	o := ref.NewObj()
	for _, k := range []string{"a", "b", "c", "d", "e"} {
		o.Set(k, gen.Scalar(r))
	}
	mkObj := func(n int) *ref.Obj {
		x := ref.NewObj()
		for i := 0; i < n; i++ {
			x.Set(gen.Pick(r, []string{"a", "b", "c", "d", "e", "f", "g", "h", "i", "j", "k1", "k2", "k3", "k4", "zz", "é"})+fmt.Sprint(r.Intn(1+n/8)), gen.IntV(int64(r.Intn(9))))
		}
		return x
	}
	o.Set("o1", mkObj(1+r.Intn(8)))
	o.Set("o2", mkObj(1+r.Intn(40)))
	rs := &ref.Arr{}
	ps := &ref.Arr{}
	for i := 0; i < 1+r.Intn(10); i++ {
		x := ref.NewObj()
		x.Set("id", fmt.Sprint("r", i))
		x.Set("k", gen.Pick(r, []string{"x", "y", "z"}))
		x.Set("n", gen.IntV(int64(r.Intn(4))))
		rs.E = append(rs.E, x)
		ps.E = append(ps.E, &ref.Arr{E: []ref.V{gen.Pick(r, []string{"p", "q", "r", "s"}), gen.IntV(int64(i))}})
	}
	o.Set("rs", rs)
	o.Set("ps", ps)
	o.Set("eo", ref.NewObj())
	return o
}

func c15Reps(c *Ctx) int { return tierN(c, 20, 100) }

// c15Case returns the expression and document of case id (shared by all processes).
func c15Case(c *Ctx, id int) (string, ref.V) {
	r := gen.New(c.Seed, "C15/case", id)
	doc := c15Doc(r)
	var text string
	if id%3 != 2 {
		text = c15Forms[(id/3*2+id%3)%len(c15Forms)]
	} else {
		g := &gen.ExprGen{R: r, Root: doc, Funcs: 60, Lets: true, Arith: true}
		text = ref.Print(g.Expr(doc, 3))
		if strings.Contains(text, "pad_") {
			text = gen.Pick(r, c15Forms)
		}
	}
	return text, doc
}

func c15Cases(c *Ctx) int { return tierN(c, 3000, 50000) }

// every process runs every case: idx = id*NBatch + batch
// c15Foreign: documents that are not JSON-shaped (maps with non-string keys whose printed forms
// collide, typed maps, structs): whatever the library makes of them, it must make the same of
// them every time.
func c15Foreign(c *Ctx, id int) {
	r := c.Rand(fmt.Sprint("f", c.Batch))
	type pt struct{ X, Y int }
	mk := func() any {
		m := map[any]any{}
		ks := []any{"name", 1, "1", 1.0, true, "true", int64(1), "k", 2, "2", pt{1, 2}, "{1 2}"}
		gen.Shuffle(r, ks)
		for _, k := range ks {
			m[k] = fmt.Sprintf("%T:%v", k, k)
		}
		return []any{m, map[string]any{"inner": m, "typed": map[int]string{1: "a", 2: "b"}, "s": pt{3, 4}}}[id%2]
	}
	for _, text := range []string{"\"1\"", "\"true\"", "name", "{a: \"1\", b: \"2\"}", "let $x = \"1\" in $x", "inner.\"1\"", "keys(@) | length(@)", "length(@)", "type(@)", "to_string(@) | length(@)", "@ == @", "inner == inner", "merge(@, {z: `1`}).\"1\"", "values(@) | length(@)", "[\"1\", \"2\", name]", "typed", "s", "not_null(\"1\", inner.\"1\", 'none')"} {
		seen := map[string]int{}
		for k := 0; k < 40; k++ {
			var l LibOut
			if k%2 == 0 {
				l = c.LibSearch(text, mk())
			} else if e, lc := c.LibCompile(text); lc.Err == nil && lc.Panic == nil {
				l = c.LibExprSearch(e, text, mk())
			} else {
				l = lc
			}
			d := "panic"
			if l.Panic == nil {
				d = ShowOut(l)
				if l.Err == nil {
					d = gen.Describe(l.Res)
					if strings.Contains(d, "map[") {
						d = fmt.Sprint(len(d)) // maps print in iteration order: compare sizes only
					}
				}
			}
			seen[d]++
		}
		if len(seen) > 1 {
			var alts []string
			for d, n := range seen {
				alts = append(alts, fmt.Sprintf("%dx %s", n, clipS(d, 200)))
			}
			sort.Strings(alts)
			c.Report(Violation{Rule: "C15/varies-within-process", Expr: text, Data: "a document holding map[any]any with keys whose printed forms collide (1, \"1\", 1.0, true, \"true\"), typed maps and structs", Got: strings.Join(alts, "  |  "), Detail: "40 evaluations on freshly built equal documents"})
		}
	}
	c.Nontrivial("foreign", fmt.Sprint(id))
}

func c15Run(c *Ctx, idx int) {
	id := idx / c.NBatch
	if id%200 == 13 {
		c15Foreign(c, id)
		return
	}
	if id%200 == 57 {
		c15HostileKeys(c, id/200)
		return
	}
	text, doc := c15Case(c, id)
	m := ref.Search(text, doc)
	enum := Enumerates(text)
	if enum && m.Unspec {
		// the enumerated order may reach an order-sensitive consumer: not judged
		c.Count("skipped_order_dependent", 1)
		return
	}
	var anyOf ref.Cat
	if !m.Unspec {
		anyOf = m.Fault
	}
	r := c.Rand(fmt.Sprint("p", c.Batch))
	seen := map[string]int{}
	var first string
	var fps = map[string]bool{}
	reps := c15Reps(c)
	// a long-lived compiled expression, applied to a different document between the
	// repetitions: its outcome on (a rebuilt copy of) this document must not depend on that history
	eLong, lcLong := c.LibCompile(text)
	other := c15Doc(gen.New(c.Seed, "C15/other", id))
	for k := 0; k < reps; k++ {
		data := rebuild(r, doc)
		var l LibOut
		if k%4 == 3 && lcLong.Err == nil && lcLong.Panic == nil {
			c.LibExprSearch(eLong, text, rebuild(r, other))
			l = c.LibExprSearch(eLong, text, data)
		} else if k%2 == 0 {
			l = c.LibSearch(text, data)
		} else {
			e, lc := c.LibCompile(text)
			if lc.Err != nil || lc.Panic != nil {
				l = lc
			} else {
				fp, _ := jmespath.VerifASTFingerprint(e)
				fps[fp] = true
				l = c.LibExprSearch(e, text, data)
			}
		}
		d := canon(l, enum, anyOf)
		if k == 0 {
			first = d
		}
		seen[d]++
	}
	if len(seen) > 1 {
		var alts []string
		for d, n := range seen {
			alts = append(alts, fmt.Sprintf("%dx %s", n, clipS(d, 300)))
		}
		sort.Strings(alts)
		c.Report(Violation{Rule: "C15/varies-within-process", Expr: text, Data: ref.ToJSONText(doc), Got: strings.Join(alts, "  |  "), Detail: fmt.Sprintf("%d repetitions with independently rebuilt maps and fresh compilations gave %d different outcomes", reps, len(seen))})
	}
	if len(fps) > 1 {
		c.Report(Violation{Rule: "C15/ast-varies", Expr: text, Detail: fmt.Sprintf("%d different AST fingerprints for the same text within one process", len(fps))})
	}
	fp := ""
	for k := range fps {
		fp = k
	}
	sum := sha256.Sum256([]byte(first))
	c.emit(map[string]any{"kind": "digest", "case": id, "batch": c.Batch, "digest": hex.EncodeToString(sum[:8]), "fp": fp, "expr": text, "outcome": clipS(first, 200)})
	if first != "null" && first != "[]" {
		c.Nontrivial(text, ref.ToJSONText(doc))
		if id%40 == 0 && c.Batch == 0 {
			c.Sample(map[string]any{"expr": text, "doc": clipS(ref.ToJSONText(doc), 300), "outcome": clipS(first, 200), "class": map[bool]string{true: "enumerating (multiset comparison)", false: "order-free (strict comparison)"}[enum]})
		}
	}
	// how many distinct member orders were actually seen for a probe object
	if id%50 == 0 {
		orders := map[string]bool{}
		for k := 0; k < 30; k++ {
			data := rebuild(r, doc).(map[string]any)
			l := c.LibSearch("keys(o2)", data)
			orders[ShowOut(l)] = true
		}
		c.Count("probe_distinct_member_orders_seen", int64(len(orders)))
		c.Count("probes", 1)
	}
}

// offline checker: the same case must give the same digest in every process
func c15Offline(outDir string) ([]Violation, map[string]int64) {
	files, _ := filepath.Glob(filepath.Join(outDir, "events.*.jsonl"))
	type rec struct {
		Kind    string `json:"kind"`
		Case    int    `json:"case"`
		Batch   int    `json:"batch"`
		Digest  string `json:"digest"`
		FP      string `json:"fp"`
		Expr    string `json:"expr"`
		Outcome string `json:"outcome"`
	}
	byCase := map[int][]rec{}
	for _, f := range files {
		fh, err := os.Open(f)
		if err != nil {
			continue
		}
		sc := bufio.NewScanner(fh)
		sc.Buffer(make([]byte, 1<<20), 64<<20)
		for sc.Scan() {
			if !strings.Contains(sc.Text(), `"kind":"digest"`) {
				continue
			}
			var r rec
			if json.Unmarshal(sc.Bytes(), &r) == nil {
				byCase[r.Case] = append(byCase[r.Case], r)
			}
		}
		fh.Close()
	}
	var out []Violation
	procs := map[int]bool{}
	compared := int64(0)
	for id, rs := range byCase {
		for _, r := range rs {
			procs[r.Batch] = true
		}
		if len(rs) < 2 {
			continue
		}
		compared++
		for _, r := range rs[1:] {
			if r.Digest != rs[0].Digest {
				out = append(out, Violation{Rule: "C15/varies-across-processes", Expr: rs[0].Expr, Got: fmt.Sprintf("process %d: %s", r.Batch, r.Outcome), Want: fmt.Sprintf("process %d: %s", rs[0].Batch, rs[0].Outcome), Detail: fmt.Sprintf("case %d", id)})
				break
			}
			if r.FP != rs[0].FP && r.FP != "" && rs[0].FP != "" {
				out = append(out, Violation{Rule: "C15/ast-varies-across-processes", Expr: rs[0].Expr, Detail: fmt.Sprintf("case %d: AST fingerprints differ between processes %d and %d", id, rs[0].Batch, r.Batch)})
				break
			}
		}
	}
	if len(out) > 40 {
		out = out[:40]
	}
	return out, map[string]int64{"cases_compared_across_processes": compared, "processes": int64(len(procs))}
}

func init() {
	Register(&Property{
		ID:            "C15",
		Rule:          "the same (expression, document) evaluated R times per process (R = 20 quick / 100 thorough) with the document rebuilt each time as fresh maps (shuffled insertion order, varying capacity hints, insert/delete churn) and alternately through Search and a fresh Compile + Expression.Search, in every one of K fresh processes (K = 4 quick / 16 thorough), outcomes compared within each process online and across processes offline over the merged event logs, AST fingerprints (hook) compared too; 75 forms aimed at every place a Go map is ranged (multi-select hashes and lets with many/duplicate names, merge with overlapping keys, group_by, from_items duplicates, object projections, keys/values/items, to_string of objects, equality of objects) plus seeded random expressions; order-free expressions are compared strictly (array order and to_string text included), enumerating ones as multisets and only when the model confirms that no order-sensitive consumer is reached, multi-fault expressions by membership in the fault set; non-trivial = non-null, non-empty outcome; twin-texts stream: for unique texts E of 8..20000 bytes and 46 twins T (one code point that Unicode calls white space or that is invisible before / after E; white space, case or normalisation form changed inside E's literal; legal white space added or removed), the outcome of T before E was evaluated, after it, and through a fresh Compile must agree; hostile-keys cases: objects with keys that are ill-formed UTF-8 and collide after U+FFFD replacement, 10 to_string forms, 40 calls each; static-error-texts stream: ~20000 misspelled builtin calls, 8 compilations / searches each, the error text must not vary; 11 forms hand an empty object (of the document, of a let, of a literal) to merge through &&, ||, not_null, lets and multi-selects next to sibling members that read the same object",
		MinNontrivial: 500,
		Streams: []Stream{
			{Name: "repeat", N: func(c *Ctx) int { return c15Cases(c) * c.NBatch }, Run: c15Run},
			{Name: "twin-texts", N: func(c *Ctx) int { return twinN() }, Run: twinRun, Exhaustive: true},
			{Name: "static-error-texts", N: misspelledN, Run: c15Misspelled, Exhaustive: true},
		},
	})
	batchOverride["C15"] = func(tier, mode string) int {
		if tier == "thorough" {
			return 16
		}
		return 4
	}
	offline["C15"] = c15Offline
}

// c15HostileKeys: objects whose keys are not well-formed UTF-8 (a Go map can hold them; JSON text
// cannot), several of which become the same text once each bad byte is replaced by U+FFFD.  Whatever
// an implementation does with such keys - and to_string's text for them is not pinned - it must do
// the same thing on every call: an order decided by comparing the *replaced* keys is a tie that map
// iteration breaks differently from call to call.
func c15HostileKeys(c *Ctx, id int) {
	r := c.Rand(fmt.Sprint("hk", c.Batch))
	groups := [][]string{{"\xff", "\xfe"}, {"id\x80", "id\xc3"}, {"a\xffb", "a\xfeb", "a\x80b"}, {"\xc3\x28", "\xa0\x28"}, {"\xe2\x82", "\xe2\x83", "\xf0\x9f"}, {"k\xed\xa0\x80", "k\xed\xa0\x81"}, {"\xff", "\xfe", "�", "é"}}
	g := groups[id%len(groups)]
	mk := func() any {
		m := map[string]any{}
		ks := append([]string{}, g...)
		ks = append(ks, "plain")
		gen.Shuffle(r, ks)
		for i, k := range ks {
			m[k] = json.Number(fmt.Sprint(len(k)*10 + i%1))
		}
		recs := []any{}
		for _, k := range g {
			recs = append(recs, map[string]any{"k": k, "v": k + "!"})
		}
		return map[string]any{"o": m, "recs": recs, "list": []any{m, m}}
	}
	for _, text := range []string{"to_string(o)", "to_string(@) | length(@)", "to_string(group_by(recs, &k))", "to_string(list)", "to_string(from_items(recs[*].[k, v]))", "to_string(merge(o, {z: `1`}))", "to_string(o) == to_string(o)", "[to_string(o), to_string(o)] | @[0] == @[1]", "to_string(items(o) | sort_by(@, &to_string(@[1])))", "to_string({a: o})"} {
		seen := map[string]int{}
		for k := 0; k < 40; k++ {
			var l LibOut
			if k%2 == 0 {
				l = c.LibSearch(text, mk())
			} else if e, lc := c.LibCompile(text); lc.Err == nil && lc.Panic == nil {
				l = c.LibExprSearch(e, text, mk())
			} else {
				l = lc
			}
			d := "panic"
			if l.Panic == nil {
				d = ShowOut(l)
				if l.Err == nil {
					d = fmt.Sprintf("%q", fmt.Sprint(l.Res))
				}
			}
			seen[d]++
		}
		if len(seen) > 1 {
			var alts []string
			for d, n := range seen {
				alts = append(alts, fmt.Sprintf("%dx %s", n, clipS(d, 200)))
			}
			sort.Strings(alts)
			c.Report(Violation{Rule: "C15/varies-within-process", Expr: text, Data: fmt.Sprintf("an object with the keys %q and \"plain\"", g), Got: strings.Join(alts, "  |  "), Want: "one outcome on 40 calls over equal documents", Features: map[string]string{"stream": "hostile-keys"}})
		}
	}
	c.Nontrivial("hostile-keys", fmt.Sprint(id))
}
