package mon

import (
	"fmt"
	"sort"
	"strings"

	"github.com/woodsbury/decimal128"

	"verif/harness/gen"
	"verif/harness/ref"
)

var c13Lengths = []int{0, 1, 2, 3, 11, 12, 13, 14, 20, 50, 200, 1000, 5000}

var c13NumSpellings = map[string][]string{
	"1":   {"1", "1.0", "1e0", "10e-1", "0.1e1", "1.000"},
	"2":   {"2", "2.0", "20e-1", "2E0"},
	"0":   {"0", "0.0", "-0", "0e5"},
	"-1":  {"-1", "-1.0", "-10e-1"},
	"100": {"100", "1e2", "1.0E+2", "100.0"},
}

var c13StrKeys = []string{"", "a", "b", "ab", "ab\x00", "a\x00", "a\x00\x00", "\x00", "ab\x01", "abcdefgh", "abcdefgh\x00", "abcdefghi", "abcdefg", "é", "z", "～", "\U0001f600", "", "\U00010000", "A", "日本"}

// near-ties at the 34th digit
var c13NearTies = []string{"1.000000000000000000000000000000001", "1.000000000000000000000000000000002", "1", "0.9999999999999999999999999999999999"}

type c13Rec struct {
	id  int
	key ref.V // Num or string
}

func c13Keys(r *gen.R, n int, strKeys bool) []ref.V {
	distinct := 1 + r.Intn(max(1, n/4))
	if r.Chance(30) {
		distinct = 1 + r.Intn(3)
	}
	pool := make([]ref.V, distinct)
	for i := range pool {
		if strKeys {
			if r.Chance(60) {
				pool[i] = gen.Pick(r, c13StrKeys)
			} else {
				pool[i] = fmt.Sprintf("s%03d", r.Intn(50))
			}
		} else {
			switch r.Intn(5) {
			case 4:
				// neighbouring integers where binary floats are coarser than the integers (a
				// comparison through float64 / float32 calls them equal)
				base := gen.Pick(r, []int64{1 << 53, 1 << 62, 1<<63 - 9, -(1 << 63) + 9, 1 << 24, -(1 << 53), 3 << 52})
				pool[i] = gen.IntV(base + int64(r.Intn(9)) - 4)
			case 0:
				base := gen.Pick(r, []string{"1", "2", "0", "-1", "100"})
				pool[i] = gen.Num(gen.Pick(r, c13NumSpellings[base]))
			case 1:
				pool[i] = gen.Num(gen.Pick(r, c13NearTies))
			default:
				pool[i] = gen.IntV(int64(r.Intn(40) - 10))
			}
		}
	}
	out := make([]ref.V, n)
	for i := range out {
		k := pool[r.Intn(distinct)]
		// a number may be respelled at each occurrence
		if num, ok := k.(ref.Num); ok && r.Chance(50) {
			for base, sp := range c13NumSpellings {
				if gen.Num(base).R.Cmp(num.R) == 0 {
					k = gen.Num(gen.Pick(r, sp))
				}
			}
		}
		out[i] = k
	}
	return out
}

func cmpKeys(a, b ref.V) int {
	if x, ok := a.(ref.Num); ok {
		return x.R.Cmp(b.(ref.Num).R)
	}
	return ref.CmpCodePoints(a.(string), b.(string))
}

func c13Run(c *Ctx, idx int) {
	r := c.Rand("")
	n := c13Lengths[idx%len(c13Lengths)]
	if c.Tier != "thorough" && n == 5000 && idx%5 != 0 {
		n = 100
	}
	strKeys := r.Chance(45)
	keys := c13Keys(r, n, strKeys)
	// structured orders that sort routines special-case: runs, reversed runs with
	// ties, all equal, organ pipe, sawtooth (lengths 32, 40, 64, 100 included)
	shape := "random"
	if idx%3 == 1 && n >= 2 {
		if idx%6 == 1 {
			n = []int{2, 13, 31, 32, 33, 40, 64, 100, 257}[(idx/6)%9]
			keys = c13Keys(r, n, strKeys)
		}
		sorted := append([]ref.V{}, keys...)
		sort.SliceStable(sorted, func(i, j int) bool { return cmpKeys(sorted[i], sorted[j]) < 0 })
		switch (idx / 3) % 5 {
		case 0:
			shape = "non-decreasing"
			keys = sorted
		case 1:
			shape = "non-increasing"
			for i, j := 0, len(sorted)-1; i < j; i, j = i+1, j-1 {
				sorted[i], sorted[j] = sorted[j], sorted[i]
			}
			keys = sorted
		case 2:
			shape = "organ-pipe"
			out := make([]ref.V, 0, n)
			for i := 0; i < len(sorted); i += 2 {
				out = append(out, sorted[i])
			}
			lastOdd := len(sorted) - 1
			if lastOdd%2 == 0 {
				lastOdd--
			}
			for i := lastOdd; i >= 1; i -= 2 {
				out = append(out, sorted[i])
			}
			keys = out
		case 3:
			shape = "sawtooth"
			out := make([]ref.V, 0, n)
			for k := 0; k < 4; k++ {
				for i := k; i < len(sorted); i += 4 {
					out = append(out, sorted[i])
				}
			}
			keys = out
		case 4:
			shape = "two-runs"
			h := len(sorted) / 2
			keys = append(append([]ref.V{}, sorted[h:]...), sorted[:h]...)
		}
	}
	n = len(keys)
	recs := &ref.Arr{E: make([]ref.V, n)}
	plain := &ref.Arr{E: make([]ref.V, n)}
	var hiKey ref.V
	for _, k := range keys {
		if hiKey == nil || cmpKeys(k, hiKey) > 0 {
			hiKey = k
		}
	}
	for i, k := range keys {
		o := ref.NewObj()
		o.Set("id", gen.IntV(int64(i)))
		o.Set("k", k)
		o.Set("n", &ref.Arr{E: []ref.V{k}})
		// a small inner array whose least key is k (hi = the largest key overall):
		// key expressions that sort / select inside the key expression re-enter
		// the sorting routines while the outer call holds its keys
		mo1, mo2 := ref.NewObj(), ref.NewObj()
		mo1.Set("v", hiKey)
		mo2.Set("v", k)
		o.Set("m", &ref.Arr{E: []ref.V{mo1, mo2}})
		if n >= 64 && n <= 257 {
			// a long inner array (size classes of 64 and more on both levels at once)
			mm := &ref.Arr{E: make([]ref.V, 70)}
			for j := range mm.E {
				q := ref.NewObj()
				if j == (i*7)%70 {
					q.Set("v", k)
				} else {
					q.Set("v", hiKey)
				}
				mm.E[j] = q
			}
			o.Set("mm", mm)
		}
		recs.E[i] = o
		plain.E[i] = k
	}
	doc := ref.NewObj()
	doc.Set("rs", recs)
	doc.Set("xs", plain)
	// the Go type carrying numeric keys varies too (a sort fast path per type)
	mode := ref.NumMode(ref.JSONNumber)
	kind := "json.Number"
	switch idx % 5 {
	case 1:
		kind = "float64"
		mode = func(x ref.Num) any {
			if f, exact := x.R.Float64(); exact {
				return f
			}
			return ref.JSONNumber(x)
		}
	case 2:
		kind = "int"
		mode = func(x ref.Num) any {
			if x.R.IsInt() && x.R.Num().IsInt64() {
				return int(x.R.Num().Int64())
			}
			return ref.JSONNumber(x)
		}
	case 3:
		kind = "decimal128"
		mode = func(x ref.Num) any {
			if ref.ExactDec(x) {
				if d, err := decimal128.Parse(ref.NumText(x)); err == nil {
					return d
				}
			}
			return ref.JSONNumber(x)
		}
	}
	goDoc := ref.ToGo(doc, mode)
	before := gen.Describe(goDoc)
	feats := map[string]string{"n": fmt.Sprint(n), "keys": map[bool]string{true: "strings", false: "numbers"}[strKeys], "shape": shape, "number_kind": kind}
	dup := 0
	seen := map[string]bool{}
	for _, k := range keys {
		s := ref.Show(k)
		if n2, ok := k.(ref.Num); ok {
			s = n2.R.String()
		}
		if seen[s] {
			dup++
		}
		seen[s] = true
	}

	getRecs := func(text string) ([]c13Rec, bool) {
		l := c.LibSearch(text, goDoc)
		if l.Panic != nil || l.Err != nil || l.MErr != nil {
			c.Report(Violation{Rule: "C13/unexpected-failure", Expr: text, Data: clipS(before, 600), Got: ShowOut(l), Features: feats})
			return nil, false
		}
		arr, ok := l.M.(*ref.Arr)
		if !ok {
			c.Report(Violation{Rule: "C13/not-an-array", Expr: text, Data: clipS(before, 600), Got: ShowOut(l), Features: feats})
			return nil, false
		}
		out := make([]c13Rec, len(arr.E))
		for i, e := range arr.E {
			o, ok := e.(*ref.Obj)
			if !ok {
				c.Report(Violation{Rule: "C13/not-a-permutation", Expr: text, Data: clipS(before, 600), Got: clipS(ShowOut(l), 600), Detail: "element is not one of the input records", Features: feats})
				return nil, false
			}
			idn, _ := o.M["id"].(ref.Num)
			out[i] = c13Rec{id: int(idn.R.Num().Int64()), key: o.M["k"]}
		}
		return out, true
	}

	// sort_by with a plain key and with a computed key
	sortTexts := []string{"sort_by(rs, &k)", "sort_by(rs, &n[0])", "let $z = `0` in sort_by(rs, &not_null(n[1], k, $z))"}
	if n <= 1000 {
		sortTexts = append(sortTexts, "sort_by(rs, &sort_by(m, &v)[0].v)", "sort_by(rs, &min_by(m, &v).v)", "sort_by(rs, &sort(m[*].v)[0])", "sort_by(rs, &min(n))", "sort_by(rs, &sort_by([@, @], &k)[1].k)", "sort_by(rs, &map(&v, m)[1])")
	}
	if n >= 64 && n <= 257 {
		sortTexts = append(sortTexts, "sort_by(rs, &sort_by(mm, &v)[0].v)", "sort_by(rs, &min_by(mm, &v).v)", "sort_by(rs, &sort(mm[*].v)[0])")
	}
	for _, text := range sortTexts {
		out, ok := getRecs(text)
		if !ok {
			continue
		}
		c.Nontrivial(text, before)
		if len(out) != n {
			c.Report(Violation{Rule: "C13/not-a-permutation", Expr: text, Data: clipS(before, 600), Got: fmt.Sprintf("%d elements", len(out)), Want: fmt.Sprintf("%d elements", n), Features: feats})
			continue
		}
		used := make([]bool, n)
		perm := true
		for _, x := range out {
			if x.id < 0 || x.id >= n || used[x.id] {
				perm = false
				break
			}
			used[x.id] = true
			if e, ok2 := ref.Equal(x.key, keys[x.id]); !ok2 || !e {
				perm = false
			}
		}
		if !perm {
			c.Report(Violation{Rule: "C13/not-a-permutation", Expr: text, Data: clipS(before, 600), Got: idsOf(out), Features: feats})
			continue
		}
		for i := 1; i < len(out); i++ {
			cmp := cmpKeys(out[i-1].key, out[i].key)
			if cmp > 0 {
				c.Report(Violation{Rule: "C13/not-ordered", Expr: text, Data: clipS(before, 600), Got: fmt.Sprintf("position %d: key %s before key %s; ids %s", i, ref.Show(out[i-1].key), ref.Show(out[i].key), idsOf(out)), Features: feats})
				break
			}
			if cmp == 0 && out[i-1].id > out[i].id {
				c.Report(Violation{Rule: "C13/unstable", Expr: text, Data: clipS(before, 600), Got: fmt.Sprintf("equal keys %s: element %d placed before element %d; ids %s", ref.Show(out[i].key), out[i-1].id, out[i].id, idsOf(out)), Features: feats})
				break
			}
		}
	}
	if dup > 0 && n > 12 {
		c.Count("arrays_with_duplicates_longer_than_12", 1)
	}

	// sort on the plain keys
	if n > 0 {
		text := "sort(xs)"
		l := c.LibSearch(text, goDoc)
		if arr, ok := l.M.(*ref.Arr); ok && l.Err == nil && l.Panic == nil && l.MErr == nil {
			want := append([]ref.V{}, keys...)
			sort.SliceStable(want, func(i, j int) bool { return cmpKeys(want[i], want[j]) < 0 })
			good := len(arr.E) == n
			for i := 0; good && i < n; i++ {
				if e, ok2 := ref.Equal(arr.E[i], want[i]); !ok2 || !e {
					good = false
				}
			}
			if !good {
				c.Report(Violation{Rule: "C13/sort", Expr: text, Data: clipS(before, 600), Got: clipS(ShowOut(l), 600), Want: clipS(ref.Show(&ref.Arr{E: want}), 600), Features: feats})
			}
		} else {
			c.Report(Violation{Rule: "C13/unexpected-failure", Expr: text, Data: clipS(before, 600), Got: ShowOut(l), Features: feats})
		}
		// extremes
		lo, hi := keys[0], keys[0]
		for _, k := range keys {
			if cmpKeys(k, lo) < 0 {
				lo = k
			}
			if cmpKeys(k, hi) > 0 {
				hi = k
			}
		}
		for _, t := range []struct {
			text string
			want ref.V
			by   bool
		}{{"min(xs)", lo, false}, {"max(xs)", hi, false}, {"min_by(rs, &k)", lo, true}, {"max_by(rs, &k)", hi, true}, {"min_by(rs, &sort_by(m, &v)[0].v)", lo, true}, {"max_by(rs, &min_by(m, &v).v)", hi, true}, {"max_by(rs, &max_by([@, @], &k).k)", hi, true}} {
			l := c.LibSearch(t.text, goDoc)
			if l.Err != nil || l.Panic != nil || l.MErr != nil {
				c.Report(Violation{Rule: "C13/unexpected-failure", Expr: t.text, Data: clipS(before, 600), Got: ShowOut(l), Features: feats})
				continue
			}
			got := l.M
			if t.by {
				o, ok := got.(*ref.Obj)
				if !ok {
					c.Report(Violation{Rule: "C13/extreme", Expr: t.text, Data: clipS(before, 600), Got: ShowOut(l), Detail: "not an element of the input", Features: feats})
					continue
				}
				idn, _ := o.M["id"].(ref.Num)
				id := int(idn.R.Num().Int64())
				if id < 0 || id >= n {
					c.Report(Violation{Rule: "C13/extreme", Expr: t.text, Data: clipS(before, 600), Got: ShowOut(l), Detail: "not an element of the input", Features: feats})
					continue
				}
				got = keys[id]
			}
			if cmpKeysSafe(got, t.want) != 0 {
				c.Report(Violation{Rule: "C13/extreme", Expr: t.text, Data: clipS(before, 600), Got: ShowOut(l), Want: "an element with key " + ref.Show(t.want), Features: feats})
			}
			c.Nontrivial(t.text, before)
		}
	}
	// the same through expressions that may hand the caller's array (or part of
	// it) straight to the sort routine
	for _, text := range []string{"sort(xs[*])", "sort(xs[:])", "sort(xs[0:])", "sort(xs[?`true`])", "sort(to_array(xs))", "sort(not_null(xs))", "sort(xs || `[]`)", "sort((xs))", "sort(rs[*].k)", "sort_by(rs[*], &k)[*].id", "sort_by(rs[:], &k)[*].id", "sort_by(to_array(rs), &k)[*].id", "reverse(xs[*])", "reverse(xs[:])", "max_by(rs[*], &k).id", "min_by(rs[:], &k).id", "sort(xs[*]) == sort(xs)", "[xs][0] | sort(@)", "let $x = xs in sort($x)", "merge({k: xs}, {j: rs}).k | sort(@)"} {
		l := c.LibSearch(text, goDoc)
		if l.Panic != nil {
			c.Report(Violation{Rule: "C13/unexpected-failure", Expr: text, Data: clipS(before, 600), Got: ShowOut(l), Features: feats})
		}
		if after := gen.Describe(goDoc); after != before {
			c.Report(Violation{Rule: "C13/input-modified", Expr: text, Data: clipS(before, 600), Got: clipS(after, 600), Features: feats})
			before = after
		}
	}
	if after := gen.Describe(goDoc); after != before {
		c.Report(Violation{Rule: "C13/input-modified", Expr: "sort/sort_by/min/max(_by)", Data: clipS(before, 600), Got: clipS(after, 600), Features: feats})
	}
	if idx%13 == 4 {
		c.Sample(map[string]any{"n": n, "key_kind": feats["keys"], "duplicate_keys": dup, "first_keys": clipS(ref.Show(&ref.Arr{E: keys[:min(n, 8)]}), 200)})
	}
}

func cmpKeysSafe(a, b ref.V) int {
	_, an := a.(ref.Num)
	_, bn := b.(ref.Num)
	_, as := a.(string)
	_, bs := b.(string)
	if (an && bn) || (as && bs) {
		return cmpKeys(a, b)
	}
	return 2
}

func idsOf(rs []c13Rec) string {
	var b strings.Builder
	for i, x := range rs {
		if i > 60 {
			b.WriteString("…")
			break
		}
		fmt.Fprintf(&b, "%d ", x.id)
	}
	return b.String()
}

// invalid arrays: an offending element at each position (incl. single element)
func c13Invalid(c *Ctx, idx int) {
	r := c.Rand("")
	n := 1 + r.Intn(6)
	if idx%3 == 0 {
		n = 1
	}
	strKeys := r.Chance(50)
	keys := c13Keys(r, n, strKeys)
	pos := r.Intn(n)
	var bad ref.V
	switch r.Intn(6) {
	case 0:
		bad = nil
	case 1:
		bad = true
	case 2:
		bad = &ref.Arr{E: []ref.V{}}
	case 3:
		bad = ref.NewObj()
	default:
		if strKeys {
			bad = gen.IntV(3)
		} else {
			bad = "x"
		}
	}
	if n == 1 {
		if _, isN := bad.(ref.Num); isN {
			bad = false
		}
		if _, isS := bad.(string); isS {
			bad = nil
		}
	}
	keys[pos] = bad
	recs := &ref.Arr{}
	plain := &ref.Arr{}
	for i, k := range keys {
		o := ref.NewObj()
		o.Set("id", gen.IntV(int64(i)))
		o.Set("k", k)
		recs.E = append(recs.E, o)
		plain.E = append(plain.E, k)
	}
	doc := ref.NewObj()
	doc.Set("rs", recs)
	doc.Set("xs", plain)
	goDoc := ref.ToGo(doc, ref.JSONNumber)
	for _, text := range []string{"sort(xs)", "min(xs)", "max(xs)", "sort_by(rs, &k)", "min_by(rs, &k)", "max_by(rs, &k)"} {
		l := c.LibSearch(text, goDoc)
		c.Nontrivial(text, gen.Describe(goDoc))
		if l.Panic != nil || l.Err == nil || l.NCats != 1 || l.Cats != ref.CatType {
			c.Report(Violation{Rule: "C13/invalid-type-expected", Expr: text, Data: gen.Describe(goDoc), Got: ShowOut(l), Want: "invalid-type error", Features: map[string]string{"n": fmt.Sprint(n), "position": fmt.Sprint(pos)}})
		}
	}
}

func init() {
	Register(&Property{
		ID:            "C13",
		Rule:          "arrays of records {id: original index, k: key} of lengths {0,1,2,3,11,12,13,14,20,50,200,1000,5000} with heavy key duplication (1..n/4 distinct keys), numeric keys in several spellings of one value (1, 1.0, 1e0, 10e-1), 34th-digit near-ties, string keys across Unicode planes; sort_by (plain, nested and scoped computed keys), sort, min/max, min_by/max_by judged by a direct oracle reading the unique ids: permutation, non-decreasing by exact value / code point, equal keys in original order, extremes extremal and taken from the input, input untouched; arrays with an offending element at every position (incl. single-element arrays) must raise invalid-type; key sequences also in structured orders (non-decreasing, non-increasing with ties, organ pipe, sawtooth, two runs) at lengths 2..257, numeric keys carried as json.Number, float64, int or decimal128;  non-trivial = each (query, array) pair; arrays longer than 12 with duplicates counted separately; joins stream: sort_by / max_by / min_by / sort over a root-anchored array with keys that read a per-element let variable (one call site evaluated 2..257 times on the identical array with different bindings), compared with the model; untouched stream: every directed copy-free way of handing an array to sort / sort_by / min / max / reverse / group_by (shared with C06/C07), twice per expression on one document, against a snapshot and a pristine copy",
		MinNontrivial: 2000,
		Streams: []Stream{
			{Name: "sorted", N: func(c *Ctx) int { return tierN(c, 3000, 60000) }, Run: c13Run},
			{Name: "joins", N: func(c *Ctx) int { return joinN() }, Run: joinModel("C13", true), Exhaustive: true},
			{Name: "untouched", N: func(c *Ctx) int { return len(c07Directed()) }, Run: c13Untouched, Exhaustive: true},
			{Name: "invalid", N: func(c *Ctx) int { return tierN(c, 3000, 40000) }, Run: c13Invalid},
		},
	})
}

// c13Untouched: "the input array is left untouched" for every way an array can reach sort, sort_by,
// min/max(_by), reverse and group_by without a copy - the directed list shared with C06/C07 (fields,
// [*] / [:] / [] / filters that return their input, to_array, not_null, pipes, lets, literals, a
// slice of a string handing on an array of the document, ...).  Each expression runs twice on one
// document; the document must equal its snapshot after each call and both calls must agree with a
// call on a pristine copy.
func c13Untouched(c *Ctx, idx int) {
	text := c07Directed()[idx]
	if !strings.Contains(text, "sort") && !strings.Contains(text, "max") && !strings.Contains(text, "min") && !strings.Contains(text, "reverse") && !strings.Contains(text, "group_by") {
		return
	}
	d, _ := ref.FromJSON(c07DirectedDoc)
	r := c.Rand("")
	goDoc := toGoCanary(r, d)
	snap := deepSnap(goDoc)
	fresh := c.LibSearch(text, ref.ToGo(d, ref.JSONNumber))
	for call := 1; call <= 2; call++ {
		l := c.LibSearch(text, goDoc)
		if l.Panic != nil {
			return
		}
		if now := deepSnap(goDoc); now != snap {
			c.Report(Violation{Rule: "C13/input-modified", Expr: text, Data: clipS(c07DirectedDoc, 300), Got: "the document differs from its snapshot after call " + fmt.Sprint(call) + ": " + firstDiff(snap, now), Want: "the input left untouched"})
			snap = now
		}
		if !SameOutcome(l, fresh, Enumerates(text)) {
			c.Report(Violation{Rule: "C13/depends-on-earlier-call", Expr: text, Data: clipS(c07DirectedDoc, 300), Got: clipS(ShowOut(l), 300) + fmt.Sprintf(" (call %d on one document)", call), Want: clipS(ShowOut(fresh), 300) + " (pristine copy)"})
		}
	}
	c.Nontrivial(text)
}

// firstDiff shows where two snapshots part.
func firstDiff(a, b string) string {
	i := 0
	for i < len(a) && i < len(b) && a[i] == b[i] {
		i++
	}
	lo := i - 30
	if lo < 0 {
		lo = 0
	}
	return fmt.Sprintf("at offset %d: ...%s | was ...%s", i, clipS(b[lo:], 80), clipS(a[lo:], 80))
}
