package mon

import (
	"encoding/json"
	"errors"
	"fmt"
	"math"
	"runtime"
	"sort"
	"strings"
	"sync"

	"github.com/woodsbury/jmespath"

	"verif/harness/gen"
	"verif/harness/ref"
)

type c07Item struct {
	text  string
	doc   int
	canon string
	loose bool
	anyOf ref.Cat
	expr  *jmespath.Expression
	fp    string
	cold  bool
}

func c07Rounds(c *Ctx) int { return tierN(c, 16, 128) }

var c07Configs = []struct{ g, procs int }{{2, 2}, {8, 2}, {32, 2}, {2, 16}, {8, 16}, {32, 16}, {64, 16}, {16, 4}}

var c07DirectedDoc = c07BuildDirectedDoc()

const c07DirectedDocSmall = `{"label":"abc","nums":[5,3,9,1,7,2,8,4,6,0,15,13,19,11,17,12,18,14,16,10],"strs":["e","c","i","a","g","b","h","d","f","z","y","x","w"],"recs":[{"k":5,"s":"e"},{"k":3,"s":"c"},{"k":9,"s":"i"},{"k":1,"s":"a"},{"k":7,"s":"g"},{"k":2,"s":"b"},{"k":8,"s":"h"},{"k":4,"s":"d"},{"k":6,"s":"f"},{"k":0,"s":"z"},{"k":15,"s":"y"},{"k":13,"s":"x"},{"k":19,"s":"w"}],"nested":[[3,1,2],[9,7,8],[6,4,5]],"objs":{"a":{"p":1},"b":{"q":2}}}`

// c07Directed: every function that orders, reverses or merges, applied to every
// way of handing it an array of the shared document (or a literal of the shared
// Expression) without copying it: in-place work shows as a write-write race,
// as wrong results, and as a changed document / expression.
type c07Struct struct {
	Name string
	N    int
	Tags []string
}

type c07Other struct{ A, B float64 }

type c07Wide struct {
	A string
	B int
	C []int
	D map[string]string
}

func c07ForeignDoc() any {
	st := c07Struct{Name: "s", N: 3, Tags: []string{"x", "y"}}
	return map[string]any{
		"s": st, "p": &c07Struct{Name: "p"}, "o": c07Other{1, 2}, "strs": []string{"b", "a", "c"}, "ints": []int{3, 1, 2}, "m": map[string]string{"a": "1", "b": "2"},
		"arr": [3]int{1, 2, 3}, "recs": []any{map[string]any{"s": st, "tags": []string{"t"}}, map[string]any{"s": c07Other{3, 4}}}, "nested": map[string]any{"inner": map[string]int{"k": 1}},
	}
}

func c07BuildDirectedDoc() string {
	var big, bad, bigs, bignums strings.Builder
	for i := 0; i < 100; i++ {
		if i > 0 {
			big.WriteByte(',')
			bad.WriteByte(',')
			bigs.WriteByte(',')
			bignums.WriteByte(',')
		}
		k := (i*37 + 11) % 101
		fmt.Fprintf(&big, `{"id":%d,"k":%d,"s":"s%03d"}`, i, k, k)
		if i == 70 {
			fmt.Fprintf(&bad, `{"id":%d,"k":"x","s":7}`, i)
		} else {
			fmt.Fprintf(&bad, `{"id":%d,"k":%d,"s":"s%03d"}`, i, k, k)
		}
		fmt.Fprintf(&bigs, `"s%03d"`, k)
		fmt.Fprintf(&bignums, `%d`, k)
	}
	// arrays beyond the sizes at which implementations switch to pooled or pre-converted scratch buffers
	// (512, 1024): 700 and 1300 numbers, each also with one string late in the array; empty objects
	var huge, hugebad, mid, midbad strings.Builder
	for i := 0; i < 1300; i++ {
		if i > 0 {
			huge.WriteByte(',')
			hugebad.WriteByte(',')
		}
		k := (i*7919 + 13) % 100003
		fmt.Fprint(&huge, k)
		if i == 1100 {
			hugebad.WriteString(`"x"`)
		} else {
			fmt.Fprint(&hugebad, k)
		}
		if i < 700 {
			if i > 0 {
				mid.WriteByte(',')
				midbad.WriteByte(',')
			}
			fmt.Fprint(&mid, k)
			if i == 650 {
				midbad.WriteString(`"x"`)
			} else {
				fmt.Fprint(&midbad, k)
			}
		}
	}
	return strings.TrimSuffix(c07DirectedDocSmall, "}") + `,"big":[` + big.String() + `],"bigbad":[` + bad.String() + `],"bigstrs":[` + bigs.String() + `],"bignums":[` + bignums.String() + `],"huge":[` + huge.String() + `],"hugebad":[` + hugebad.String() + `],"mid":[` + mid.String() + `],"midbad":[` + midbad.String() + `],"eo":{},"eo2":{}}`
}

func c07Directed() []string {
	var out []string
	// large arrays, and the error paths on them (a key of the wrong type late in the array)
	for _, src := range []string{"big", "big[:33]", "big[:64]", "big[:32]", "big[*]"} {
		out = append(out, "sort_by("+src+", &k)[*].id", "sort_by("+src+", &s)[*].id", "max_by("+src+", &k).id", "min_by("+src+", &s).id", "group_by("+src+", &s) | length(@)", "map(&k, "+src+") | sort(@)", "reverse("+src+")[0].id")
	}
	out = append(out, "sort_by(bigbad, &k)", "sort_by(bigbad, &s)", "max_by(bigbad, &k)", "min_by(bigbad, &s)", "sort(bigstrs)", "sort(bignums)", "sort(bigbad[*].k)", "sort(bigbad[*].s)", "max(bigbad[*].k)", "join(',', bigbad[*].s)", "sort_by(bigbad[:60], &k)[*].id", "sort_by(bigbad[60:], &k)", "group_by(bigbad, &s)", "sum(bigbad[*].k)", "avg(bigbad[*].k)", "bigstrs[?@ > 's050'] | length(@)", "bignums[?@ > `50`] | length(@)")
	wraps := []string{"%s", "%s[*]", "%s[:]", "%s[0:]", "%s[]", "%s[?`true`]", "to_array(%s)", "not_null(%s)", "(%s)", "%s | @", "[%s][0]", "{a: %s}.a", "%s || `[]`", "let $x = %s in $x", "map(&@, %s)",
		// a slice of a string hands on whatever the next selector returns, e.g. an array of the document
		"label[:1].not_null($.%s)", "label[0:].to_array($.%s)", "label[:2].not_null(`null`, $.%s)", "label[::2].[$.%s][0]", "let $r = @ in label[:1].not_null($r.%s)"}
	for _, w := range wraps {
		nums := fmt.Sprintf(w, "nums")
		strs := fmt.Sprintf(w, "strs")
		recs := fmt.Sprintf(w, "recs")
		lit := strings.NewReplacer("$.`", "`", "$r.`", "`").Replace(fmt.Sprintf(w, "`[5,3,9,1,7,2,8,4,6,0,15,13,19,11,17,12,18,14,16,10]`"))
		out = append(out, "sort("+nums+")", "sort("+strs+")", "sort("+lit+")", "reverse("+nums+")", "reverse("+lit+")",
			"sort_by("+recs+", &k)[*].k", "sort_by("+recs+", &s)[*].s", "sort_by("+nums+", &@)", "max_by("+recs+", &k).k", "min_by("+recs+", &s).s",
			"group_by("+recs+", &s) | keys(@) | sort(@)", nums+" | sort(@)", nums+" | reverse(@)",
			recs+" | [*].k", nums+" | [*].[@]", recs+" | [?k > `3`].k", recs+" | [].k", nums+" | [*]", recs+" | [*].{k: k}", "("+nums+")[*]", nums+" | [::-1]", nums+" | [1:] | [*]", recs+" | map(&k, @)")
	}
	// integer arguments in every spelling and inexact decimal arithmetic: anything process-wide that
	// number handling touches (rounding modes, caches) is then written and read concurrently
	out = append(out, "find_first('abcabc', 'c', `1.0`)", "find_first('abcabc', 'c', `1e0`, `5.0`)", "find_last('abcabc', 'b', `0.0`, `50e-1`)", "split('a,b,c', ',', `1.0`)", "split('a,b,c', ',', `2e0`)", "replace('aaa', 'a', 'b', `2.0`)", "replace('aaa', 'a', 'b', `20e-1`)",
		"pad_left('ab', `4.0`, '.')", "pad_right('ab', `5e0`, '.')", "pad_left('ab', `0.4e1`)", "[pad_left('ab', `4.0`, '.'), `2` / `3`]", "`2` / `3`", "`1` / `7` * `3`", "`0.1` + `0.2`", "sum(nums) / `7`", "avg(nums) / `3`", "nums[*] | map(&(@ / `3`), @)", "`1e34` + `1`", "`9999999999999999999999999999999999` + `0.5`",
		"`10` // `3`", "`10` % `3`", "to_number('0.1') * `3`", "abs(`-1` / `3`)", "ceil(`2` / `3`)", "floor(`-2` / `3`)", "`2` / `3` == `0.6666666666666666666666666666666667`", "to_string(`1` / `3`)", "sort([`1` / `3`, `0.3333`])", "max([`2` / `3`, `0.6667`])",
		"find_first('abcabc', 'c', `1.5`)", "split('a,b', ',', `0.5`)", "pad_left('ab', `2.5`)", "replace('aaa', 'a', 'b', `-1`)", "find_first('abc', 'b', `2.99999999999999999999999999999999999`)", "pad_left('ab', `3.0000000000000000000000000000000000001`)")
	// the failing and the succeeding paths of the ordering builtins on arrays of 700 / 1300 elements
	for _, src := range []string{"mid", "huge", "mid[*]", "huge[:600]"} {
		out = append(out, "sort("+src+") | [@[0], @[-1], length(@)]", "reverse("+src+")[0]", "max("+src+")", "min("+src+")", "sort_by("+src+", &@)[:3]", "max_by("+src+", &@)", "sum("+src+")", "map(&(@ + `1`), "+src+")[:2]")
	}
	out = append(out, "sort(midbad)", "sort(hugebad)", "max(midbad)", "min(hugebad)", "sort_by(midbad, &@)", "sort_by(hugebad, &@)", "max_by(hugebad, &@)", "min_by(midbad, &@)", "sum(hugebad)", "avg(midbad)", "sort(hugebad[:1000]) | length(@)", "sort(hugebad[1000:])")
	// element-wise consumers must not write their results into the array they read
	for _, w := range wraps {
		nums := fmt.Sprintf(w, "nums")
		strs := fmt.Sprintf(w, "strs")
		recs := fmt.Sprintf(w, "recs")
		out = append(out, "map(&(@ + `1`), "+nums+")", "map(&[@, @], "+strs+")", "map(&k, "+recs+")", "map(&to_string(@), "+nums+")", nums+" | map(&(@ * `2`), @)", "zip("+nums+", "+nums+")[0]", nums+"[*].[@ + `1`][]", "join('', "+strs+")")
	}
	// objects handed on without a copy: merge must build its own result
	for _, w := range []string{"%s", "(%s)", "%s | @", "[%s][0]", "{a: %s}.a", "not_null(%s)", "%s || objs.b", "%s && {x: 'y'}", "objs.b && %s", "let $x = %s in $x", "label[:1].not_null($.%s)", "to_array(%s)[0]", "[%s] | [0]", "not_null(`null`, %s)", "values({a: %s})[0]"} {
		for _, o := range []string{"eo", "objs.a", "eo2"} {
			x := fmt.Sprintf(w, o)
			out = append(out, "merge("+x+", objs.b)", "merge("+x+", {z: `1`}, objs.a)", "{m: merge("+x+", objs.b), n: length(eo), k: keys(objs.a)}", "merge("+x+", "+x+", {y: `2`}) | length(@)")
		}
	}
	out = append(out, "nested[*].sort(@)", "nested[*].reverse(@)", "nested[].sort_by(@, &@)", "sort(nested[0])", "merge(objs.a, objs.b)", "merge(objs, `{\"c\": 1}`)", "merge(`{\"c\": 1}`, objs.a)", "zip(nums, strs)[0]", "values(objs)[*].p", "from_items(items(objs.a))", "nums[::-1]", "nums[?@ > `5`]", "join(',', strs)", "sort(strs)[0]", "sort(keys(objs))")
	return out
}

func c07Round(c *Ctx, idx int) {
	cfg := c07Configs[idx%len(c07Configs)]
	r := c.Rand("")
	// shared, read-only documents
	ndocs := 20
	docs := make([]ref.V, ndocs)
	godocs := make([]any, ndocs)
	for i := range docs {
		if i%2 == 0 {
			docs[i] = c15Doc(r)
		} else {
			docs[i] = gen.Doc(r, 3)
		}
		godocs[i] = ref.ToGo(docs[i], ref.JSONNumber)
	}
	// document 0: unsorted homogeneous arrays without nulls, for the directed forms
	docs[0], _ = ref.FromJSON(c07DirectedDoc)
	godocs[0] = ref.ToGo(docs[0], ref.JSONNumber)
	// document 1: foreign Go values (typed containers, structs, pointers) inside plain containers;
	// not modelled: judged by the race detector and by agreement with the sequential outcome
	godocs[1] = c07ForeignDoc()
	docs[1] = nil
	foreign := []string{"@", "s", "strs", "ints", "m", "[s, p]", "type(s)", "type(strs)", "to_array(strs)", "not_null(p, s)", "s == s", "contains([s], s)", "strs[0]", "m.a", "length(strs)", "recs[*].s", "recs[?s]", "[strs, ints, m][0]", "to_string(s)", "p", "length(@)", "recs[0].tags", "arr", "arr[0]", "nested.inner", "nested.inner.k"}
	directed := append(c07Directed(), foreign...)
	nForeignFrom := len(directed) - len(foreign)
	// documents 3, 5, 7: foreign values as the whole document (a struct, a slice of structs, a pointer)
	godocs[3], docs[3] = c07Struct{Name: "top", N: 1, Tags: []string{"t"}}, nil
	godocs[5], docs[5] = []c07Other{{1, 2}, {3, 4}}, nil
	godocs[7], docs[7] = &c07Wide{A: "a", B: 2, C: []int{1}, D: map[string]string{"k": "v"}}, nil
	topForeign := []string{"@", "type(@)", "Name", "N", "Tags", "[0]", "[*]", "length(@)", "to_string(@)", "[@, @]", "not_null(@)", "@ == @", "A", "B", "C[0]", "D.k", "keys(@)", "[0].A"}
	nTopFrom := len(directed)
	for range 3 {
		directed = append(directed, topForeign...)
	}
	// document 9: values that to_string (the one builtin that serialises) refuses - NaN, infinities, a
	// malformed json.Number, a failing marshaler - next to values it accepts: the failing and the
	// succeeding paths of whatever the serialiser pools or caches then run concurrently
	godocs[9], docs[9] = map[string]any{"bad": math.NaN(), "inf": math.Inf(1), "jn": json.Number("abc"), "fm": failingValue{err: errors.New("no")}, "items": []any{json.Number("1"), "two", []any{json.Number("3")}, map[string]any{"k": "v"}, nil, true},
		"o": map[string]any{"a": json.Number("1"), "b": []any{"x", "y"}}, "badlist": []any{json.Number("1"), math.NaN()}, "late": []any{"a", "b", failingText{errors.New("late")}}}, nil
	hostileTS := []string{"to_string(bad)", "to_string(inf)", "to_string(jn)", "to_string(fm)", "to_string(badlist)", "to_string(late)", "to_string(@)", "to_string(items)", "items[*].to_string(@)", "to_string(o)", "[to_string(items), to_string(o)]",
		"map(&to_string(@), items)", "to_string(items[2])", "to_string(o.b)", "to_string(`[1,2,3]`)", "to_string({a: items, b: o})", "join('|', items[*].to_string(@))", "[to_string(o), to_string(bad)]", "to_string(items) || to_string(bad)", "length(to_string(items))",
		"sort_by(items, &to_string(@))[*].to_string(@)", "to_string(fm) || to_string(o)", "not_null(missing, to_string(items))", "items[?to_string(@) == '\"two\"']", "to_string(badlist[0])", "to_string(late[:2])"}
	nHostileFrom := len(directed)
	for range 4 {
		directed = append(directed, hostileTS...)
	}
	// literal-argument forms: always cold (first evaluated by the goroutines)
	nLiteralFrom := len(directed)
	directed = append(directed, c07LiteralForms()...)
	nLiteralTo := len(directed)
	// expressions + sequential outcomes
	var items []c07Item
	nodeTypes := map[string]bool{}
	for len(items) < 220+len(directed) {
		d := r.Intn(ndocs)
		var text string
		if len(items) < len(directed) {
			text, d = directed[len(items)], 0
			if len(items) >= nForeignFrom {
				d = 1
			}
			if len(items) >= nTopFrom {
				d = 3 + 2*((len(items)-nTopFrom)/len(topForeign))
			}
			if len(items) >= nHostileFrom {
				d = 9
			}
			if len(items) >= nLiteralFrom {
				d = 0
			}
			goto have
		}
		for d == 1 || d == 3 || d == 5 || d == 7 || d == 9 {
			d = 2 + r.Intn(ndocs-2)
		}
		switch r.Intn(5) {
		case 4:
			// builders that sort / reverse / merge / reslice an array of the shared
			// document or a literal held by the shared Expression (in-place work
			// on shared memory is a write-write race between goroutines)
			text = c.c06Expr(r, docs[d])
		case 0:
			text = gen.Pick(r, c15Forms)
			d = (d / 2) * 2
		case 1:
			g := &gen.ExprGen{R: r, Root: docs[d], Funcs: 70, Lets: true, Arith: true}
			text = ref.Print(g.Call(docs[d], 2))
		default:
			g := &gen.ExprGen{R: r, Root: docs[d], Funcs: 40, Lets: true, Arith: true}
			text = ref.Print(g.Expr(docs[d], 3))
		}
		if strings.Contains(text, "pad_") {
			continue // generated widths may be huge
		}
	have:
		var m ref.Outcome
		if docs[d] == nil {
			m = ref.Outcome{Unspec: true}
		} else {
			m = ref.Search(text, docs[d])
		}
		enum := Enumerates(text)
		if enum && m.Unspec {
			if len(items) < len(directed) {
				text, m, enum = "@", ref.Outcome{Unspec: true}, false // keep the directed list aligned
			} else {
				continue
			}
		}
		it := c07Item{text: text, doc: d, loose: enum}
		if !m.Unspec {
			it.anyOf = m.Fault
		}
		// every third item stays cold: neither its text nor its document kind has been
		// evaluated in this process before the goroutines are released, so anything the
		// library initialises lazily and process-wide is initialised concurrently; its
		// sequential outcome is computed after the concurrent phase
		it.cold = len(items)%3 == 2 || docs[d] == nil // the foreign document is first seen by the library under concurrency
		if len(items) >= nLiteralFrom && len(items) < nLiteralTo {
			it.cold = true
		}
		if !it.cold {
			l := c.LibSearch(text, godocs[d])
			if l.Panic != nil && len(items) >= len(directed) {
				continue
			}
			it.canon = canon(l, enum, it.anyOf)
		}
		if e, lc := c.LibCompile(text); lc.Err == nil && lc.Panic == nil {
			it.expr = e
			var types []string
			it.fp, types = jmespath.VerifASTFingerprint(e)
			for _, t := range types {
				nodeTypes[t] = true
			}
		}
		items = append(items, it)
	}
	before := make([]string, ndocs)
	for i := range godocs {
		before[i] = deepSnap(godocs[i])
	}
	calls := tierN(c, 20000, 100000)
	perG := calls / cfg.g
	old := runtime.GOMAXPROCS(cfg.procs)
	defer runtime.GOMAXPROCS(old)
	c.Intent(fmt.Sprintf("concurrent phase: %d goroutines, GOMAXPROCS %d, %d calls", cfg.g, cfg.procs, perG*cfg.g), "concurrent")
	type mismatch struct {
		item     int
		op       string
		got      string
		panicked bool
	}
	results := make([][]mismatch, cfg.g)
	coldSeen := make([][]mismatch, cfg.g)
	opCounts := make([][3]int64, cfg.g)
	start := make(chan struct{})
	var wg sync.WaitGroup
	for gi := 0; gi < cfg.g; gi++ {
		wg.Add(1)
		go func(gi int) {
			defer wg.Done()
			rr := gen.New(c.Seed, fmt.Sprintf("C07/g%d", gi), idx)
			<-start
			for k := 0; k < perG; k++ {
				ii := rr.Intn(len(items))
				it := &items[ii]
				op := rr.Intn(3)
				var l LibOut
				var name string
				switch {
				case op == 0:
					name = "Search"
					l = Observe(func() (any, error) { return jmespath.Search(it.text, godocs[it.doc]) })
				case op == 1 || it.expr == nil:
					name = "Compile+Search"
					l = Observe(func() (any, error) {
						e, err := jmespath.Compile(it.text)
						if err != nil {
							return nil, err
						}
						return e.Search(godocs[it.doc])
					})
				default:
					name = "sharedExpression.Search"
					l = Observe(func() (any, error) { return it.expr.Search(godocs[it.doc]) })
				}
				opCounts[gi][op]++
				// read the result completely (canon walks every value)
				got := canon(l, it.loose, it.anyOf)
				if it.cold {
					coldSeen[gi] = append(coldSeen[gi], mismatch{ii, name, got, l.Panic != nil})
				} else if got != it.canon {
					results[gi] = append(results[gi], mismatch{ii, name, got, l.Panic != nil})
				}
			}
		}(gi)
	}
	close(start)
	wg.Wait()
	// cold items: their outcome when run alone, computed now, must equal every outcome seen concurrently
	for i := range items {
		if items[i].cold {
			l := c.LibSearch(items[i].text, godocs[items[i].doc])
			items[i].canon = canon(l, items[i].loose, items[i].anyOf)
		}
	}
	for gi := range coldSeen {
		for _, m := range coldSeen[gi] {
			if m.got != items[m.item].canon {
				results[gi] = append(results[gi], m)
			}
		}
	}
	c.Counters["evaluations"] += int64(perG * cfg.g)
	var ops [3]int64
	for _, oc := range opCounts {
		for i := range ops {
			ops[i] += oc[i]
		}
	}
	c.Count("concurrent_calls:Search", ops[0])
	c.Count("concurrent_calls:Compile+Search", ops[1])
	c.Count("concurrent_calls:sharedExpression.Search", ops[2])
	c.Count(fmt.Sprintf("rounds:goroutines=%d,GOMAXPROCS=%d", cfg.g, cfg.procs), 1)
	reported := 0
	for gi, ms := range results {
		for _, m := range ms {
			if reported < 10 {
				it := items[m.item]
				c.Report(Violation{Rule: "C07/outcome-differs-from-sequential", Expr: it.text, Data: gen.Describe(godocs[it.doc]), Got: clipS(m.got, 600), Want: clipS(it.canon, 600), Detail: fmt.Sprintf("goroutine %d of %d, GOMAXPROCS %d, via %s", gi, cfg.g, cfg.procs, m.op)})
			}
			reported++
		}
	}
	// shared state untouched by the concurrent phase
	for i := range items {
		if items[i].expr != nil {
			if fp, _ := jmespath.VerifASTFingerprint(items[i].expr); fp != items[i].fp {
				c.Report(Violation{Rule: "C07/shared-expression-modified", Expr: items[i].text, Detail: "AST fingerprint of a shared Expression changed during the concurrent phase"})
			}
		}
	}
	for i := range godocs {
		if deepSnap(godocs[i]) != before[i] {
			c.Report(Violation{Rule: "C07/shared-document-modified", Data: clipS(before[i], 800), Detail: fmt.Sprintf("shared document %d changed during the concurrent phase", i)})
		}
	}
	var types []string
	for t := range nodeTypes {
		types = append(types, t)
	}
	sort.Strings(types)
	c.Count("ast_node_types_in_shared_expressions", int64(len(types)))
	c.Nontrivial(fmt.Sprint("round", idx))
	for i := 0; i < len(items); i += 7 {
		c.Nontrivial(items[i].text, fmt.Sprint(items[i].doc), fmt.Sprint(idx))
	}
	c.Sample(map[string]any{"round": idx, "goroutines": cfg.g, "GOMAXPROCS": cfg.procs, "shared_expressions": len(items), "shared_documents": ndocs, "concurrent_calls": perG * cfg.g, "ast_node_types": len(types), "mismatches": reported, "example_expression": items[0].text})
}

func init() {
	Register(&Property{
		ID:            "C07",
		Rule:          "worker built with the Go race detector; each round runs in a fresh process (lazy initialisation races once per process): ~220 expressions (forms that range Go maps, generated calls, core expressions, and builders that sort/reverse/merge/reslice arrays of the shared document or literals of the shared Expression; AST node types covered are counted) over 20 shared read-only documents (one of them holding foreign Go values - structs, pointers, typed slices, maps and arrays - and three being foreign values themselves: a struct, a slice of structs, a pointer to a struct; those four are never evaluated before the goroutines are released), plus ~220 directed forms (every ordering/reversing/merging function applied to every way of handing it an array of the shared document or a literal of the shared Expression without a copy), are first evaluated sequentially - except every third one, which stays cold so that whatever the library initialises lazily and process-wide is initialised under concurrency, and whose outcome alone is computed afterwards - then G goroutines (G in {2,8,16,32,64}, GOMAXPROCS in {2,4,16}) are released from a barrier and run a seeded mix of Search(text, sharedDoc), Compile(text)+Search and sharedExpression.Search(sharedDoc), reading every result completely; refuting events: any race-detector report (counted and de-duplicated by the driver from GORACE logs), any call whose canonical outcome differs from the sequential outcome of the same call, a changed AST fingerprint of a shared Expression, a changed shared document; non-trivial = rounds and (expression, document) pairs exercised concurrently; a shared document on which to_string fails (NaN, infinities, a malformed json.Number, failing marshalers, a late failing element) next to values it serialises, with 26 to_string forms (4 copies each); the directed list includes arrays of 700 / 1300 numbers with and without a late offender through sort, sort_by, max, min, max_by, sum, map, element-wise consumers and object hand-overs into merge",
		MinNontrivial: 100,
		Streams: []Stream{
			{Name: "rounds", N: c07Rounds, Run: c07Round},
		},
	})
	batchOverride["C07"] = func(tier, mode string) int {
		if tier == "thorough" {
			return 128
		}
		return 16
	}
	assumptions["C07"] = []string{"the race detector reasons about the happens-before relation of the executions produced; races on paths the shared expressions do not reach are not seen (node-type coverage is reported)", "GORACE halt_on_error=0: reports are counted from the log files, the child's exit code is not trusted"}
}
