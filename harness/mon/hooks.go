package mon

// WorkerInit / WorkerFini are per-process hooks (coverage counters etc.).
var workerInit []func(*Ctx)
var workerFini []func(*Ctx)

func WorkerInit(c *Ctx) {
	for _, f := range workerInit {
		f(c)
	}
}

func WorkerFini(c *Ctx) {
	for _, f := range workerFini {
		f(c)
	}
}
