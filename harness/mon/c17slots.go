package mon

import (
	"fmt"
	"strings"

	"verif/harness/gen"
	"verif/harness/ref"
)

// Slot rewrites.  An expression slot is a position that holds a complete
// expression: a function argument, the body of an expression reference, an
// element of a multi-select, an operand of a binary or unary operator, either
// side of a pipe, a filter condition, a let binding or body, the whole text.
// In a slot, e can be replaced by
//
//	(e | @)        (@ | e)        (let $zz = e in $zz)        (e | @ | @)
//
// without changing the meaning: the evaluation order stays the same, a
// projection cannot continue past a slot boundary anyway, and neither form
// mentions anything but e.  What changes is the syntactic neighbourhood, so
// every peephole that fuses or special-cases adjacent nodes (a fused
// `filter | [0]`, merged lets, folded constants, compact node encodings,
// "argument is a temporary" tests) is bypassed in the rewritten text: the
// general path and the special path of the library are compared.

type slotRef struct {
	parent *ref.Node
	i      int
}

func collectSlots(n *ref.Node, out *[]slotRef) {
	if n == nil {
		return
	}
	for i, k := range n.Kids {
		slot := false
		switch n.Kind {
		case ref.NFunc:
			slot = k.Kind != ref.NExpref
		case ref.NExpref, ref.NMultiList, ref.NMultiHash, ref.NOr, ref.NAnd, ref.NCmp, ref.NArith, ref.NNot, ref.NUnary, ref.NPipe, ref.NLet:
			slot = true
		case ref.NFilterProj:
			slot = i == 2
		}
		if slot && k.Kind != ref.NIdentity {
			*out = append(*out, slotRef{n, i})
		}
		collectSlots(k, out)
	}
}

func cloneNode(n *ref.Node) *ref.Node {
	if n == nil {
		return nil
	}
	c := *n
	c.Kids = make([]*ref.Node, len(n.Kids))
	for i, k := range n.Kids {
		c.Kids[i] = cloneNode(k)
	}
	return &c
}

func slotRewrite(r *gen.R, e *ref.Node, tag int) (*ref.Node, string) {
	cur := func() *ref.Node { return &ref.Node{Kind: ref.NCurrent} }
	inner := *e
	inner.Paren = false
	switch r.Intn(5) {
	case 0:
		return &ref.Node{Kind: ref.NPipe, Kids: []*ref.Node{&inner, cur()}, Paren: true}, "(e | @)"
	case 1:
		return &ref.Node{Kind: ref.NPipe, Kids: []*ref.Node{cur(), &inner}, Paren: true}, "(@ | e)"
	case 2:
		v := fmt.Sprintf("$zz%d", tag)
		return &ref.Node{Kind: ref.NLet, Keys: []string{v}, Kids: []*ref.Node{&inner, {Kind: ref.NVar, Name: v}}, Paren: true}, "(let $zz = e in $zz)"
	case 3:
		p1 := &ref.Node{Kind: ref.NPipe, Kids: []*ref.Node{&inner, cur()}}
		return &ref.Node{Kind: ref.NPipe, Kids: []*ref.Node{p1, cur()}, Paren: true}, "(e | @ | @)"
	}
	inner.Paren = true
	return &ref.Node{Kind: ref.NPipe, Kids: []*ref.Node{&inner, cur()}, Paren: true}, "((e) | @)"
}

func c17SlotRewrites(c *Ctx, idx int) {
	r := c.Rand("")
	doc := gen.Doc(r, 3)
	if idx%3 == 0 {
		// documents with leading nulls / homogeneous arrays make fused paths observable
		o := ref.NewObj()
		xs := &ref.Arr{E: []ref.V{nil, gen.IntV(3), gen.IntV(1), nil, gen.IntV(2), gen.IntV(3)}}
		if r.Chance(40) {
			xs.E = xs.E[1:]
		}
		if r.Chance(30) {
			xs = &ref.Arr{E: []ref.V{gen.IntV(5), gen.IntV(2), gen.IntV(9), gen.IntV(2)}}
		}
		o.Set("xs", xs)
		rs := &ref.Arr{}
		if r.Chance(60) {
			rs.E = append(rs.E, nil)
		}
		for i := 0; i < 2+r.Intn(4); i++ {
			q := ref.NewObj()
			q.Set("id", fmt.Sprintf("r%d", i))
			if !r.Chance(25) {
				q.Set("k", gen.Pick(r, []ref.V{gen.IntV(int64(r.Intn(4))), nil, gen.IntV(7)}))
			}
			q.Set("s", gen.Pick(r, []ref.V{"b", "a", "c", "a"}))
			if r.Chance(50) {
				q.Set("n", gen.IntV(int64(r.Intn(5))))
			}
			q.Set("ys", &ref.Arr{E: []ref.V{gen.IntV(int64(i)), nil, gen.IntV(int64(i + 1))}})
			rs.E = append(rs.E, q)
			if r.Chance(15) {
				rs.E = append(rs.E, nil)
			}
		}
		o.Set("rs", rs)
		oo := ref.NewObj()
		oo.Set("a", gen.IntV(1))
		oo.Set("b", nil)
		o.Set("o", oo)
		o.Set("a", gen.Num(gen.Pick(r, c10LitPool)))
		o.Set("b", gen.Num(gen.Pick(r, c10LitPool)))
		doc = o
	}
	goDoc := ref.ToGo(doc, ref.JSONNumber)
	g := &gen.ExprGen{R: r, Root: doc, Funcs: 45, Lets: true, Arith: true}
	var text string
	if idx%3 == 0 {
		// idioms that optimisers target, over the document with leading nulls
		text = gen.Pick(r, c17Idioms)
		for strings.Contains(text, "%C") {
			text = strings.Replace(text, "%C", gen.Pick(r, c17IdiomConds), 1)
		}
		for strings.Contains(text, "%N") {
			text = strings.Replace(text, "%N", gen.Pick(r, []string{"0", "1", "-1", "2", "0", "3", "255", "128"}), 1)
		}
		for strings.Contains(text, "%L") {
			text = strings.Replace(text, "%L", "`"+gen.Pick(r, c10LitPool)+"`", 1)
		}
	} else if r.Chance(40) {
		text = ref.Print(g.Call(doc, 2))
	} else {
		text = ref.Print(g.Expr(doc, 3))
	}
	pr := ref.Parse(text)
	if pr.Status != ref.ParseOK || containsPad(text) {
		return
	}
	base := c.LibSearch(text, goDoc)
	if base.Panic != nil {
		return
	}
	m := ref.SearchParsed(pr, doc)
	enum := Enumerates(text)
	if enum && m.Unspec {
		return
	}
	// whole text, then up to 4 variants each rewriting 1..3 slots
	variants := 0
	for v := 0; v < 5; v++ {
		root := &ref.Node{Kind: ref.NMultiList, Kids: []*ref.Node{cloneNode(pr.Node)}} // holder: Kids[0] is the slot of the whole text
		var slots []slotRef
		slots = append(slots, slotRef{root, 0})
		collectSlots(root.Kids[0], &slots)
		n := 1 + r.Intn(3)
		how := ""
		for k := 0; k < n; k++ {
			s := slots[r.Intn(len(slots))]
			if v == 0 && k == 0 {
				s = slots[0]
			}
			nn, name := slotRewrite(r, s.parent.Kids[s.i], v*4+k)
			s.parent.Kids[s.i] = nn
			how += name + " "
		}
		t2 := ref.Print(root.Kids[0])
		if p2 := ref.Parse(t2); p2.Status != ref.ParseOK {
			c.Count("slot_rewrite_not_reparsed", 1)
			continue
		}
		got := c.LibSearch(t2, goDoc)
		variants++
		if MultiFaultOK(m, base, got) {
			continue
		}
		if !SameOutcome(base, got, enum) {
			c.Report(Violation{Rule: "C17/slot-rewrite", Expr: text, Data: ref.ToJSONText(doc), Got: ShowOut(base), Want: ShowOut(got) + "  (= " + t2 + ")", Detail: "rewrites applied: " + how, Features: map[string]string{"schema": "slot-rewrite"}})
		}
	}
	if variants > 0 && base.Err == nil && base.M != nil {
		c.Nontrivial(text, ref.ToJSONText(doc))
	}
}

var c17IdiomConds = []string{"k", "!k", "k == `null`", "k != `1`", "n > `1`", "@", "!@", "k == `7`", "s == 'a'", "`true`", "n", "k || n"}

var c17Idioms = []string{
	"rs[?%C] | [%N]", "rs[?%C] | [%N].id", "rs[?%C][%N]", "rs[?%C].id | [%N]", "xs[?%C] | [%N]", "rs[*].k | [%N]", "rs[*] | [%N]", "rs[] | [%N]", "xs[*] | [%N]", "map(&k, rs) | [%N]", "map(&n, rs) | [%N]", "map(&@, xs) | [%N]",
	"sort_by(rs[?k], &k) | [%N].id", "sort_by(rs[?s], &s)[%N].id", "sort(xs[?@]) | [%N]", "sort(xs[?@])[%N]", "reverse(xs) | [%N]", "xs[::-1] | [%N]", "xs[1:] | [%N]", "xs[:2] | [%N]", "xs | [%N]", "[xs][0] | [%N]", "to_array(xs) | [%N]", "not_null(xs) | [%N]",
	"length(rs[?%C])", "length(rs[*])", "rs[*] | length(@)", "rs[?%C] | length(@)", "length(rs[*].k)", "sum(rs[*].n)", "rs[*].n | sum(@)", "max(rs[*].n)", "rs[?n].n | sort(@) | [0]", "rs[?n].n | max(@)", "avg(xs[?@])",
	"a * `4000000000` * `4000000000`", "a * `4294967295` × `3037000500`", "`65536` * `65536` * `65536` * `65536` * a", "a + `9223372036854775807` + `9223372036854775807`", "a - `9223372036854775807` - `2`", "a * `2147483648` * `2147483648` * `2`", "a // `4294967296` // `4294967296`",
	"a * %L * %L", "a + %L + %L", "%L * %L * a", "a * %L * b * %L", "a - %L - %L", "a * %L + %L * b", "-a * %L", "a == %L", "a < %L", "[a, b] | sort(@)", "a + b == b + a",
	"let $p = rs in let $q = xs in [$p[%N].id, $q[%N]]", "let $p = a in let $q = (let $p = [$p, b] in $p) in $q", "let $p = rs[?%C] in $p | [%N]", "let $i = %L in xs[?@ > $i]", "let $c = `1` in rs[?k == $c].id",
	"rs[?%C] | [0] | id", "rs[?%C] | [0].ys[%N]", "rs[*].ys[%N]", "rs[*].ys | [%N]", "rs[*].ys[] | [%N]", "rs[?%C].ys[?@] | [%N]", "rs[*].ys[?@][%N]", "rs[?%C] | [*].id | [%N]",
	"o.a || o.b || `9`", "o.b || o.a", "not_null(o.b, o.a)", "o.b && o.a", "!(!o.a)", "{p: o.a, q: o.b}.p", "[o.a, o.b][%N]", "keys(o) | sort(@) | [%N]", "contains(keys(o), 'a')", "merge(o, {c: %L}).c", "values(o) | length(@)",
	// "find the record by key, take a field": the field is missing (null) in some of the matches
	"rs[?%C].k | [%N]", "rs[?%C].n | [%N]", "rs[?s == 'a'].n | [0]", "rs[?s == 'a'].k | [0]", "rs[?s == 'b'].n | [%N]", "rs[?k == `7`].n | [0]", "rs[?n == `1`].k | [0]", "rs[?s == 'a'].n | [-1]", "rs[?s == 'a'].ys[1] | [0]", "(rs[?s == 'a'].n)[0]",
	"rs[?s == 'a'].n | [0] || 'none'", "rs[?s != 'a'].k | [0]", "rs[?s == 'c'].n | [1]", "rs[?s == 'a'].[n] | [0]", "rs[?s == 'a'].{n: n} | [0]",
	"join(',', rs[?s].s)", "join(',', sort(rs[?s].s))", "rs[?s == 'a'] | [0].id", "rs[?s == 'a'][0]", "contains(rs[*].s, 'a')", "rs[*].s | [?@ == 'a'] | length(@)", "xs[?@ == `3`] | [%N]", "xs[?@ == %L]", "type(xs | [%N])", "xs[%N] == (xs | [%N])",
}

func containsPad(s string) bool {
	for i := 0; i+4 <= len(s); i++ {
		if s[i:i+4] == "pad_" {
			return true
		}
	}
	return false
}
