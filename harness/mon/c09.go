package mon

import (
	"bytes"
	"encoding/json"
	"fmt"
	"math"
	"os"
	"runtime"
	"strings"
	"sync/atomic"
	"time"

	"github.com/woodsbury/jmespath"

	"verif/harness/covstep"
	"verif/harness/gen"
	"verif/harness/ref"
)

// Step budget watchdog: a sampler goroutine re-reads the block counters every
// ~20 ms; the moment the count of the running call exceeds the budget it says
// so and ends the process (the driver attributes it to the logged intent).
// The sampling period only affects latency: the verdict is on the count.
var stepBudget atomic.Uint64

func c09StartSampler() {
	go func() {
		var b bytes.Buffer
		for {
			time.Sleep(20 * time.Millisecond)
			bud := stepBudget.Load()
			if bud == 0 {
				continue
			}
			n, err := covstep.StepsBuf(&b)
			if err == nil && n > bud && stepBudget.Load() == bud {
				fmt.Printf("STEP-BUDGET-EXCEEDED steps=%d budget=%d\n", n, bud)
				os.Exit(5)
			}
		}
	}()
}

type costs struct {
	steps uint64
	alloc uint64
	out   LibOut
}

// measure runs one Search under the step clock and the allocation meter.
func (c *Ctx) measure(text string, data any, budget uint64) costs {
	c.Intent(text, "Search(measured)")
	c.Eval()
	var ms0, ms1 runtime.MemStats
	runtime.ReadMemStats(&ms0)
	covstep.Reset()
	stepBudget.Store(budget)
	out := Observe(func() (any, error) { return jmespath.Search(text, data) })
	stepBudget.Store(0)
	runtime.ReadMemStats(&ms1)
	n, _ := covstep.Steps()
	return costs{steps: n, alloc: ms1.TotalAlloc - ms0.TotalAlloc, out: out}
}

func c09Setup(c *Ctx) {
	if !covstep.Available() {
		fmt.Println("HARNESS-PANIC C09 needs a worker built with -cover -covermode=atomic")
		os.Exit(3)
	}
	c09StartSampler()
}

// ---- R1: magnitude independence

var c09Mags = []string{"1000", "1000000", "1000000000", "1000000000000", "4611686018427387904", "9223372036854775807"}

type magFamily struct {
	name string
	tmpl string // %M replaced by the magnitude, %N by its negation
	neg  bool   // also try negative magnitudes
	// base: the magnitude just beyond the data size
	base string
}

var c09Families = []magFamily{
	{"array-index", "a[%M]", true, "20"},
	{"array-slice-start", "a[%M:]", true, "20"},
	{"array-slice-stop", "a[:%M]", true, "20"},
	{"array-slice-both", "a[-%M:%M]", false, "20"},
	{"array-slice-step", "a[::%M]", true, "20"},
	{"array-slice-all", "a[%M:-%M:-%M]", false, "20"},
	{"array-slice-step2", "a[1:%M:%M]", false, "20"},
	{"string-slice-start", "s[%M:]", true, "20"},
	{"string-slice-stop", "s[:%M]", true, "20"},
	{"string-slice-both", "s[-%M:%M]", false, "20"},
	{"string-slice-step", "s[::%M]", true, "20"},
	{"string-slice-step-from", "s[2::%M]", true, "20"},
	{"string-slice-all", "s[%M:-%M:-%M]", false, "20"},
	{"string-slice-all2", "s[-%M:%M:%M]", false, "20"},
	{"mb-string-slice-step", "m[::%M]", true, "20"},
	{"mb-string-slice-stop", "m[1:%M]", true, "20"},
	{"raw-string-slice-step", "'abcdefghij'[::%M]", true, "20"},
	{"find_first-start", "find_first(s, 'c', `%M`)", true, "20"},
	{"find_first-end", "find_first(s, 'c', `0`, `%M`)", true, "20"},
	{"find_first-both", "find_first(s, 'c', `-%M`, `%M`)", false, "20"},
	{"find_last-start", "find_last(s, 'c', `%M`)", true, "20"},
	{"find_last-end", "find_last(m, 'é', `1`, `%M`)", true, "20"},
	{"replace-count", "replace(s, 'a', 'xy', `%M`)", false, "20"},
	{"split-count", "split(c, ',', `%M`)", false, "20"},
	{"split-empty-count", "split(s, '', `%M`)", false, "20"},
	{"split-count-doc", "split(c, ',', n)", false, "20"},
	{"to_number-exp", "to_number('1e%M')", true, "20"},
	{"to_number-digits-exp", "to_number('123456789e-%M')", false, "20"},
	{"literal-exp", "`1e%M`", true, "20"},
	{"literal-exp-arith", "`1e%M` + `1`", true, "20"},
	{"literal-exp-cmp", "`1e%M` < `2e%M`", true, "20"},
	{"literal-exp-sort", "sort(`[3e%M, 1e%M, 2e%M]`)", true, "20"},
	{"doc-exp-arith", "big * `2`", false, "20"},
	{"doc-exp-abs", "abs(big)", false, "20"},
	{"index-literal-in-projection", "aa[*][%M]", true, "20"},
	{"slice-in-projection", "aa[*][:%M]", true, "20"},
	{"pad-small", "pad_left(s, `12`)", false, "20"},
	// integer arguments and operands whose *spelling* carries the magnitude: zero or small mantissas with
	// huge exponents, long runs of leading / trailing zeros
	{"zero-exp-count", "replace(s, 'a', 'xy', `0e%M`)", true, "20"},
	{"zero-exp-split", "split(c, ',', `0.0E+%M`)", false, "20"},
	{"zero-exp-pad", "pad_left(s, `0e%M`, '-')", true, "20"},
	{"zero-exp-find", "find_first(s, 'c', `-0e%M`)", false, "20"},
	{"zero-exp-find-end", "find_last(s, 'c', `0`, `0E%M`)", true, "20"},
	{"zero-exp-doc", "split(c, ',', z)", false, "20"},
	{"small-exp-neg-count", "replace(s, 'a', 'xy', `5e-%M`)", false, "20"},
	{"small-exp-slice-cmp", "a[?@ > `0e%M`]", true, "20"},
	{"zero-exp-arith", "`0e%M` + `1`", true, "20"},
	{"zero-exp-mul", "`0e%M` * `3e%M`", true, "20"},
	{"zero-exp-cmp", "`0e%M` == `0`", true, "20"},
	{"zero-exp-to_number", "to_number('0e%M')", true, "20"},
	{"zero-exp-abs-ceil", "[abs(`0e-%M`), ceil(`0e%M`), floor(`-0e%M`)]", false, "20"},
	{"zero-exp-sort", "sort(`[0e%M, 1, 0e-%M]`)", false, "20"},
	{"zero-exp-index-like", "a[?@ == `0e%M`]", true, "20"},
}

// size classes of the subject data: the implementation may pick a different algorithm for long
// inputs (direct indexing for short or single-byte strings, a walk for long multi-byte ones), and the
// magnitude must not drive any of them.  Class 0: 10 elements / characters; class 1: 300; class 2: 5000;
// classes 3 and 4: 10 and 300 with ill-formed UTF-8 in the strings.
var c09Classes = []struct {
	rep  int
	base string
}{{1, "20"}, {30, "700"}, {500, "12000"}, {-1, "20"}, {-30, "700"}}

func c09Doc(mag string, cls int) any {
	rep := c09Classes[cls].rep
	sUnit, mUnit := "abcabcabca", "aé𝌆béé𝌆ab"
	if rep < 0 {
		// ill-formed UTF-8 (a Go string can hold it, a JSON document cannot): stray continuation,
		// lead and impossible bytes between the characters
		rep = -rep
		sUnit, mUnit = "abc\xffbc\x80bca"[:10], "aé\xff𝌆b\xc3é𝌆a"
	}
	a := make([]any, 10*rep)
	for i := range a {
		a[i] = json.Number(fmt.Sprint(i))
	}
	aa := []any{a, a, a}
	return map[string]any{"a": a, "aa": aa, "s": strings.Repeat(sUnit, rep), "m": strings.Repeat(mUnit, rep), "c": strings.Repeat("a,b,c,d,e", rep), "n": json.Number(mag), "big": json.Number("1e" + mag), "z": json.Number("0e" + mag)}
}

func c09MagN(c *Ctx) int { return len(c09Families) * 2 * len(c09Classes) }

func c09Mag(c *Ctx, idx int) {
	cls := idx / (len(c09Families) * 2)
	idx %= len(c09Families) * 2
	f := c09Families[idx/2]
	f.base = c09Classes[cls].base
	neg := idx%2 == 1
	if neg && !f.neg {
		return
	}
	inst := func(m string) string {
		if neg {
			m = "-" + m
		}
		t := strings.ReplaceAll(f.tmpl, "-%M", "%N")
		nm := "-" + m
		if strings.HasPrefix(m, "-") {
			nm = m[1:]
		}
		t = strings.ReplaceAll(t, "%N", nm)
		return strings.ReplaceAll(t, "%M", m)
	}
	const budget = 20_000_000
	base := c.measure(inst(f.base), c09Doc(f.base, cls), budget)
	worst := base
	for _, m := range c09Mags {
		if len(m) < len(f.base) || (len(m) == len(f.base) && m <= f.base) {
			// not beyond the data of this size class: the result legitimately differs
			continue
		}
		text := inst(m)
		k := c.measure(text, c09Doc(m, cls), budget)
		c.Nontrivial(f.name, m, fmt.Sprint(neg), fmt.Sprint(cls))
		feats := map[string]string{"family": f.name, "negative": fmt.Sprint(neg), "size_class": fmt.Sprint(cls)}
		if k.out.Panic != nil {
			c.Report(Violation{Rule: "C09/panic", Expr: text, Got: ShowOut(k.out), Features: feats})
			continue
		}
		if k.steps > 2*base.steps+1000 {
			c.Report(Violation{Rule: "C09/steps-driven-by-magnitude", Expr: text, Got: fmt.Sprintf("%d basic-block executions", k.steps), Want: fmt.Sprintf("<= 2*%d+1000 (cost of %s)", base.steps, inst(f.base)), Features: feats})
		}
		if k.alloc > 2*base.alloc+64<<10 {
			c.Report(Violation{Rule: "C09/allocation-driven-by-magnitude", Expr: text, Got: fmt.Sprintf("%d bytes allocated", k.alloc), Want: fmt.Sprintf("<= 2*%d+64KiB (cost of %s)", base.alloc, inst(f.base)), Features: feats})
		}
		if k.steps > worst.steps {
			worst = k
		}
	}
	c.Count("max_steps_magnitude_family", 0)
	if int64(worst.steps) > c.Counters["max_steps_magnitude_family"] {
		c.Counters["max_steps_magnitude_family"] = int64(worst.steps)
	}
	c.Sample(map[string]any{"family": f.name, "negative": neg, "size_class": cls, "base_expr": inst(f.base), "base_steps": base.steps, "base_alloc": base.alloc, "worst_steps": worst.steps, "magnitudes": c09Mags})
}

// ---- R2: growth along scaling families

type scaleFamily struct {
	name string
	// build returns (expression, data) for size n
	build func(n int) (string, any)
}

func numArr(n int) []any {
	a := make([]any, n)
	for i := range a {
		a[i] = json.Number(fmt.Sprint((i * 7919) % 1000))
	}
	return a
}

func objArr(n int) []any {
	a := make([]any, n)
	for i := range a {
		a[i] = map[string]any{"k": json.Number(fmt.Sprint((i * 7919) % 100)), "s": fmt.Sprint("s", i%17), "v": []any{json.Number("1"), nil}}
	}
	return a
}

var c09Scale = []scaleFamily{
	{"sort-numbers", func(n int) (string, any) { return "sort(@)", numArr(n) }},
	{"sort_by", func(n int) (string, any) { return "sort_by(@, &k)", objArr(n) }},
	{"group_by", func(n int) (string, any) { return "group_by(@, &s)", objArr(n) }},
	{"max_by", func(n int) (string, any) { return "max_by(@, &k)", objArr(n) }},
	{"projection", func(n int) (string, any) { return "[*].v[]", objArr(n) }},
	{"filter", func(n int) (string, any) { return "[?k > `50`].s", objArr(n) }},
	{"flatten", func(n int) (string, any) { return "[][]", []any{objArr(n), numArr(n)} }},
	{"contains", func(n int) (string, any) { return "contains(@, `-1`)", numArr(n) }},
	{"sum-avg", func(n int) (string, any) { return "[sum(@), avg(@), max(@), min(@)]", numArr(n) }},
	{"reverse", func(n int) (string, any) { return "reverse(@)", numArr(n) }},
	{"slice-step", func(n int) (string, any) { return "[::3]", numArr(n) }},
	{"map", func(n int) (string, any) { return "map(&k, @)", objArr(n) }},
	{"merge", func(n int) (string, any) { return "merge(@, @)", bigObj(n) }},
	{"keys-values", func(n int) (string, any) { return "[length(keys(@)), length(values(@)), length(items(@))]", bigObj(n) }},
	{"object-wildcard", func(n int) (string, any) { return "*", bigObj(n) }},
	{"from_items", func(n int) (string, any) { return "from_items(items(@))", bigObj(n) }},
	{"zip", func(n int) (string, any) { return "zip(@, @)", numArr(n) }},
	{"equal-arrays", func(n int) (string, any) { return "a == b", map[string]any{"a": numArr(n), "b": numArr(n)} }},
	{"string-length", func(n int) (string, any) { return "length(@)", strings.Repeat("aé", n/2+1) }},
	{"string-slice", func(n int) (string, any) { return "@[1:-1]", strings.Repeat("aé", n/2+1) }},
	{"string-slice-step", func(n int) (string, any) { return "@[::-2]", strings.Repeat("aé", n/2+1) }},
	{"string-reverse", func(n int) (string, any) { return "reverse(@)", strings.Repeat("aé", n/2+1) }},
	{"string-split", func(n int) (string, any) { return "split(@, ',')", strings.Repeat("ab,", n/3+1) }},
	{"string-split-chars", func(n int) (string, any) { return "split(@, '')", strings.Repeat("aé", n/2+1) }},
	{"string-replace", func(n int) (string, any) { return "replace(@, 'a', 'bb')", strings.Repeat("aé", n/2+1) }},
	{"string-find", func(n int) (string, any) {
		return "[find_first(@, 'z'), find_last(@, 'z', `1`)]", strings.Repeat("aé", n/2+1)
	}},
	{"string-join", func(n int) (string, any) {
		a := make([]any, n)
		for i := range a {
			a[i] = "x"
		}
		return "join(',', @)", a
	}},
	{"string-pad", func(n int) (string, any) { return fmt.Sprintf("pad_left('x', `%d`)", n), nil }},
	{"string-trim", func(n int) (string, any) { return "trim(@)", strings.Repeat(" ", n/2) + "x" + strings.Repeat(" ", n/2) }},
	{"expr-or-chain", func(n int) (string, any) { return strings.Repeat("a||", min(n, 40000)) + "a", map[string]any{"a": nil} }},
	// the same chains with every operand truthy / falsy (each short-circuit direction), nested on the
	// right, mixed, negated, inside a filter: evaluating an operand twice anywhere doubles per level
	{"expr-or-chain-truthy", func(n int) (string, any) {
		return strings.Repeat("a||", min(n, 40000)) + "a", map[string]any{"a": json.Number("1")}
	}},
	{"expr-and-chain-truthy", func(n int) (string, any) {
		return strings.Repeat("a&&", min(n, 40000)) + "a", map[string]any{"a": json.Number("1")}
	}},
	{"expr-and-chain-falsy", func(n int) (string, any) { return strings.Repeat("a&&", min(n, 40000)) + "a", map[string]any{"a": nil} }},
	{"expr-or-and-mixed", func(n int) (string, any) {
		return strings.Repeat("a||b&&", min(n, 20000)) + "a", map[string]any{"a": json.Number("1"), "b": nil}
	}},
	{"expr-or-right-nested", func(n int) (string, any) {
		k := min(n, 4000)
		return strings.Repeat("(b||", k) + "a" + strings.Repeat(")", k), map[string]any{"a": json.Number("1"), "b": nil}
	}},
	{"expr-not-chain", func(n int) (string, any) {
		return strings.Repeat("!", min(n, 9000)) + "a", map[string]any{"a": json.Number("1")}
	}},
	{"expr-or-chain-in-filter", func(n int) (string, any) {
		return "xs[?" + strings.Repeat("@||", min(n, 2000)) + "@]", map[string]any{"xs": []any{json.Number("1"), nil, json.Number("2")}}
	}},
	{"expr-comparison-chain", func(n int) (string, any) {
		return strings.Repeat("a==", min(n, 20000)) + "a", map[string]any{"a": json.Number("1")}
	}},
	{"expr-sum-chain", func(n int) (string, any) {
		return strings.Repeat("a+", min(n, 20000)) + "a", map[string]any{"a": json.Number("1")}
	}},
	{"expr-pipe-chain", func(n int) (string, any) {
		return strings.Repeat("@|", min(n, 20000)) + "a", map[string]any{"a": json.Number("1")}
	}},
	{"expr-let-chain", func(n int) (string, any) {
		return strings.Repeat("let $v = a in ", min(n, 4000)) + "$v", map[string]any{"a": json.Number("1")}
	}},
	{"expr-dot-chain", func(n int) (string, any) { return strings.Repeat("a.", min(n, 40000)) + "a", map[string]any{"a": nil} }},
	{"expr-index-chain", func(n int) (string, any) { return "a" + strings.Repeat("[0]", min(n, 40000)), map[string]any{"a": nil} }},
	{"expr-paren-nest", func(n int) (string, any) {
		return strings.Repeat("(", min(n, 9000)) + "a" + strings.Repeat(")", min(n, 9000)), nil
	}},
	{"expr-multiselect", func(n int) (string, any) {
		return "[" + strings.Repeat("a,", n) + "a]", map[string]any{"a": json.Number("1")}
	}},
	{"expr-hash", func(n int) (string, any) {
		var b strings.Builder
		b.WriteString("{")
		for i := 0; i < n; i++ {
			fmt.Fprintf(&b, "k%d:a,", i)
		}
		b.WriteString("z:a}")
		return b.String(), map[string]any{"a": json.Number("1")}
	}},
	{"expr-args", func(n int) (string, any) {
		return "not_null(" + strings.Repeat("a,", n) + "b)", map[string]any{"b": json.Number("1")}
	}},
	{"expr-let-chain", func(n int) (string, any) {
		m := min(n, 3000)
		var b strings.Builder
		for i := 0; i < m; i++ {
			fmt.Fprintf(&b, "let $v%d = a in ", i)
		}
		b.WriteString("$v0")
		return b.String(), map[string]any{"a": json.Number("1")}
	}},
	{"expr-long-literal", func(n int) (string, any) { return "`\"" + strings.Repeat("x", n) + "\"`", nil }},
	{"expr-long-raw", func(n int) (string, any) { return "'" + strings.Repeat("\\'", n/2) + "'", nil }},
	{"expr-long-quoted", func(n int) (string, any) { return "\"" + strings.Repeat("\\u00e9", n/6+1) + "\"", nil }},
	{"expr-whitespace", func(n int) (string, any) { return "a" + strings.Repeat(" ", n) + ".b", nil }},
	{"number-digits", func(n int) (string, any) { return "`1" + strings.Repeat("0", n) + "` + `1`", nil }},
	{"number-digits-doc", func(n int) (string, any) { return "@ < `1`", json.Number("0." + strings.Repeat("0", n) + "1") }},
	{"nested-projection", func(n int) (string, any) {
		k := int(math.Sqrt(float64(n))) + 1
		a := make([]any, k)
		for i := range a {
			a[i] = numArr(k)
		}
		return "[*][*]", a
	}},
}

func bigObj(n int) map[string]any {
	m := make(map[string]any, n)
	for i := 0; i < n; i++ {
		m[fmt.Sprint("k", i)] = json.Number(fmt.Sprint(i))
	}
	return m
}

func c09Sizes(c *Ctx) []int {
	if c.Tier == "thorough" {
		return []int{10, 100, 1000, 10000, 100000}
	}
	return []int{10, 100, 1000, 10000}
}

func c09ScaleRun(c *Ctx, idx int) {
	f := c09Scale[idx]
	sizes := c09Sizes(c)
	var steps []uint64
	var allocs []uint64
	for _, n := range sizes {
		text, data := f.build(n)
		budget := uint64(10_000_000 + 20_000*n)
		k := c.measure(text, data, budget)
		c.Nontrivial(f.name, fmt.Sprint(n))
		feats := map[string]string{"family": f.name, "n": fmt.Sprint(n)}
		if k.out.Panic != nil {
			c.Report(Violation{Rule: "C09/panic", Expr: clipS(text, 200), Got: ShowOut(k.out), Features: feats})
		}
		steps = append(steps, k.steps)
		allocs = append(allocs, k.alloc)
	}
	// growth exponent on the last two sizes
	l := len(sizes)
	growth := func(v []uint64) float64 {
		a, b := float64(v[l-2])+200, float64(v[l-1])+200
		return math.Log(b/a) / math.Log(float64(sizes[l-1])/float64(sizes[l-2]))
	}
	gs, ga := growth(steps), growth(allocs)
	feats := map[string]string{"family": f.name}
	text, _ := f.build(sizes[l-1])
	if gs > 2.2 {
		c.Report(Violation{Rule: "C09/superquadratic-steps", Expr: clipS(text, 200), Got: fmt.Sprintf("steps %v for sizes %v: growth exponent %.2f", steps, sizes, gs), Want: "<= 2.2", Features: feats})
	}
	if ga > 2.2 && allocs[l-1] > 1<<20 {
		c.Report(Violation{Rule: "C09/superquadratic-allocation", Expr: clipS(text, 200), Got: fmt.Sprintf("bytes %v for sizes %v: growth exponent %.2f", allocs, sizes, ga), Want: "<= 2.2", Features: feats})
	}
	c.Sample(map[string]any{"family": f.name, "sizes": sizes, "steps": steps, "alloc_bytes": allocs, "step_growth_exponent": math.Round(gs*100) / 100})
}

func clipS(s string, n int) string {
	if len(s) > n {
		return s[:n] + fmt.Sprintf("...(%d bytes)", len(s))
	}
	return s
}

// ---- R3: random cases against the size-proportional budget

func goSize(v any) int {
	switch x := v.(type) {
	case []any:
		n := 1
		for _, e := range x {
			n += goSize(e)
		}
		return n
	case map[string]any:
		n := 1
		for k, e := range x {
			n += 1 + len(k)/8 + goSize(e)
		}
		return n
	case string:
		return 1 + len(x)/4
	}
	return 1
}

func c09Random(c *Ctx, idx int) {
	r := c.Rand("")
	doc := gen.Doc(r, 3)
	g := &gen.ExprGen{R: r, Root: doc, Funcs: 50, Lets: true, Arith: true}
	node := g.Expr(doc, 3)
	text := ref.Print(node)
	m := ref.Search(text, doc)
	if m.Unspec && strings.Contains(m.Why, "width beyond") {
		return
	}
	goDoc := ref.ToGo(doc, ref.JSONNumber)
	E, D := len(text), goSize(goDoc)
	budget := uint64(10_000_000)
	k := c.measure(text, goDoc, budget)
	R := 1
	if k.out.Err == nil && k.out.Panic == nil {
		R = goSize(k.out.Res)
	}
	I := m.MaxInter
	size := uint64(E + D + I + R)
	c.Nontrivial(text, ref.ToJSONText(doc))
	if k.steps > 5000*size {
		c.Report(Violation{Rule: "C09/steps-exceed-size-budget", Expr: text, Data: gen.Describe(goDoc), Got: fmt.Sprintf("%d basic-block executions", k.steps), Want: fmt.Sprintf("<= 5000 * (E=%d + D=%d + I=%d + R=%d)", E, D, I, R)})
	}
	if k.alloc > 1<<20+4096*size {
		c.Report(Violation{Rule: "C09/allocation-exceeds-size-budget", Expr: text, Data: gen.Describe(goDoc), Got: fmt.Sprintf("%d bytes allocated", k.alloc), Want: fmt.Sprintf("<= 1MiB + 4096 * %d", size)})
	}
	if int64(k.steps/size) > c.Counters["max_steps_per_size_unit"] {
		c.Counters["max_steps_per_size_unit"] = int64(k.steps / size)
	}
}

func init() {
	Register(&Property{
		ID:            "C09",
		Rule:          "cost measured deterministically per call: steps = basic-block executions inside the library (compiler coverage counters, atomic mode, cleared before the call), alloc = bytes allocated; R1: 52 families parameterised by an integer magnitude (slice bounds/steps on arrays and strings, index literals, find_* offsets, replace/split counts, numeric exponents in literals, strings and data, zero and small mantissas with huge exponents in every integer-argument position) at 1e3..2^63-1 and negatives must cost <= 2x the cost at magnitude 20 (+1000 steps / +64 KiB); R2: 44 scaling families (array/string/object size, chain/nesting/argument/literal length) at n = 10..1e4 (1e5 thorough) must grow with exponent <= 2.2 on the last decade; R3: seeded random calls must stay within 5000 steps and 4 KiB per unit of (expression + document + intermediate + result size), and a sampler ends any call that exceeds its step budget; 'every call terminates' is decided as bounded progress under these budgets; non-trivial = every measured (family, magnitude/size) or random call; every magnitude family on three size classes of subject data (10 / 300 / 5000 elements and characters), magnitudes beyond the data only; two more size classes with ill-formed UTF-8 subjects (10 and 300 characters); 100 tower families: 20 wrappers (selectors on parenthesised operands, unary builtins, single-element multi-selects, lets, pipes, || && !) around a string / null / array / object / document-string subject, the nesting depth (10..2000) being the size parameter; 10 expref-tower families: max_by / min_by / sort_by / group_by / map / filters / projections / lets nested through the expression-reference position over a document of matching depth",
		MinNontrivial: 300,
		Streams: []Stream{
			{Name: "magnitude", Setup: c09Setup, N: c09MagN, Run: c09Mag, Exhaustive: true},
			{Name: "scaling", N: func(c *Ctx) int { return len(c09Scale) }, Run: c09ScaleRun, Exhaustive: true},
			{Name: "random", N: func(c *Ctx) int { return tierN(c, 20000, 4000000) }, Run: c09Random},
		},
	})
	assumptions["C09"] = []string{"steps count basic blocks of github.com/woodsbury/jmespath/... only: time spent inside the standard library or decimal128 is visible through the allocation meter and the (inconclusive-only) wall-clock watchdog, not through the step clock", "liveness is restated as bounded progress: a call must finish within its step budget"}
}

// ---- towers: one construct wrapped around itself n times
//
// The size parameter of these families is the nesting depth.  A construct that evaluates its operand
// twice (once to look at it, once "properly") costs 2^n: at n = 100 that exceeds any budget, while
// every result is still correct.  Wrappers: a selector applied to a parenthesised operand, unary
// builtins, single-element multi-selects indexed again, lets, each over a string, null, an array and
// an object subject.
func tower(n int, base string, wrap func(string) string) string {
	t := base
	for i := 0; i < n; i++ {
		t = wrap(t)
	}
	return t
}

func init() {
	type w struct {
		name string
		f    func(string) string
	}
	wraps := []w{
		{"paren-slice-step", func(x string) string { return "(" + x + ")[::-1]" }},
		{"paren-slice-step2", func(x string) string { return "(" + x + ")[::2]" }},
		{"paren-slice", func(x string) string { return "(" + x + ")[0:]" }},
		{"paren-index", func(x string) string { return "[(" + x + ")][0]" }},
		{"paren-field", func(x string) string { return "{k: (" + x + ")}.k" }},
		{"paren-star", func(x string) string { return "(" + x + ")[*]" }},
		{"paren-filter", func(x string) string { return "(" + x + ")[?`true`]" }},
		{"paren-flatten", func(x string) string { return "[(" + x + ")][]" }},
		{"not_null-slice-step", func(x string) string { return "not_null(" + x + "[::2])" }},
		{"not_null", func(x string) string { return "not_null(" + x + ")" }},
		{"to_array-index", func(x string) string { return "to_array(" + x + ")[0]" }},
		{"reverse", func(x string) string { return "reverse(" + x + ")" }},
		{"let", func(x string) string { return "(let $t = " + x + " in $t)" }},
		{"pipe", func(x string) string { return "(" + x + " | @)" }},
		{"or", func(x string) string { return "(" + x + " || `null`)" }},
		{"and", func(x string) string { return "(`true` && " + x + ")" }},
		{"not-not", func(x string) string { return "!(!(" + x + "))" }},
		{"paren-slice-step-call", func(x string) string { return "to_array(" + x + "[::-1])[0]" }},
		{"map", func(x string) string { return "map(&@, [" + x + "])[0]" }},
		{"sort_by", func(x string) string { return "sort_by([" + x + "], &`1`)[0]" }},
	}
	subjects := []struct{ name, text string }{{"string", "'abcdef'"}, {"null", "missing"}, {"array", "a"}, {"object", "o"}, {"doc-string", "s"}}
	for _, wr := range wraps {
		for _, sj := range subjects {
			wr, sj := wr, sj
			c09Scale = append(c09Scale, scaleFamily{"tower-" + wr.name + "-" + sj.name, func(n int) (string, any) {
				if n > 2000 {
					n = 2000 // (the parser's nesting limit is 10000 levels; several wrappers nest twice per level)
				}
				return tower(n, sj.text, wr.f), map[string]any{"a": []any{json.Number("3"), json.Number("1"), json.Number("2")}, "o": map[string]any{"k": "v"}, "s": "héllo wörld"}
			}})
		}
	}
}

// ---- towers through the expression-reference position
//
// max_by(@, &length(max_by(@, &length(...)))) over a document nested as deeply as the expression: the
// per-element builtins evaluate their key expression once per element - a helper that evaluates the
// first element's key twice (once to find the key type, once in the loop) doubles the cost at every
// level.
func init() {
	type w struct {
		name string
		f    func(string) string
	}
	wraps := []w{
		{"max_by", func(x string) string { return "max_by(@, &length(" + x + "))" }},
		{"min_by", func(x string) string { return "min_by(@, &length(" + x + "))" }},
		{"sort_by", func(x string) string { return "sort_by(@, &length(" + x + "))[0]" }},
		{"group_by", func(x string) string { return "values(group_by(@, &to_string(length(" + x + "))))[0][0]" }},
		{"map", func(x string) string { return "map(&" + x + ", @)[0]" }},
		{"filter", func(x string) string { return "[?" + x + "][0]" }},
		{"projection", func(x string) string { return "[*].[" + x + "][0][0]" }},
		{"max_by-string-key", func(x string) string { return "max_by(@, &to_string(length(" + x + ")))" }},
		{"sort_by-not_null", func(x string) string { return "sort_by(@, &length(not_null(" + x + ", @)))[0]" }},
		{"let", func(x string) string { return "[*].[let $e = @ in " + x + "][0][0]" }},
	}
	for _, wr := range wraps {
		wr := wr
		c09Scale = append(c09Scale, scaleFamily{"expref-tower-" + wr.name, func(n int) (string, any) {
			if n > 1500 {
				n = 1500
			}
			var doc any = json.Number("1")
			for i := 0; i < n+2; i++ {
				doc = []any{doc}
			}
			return tower(n, "@", wr.f), doc
		}})
	}
}
