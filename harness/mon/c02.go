package mon

import (
	"fmt"
	"strings"

	"verif/harness/gen"
	"verif/harness/ref"
)

// argument pool of the exhaustive type matrix: JSON text, or an expression
// reference (text starting with '&').
var c02Pool = []string{
	`null`, `true`, `false`, `0`, `1`, `-1`, `2.5`, `1.0`, `1e2`, `9223372036854775808`,
	`""`, `"a"`, `"abc"`, `"aé𝌆"`, `[]`, `[1,2]`, `["b","a"]`, `[1,"a"]`, `[[1,2],["a","b"]]`, `{}`, `{"a":1}`,
	`&a`, `&@`,
}

var c02PoolV []ref.V

type c02Fn struct {
	name     string
	min, max int // max arity tried is max+1 ; variadic: max = 3
}

var c02Fns []c02Fn

func c02Setup(c *Ctx) {
	if c02Fns != nil {
		return
	}
	for _, n := range ref.FunctionNames() {
		mn, mx, _, _ := ref.Arity(n)
		if mx < 0 {
			mx = 3
		}
		c02Fns = append(c02Fns, c02Fn{n, mn, mx})
	}
	for _, t := range c02Pool {
		if strings.HasPrefix(t, "&") {
			c02PoolV = append(c02PoolV, nil)
			continue
		}
		v, err := ref.FromJSON(t)
		if err != nil {
			panic(err)
		}
		c02PoolV = append(c02PoolV, v)
	}
}

// c02Space enumerates (function, arity, vector) for arities in [lo, hi].
type c02Case struct {
	fn    c02Fn
	arity int
	vec   []int
}

func c02Count(lo, hi int) int {
	n := 0
	for _, f := range c02Fns {
		for a := 0; a <= f.max+1; a++ {
			if a < lo || a > hi {
				continue
			}
			n += pow(len(c02Pool), a)
		}
	}
	return n
}

func c02Decode(idx, lo, hi int) c02Case {
	for _, f := range c02Fns {
		for a := 0; a <= f.max+1; a++ {
			if a < lo || a > hi {
				continue
			}
			sz := pow(len(c02Pool), a)
			if idx < sz {
				vec := make([]int, a)
				for i := 0; i < a; i++ {
					vec[i] = idx % len(c02Pool)
					idx /= len(c02Pool)
				}
				return c02Case{f, a, vec}
			}
			idx -= sz
		}
	}
	panic("c02Decode: index out of range")
}

func c02Run(c *Ctx, cs c02Case, viaDoc bool) {
	args := make([]string, cs.arity)
	doc := ref.NewObj()
	doc.Set("a", gen.IntV(7))
	for i, k := range cs.vec {
		t := c02Pool[k]
		switch {
		case strings.HasPrefix(t, "&"):
			args[i] = t
		case viaDoc:
			name := fmt.Sprintf("a%d", i)
			doc.Set(name, c02PoolV[k])
			args[i] = name
		default:
			if s, ok := c02PoolV[k].(string); ok && i%2 == 0 {
				args[i] = ref.RawString(s)
			} else {
				args[i] = "`" + strings.ReplaceAll(t, "`", "\\`") + "`"
			}
		}
	}
	text := cs.fn.name + "(" + strings.Join(args, ", ") + ")"
	m, _ := c.CheckModel("C02", text, doc, ref.ToGo(doc, ref.JSONNumber), CheckOpts{Features: map[string]string{"function": cs.fn.name}})
	// a call that fails (arity, type, value) must fail the same way as an argument of another call,
	// as the body of an expression reference and as a multi-select element (one in eight of the cases)
	if m.Fault != 0 && !m.Unspec && cs.arity <= 3 && (len(text)+cs.arity)%8 == 0 {
		for _, w := range []string{"to_string(%s)", "not_null(`null`, %s)", "map(&%s, `[1]`)", "[%s]", "length(to_array(%s))", "sort_by(`[1, 2]`, &%s)"} {
			wt := strings.Replace(w, "%s", text, 1)
			c.CheckModel("C02", wt, doc, ref.ToGo(doc, ref.JSONNumber), CheckOpts{Features: map[string]string{"function": cs.fn.name, "nested": w}})
		}
	}
	if !m.Unspec {
		c.Nontrivial(text, fmt.Sprint(viaDoc))
		if cs.arity >= 2 {
			c.Sample(map[string]any{"expr": text, "doc": ref.ToJSONText(doc), "model": m.String()})
		}
	}
}

func init() {
	Register(&Property{
		ID:            "C02",
		Rule:          "every builtin x every arity 0..max+1 x every argument vector over a 23-value pool (all JSON types, integral/non-integral/huge numbers, multi-byte strings, expression references), arguments passed as literals and through the document (failing calls are also re-run nested in another call, in an expression reference and in a multi-select; exhaustive for arity <= 3, arity 4 exhaustive in thorough / seeded 1-in-8 sample in quick); integer-parameter boundary lattice; seeded document-directed calls with caller-scope expression references (expression-reference bodies that call builtins again, incl. the same one); re-entrant pairs: every per-element construct (19: projections, filters, slices, map, sort_by, max_by, min_by, group_by, multi-selects, per-element let, zip) x every construct evaluated inside its body (32: the same list plus sort, reverse, join, merge, pad, split, comparisons, arithmetic, literals under [*] / filter / sort), over 2..14 records, also two levels down; large inputs: ~60 forms (every builtin and core construct that walks an array, object or string) over 1000..100000 elements at sizes around 2^10, 2^12, 2^15, 2^16; offender positions: one element/argument of each wrong type at the first/second/middle/last positions of arrays and argument lists of 1..65 members, for every builtin taking a homogeneous array or a variadic list; numeric boundaries: every builtin and operator that reads numbers x 44 integers/decimals at the 2^31..2^64 / 10^19 boundaries, as literals, strings and document values; wide forms: variadic calls, multi-selects, lets, operator/field/index/pipe chains and nestings with 1..257 members; each compared with the reference model; non-trivial = model decides the call; distinct by (call text, argument route); case-mapping stream: lower/upper over every code point that has a case mapping, compared with the model where every Unicode-aware implementation agrees; to_string round trip: every sequence of up to 2 (thorough 3) pieces from 26 special characters and escape fragments, inside arrays / objects / keys / nested to_string, must be JSON that decodes to the value; trim-edges stream: every code point of Z*, Cc, Cf, the default-ignorable and blank-looking characters and all of Latin-1 at both edges of 6 subjects through the 6 spellings of the trim family (the model trims exactly the 25 white-space code points of the compliance corpus)",
		MinNontrivial: 1000,
		Streams: []Stream{
			{Name: "matrix", Setup: c02Setup, Exhaustive: true, N: func(c *Ctx) int { c02Setup(c); return 2 * c02Count(0, 3) },
				Run: func(c *Ctx, idx int) { c02Run(c, c02Decode(idx/2, 0, 3), idx%2 == 1) }},
			{Name: "matrix4", Setup: c02Setup, N: func(c *Ctx) int {
				c02Setup(c)
				if c.Tier == "thorough" {
					return c02Count(4, 5)
				}
				return c02Count(4, 5) / 8
			}, Run: func(c *Ctx, idx int) {
				if c.Tier != "thorough" {
					// seeded sample of the arity-4/5 space
					r := c.Rand("pick")
					idx = r.Intn(c02Count(4, 5))
				}
				c02Run(c, c02Decode(idx, 4, 5), idx%2 == 1)
			}},
			{Name: "lattice", N: c02LatticeN, Run: c02Lattice, Exhaustive: true},
			{Name: "number-texts", N: c18NumN, Run: c02NumTexts, Exhaustive: true},
			{Name: "random", N: func(c *Ctx) int { return tierN(c, 40000, 6000000) }, Run: c02Random},
			{Name: "reentrant-pairs", N: c02NestN, Run: c02Nest, Exhaustive: true},
			{Name: "wide", N: c02WideN, Run: c02Wide, Exhaustive: true},
			{Name: "pad-large", N: c02PadLargeN, Run: c02PadLargeRun, Exhaustive: true},
			{Name: "large", N: c02LargeN, Run: c02Large, Exhaustive: true},
			{Name: "offender-position", N: c02OffN, Run: c02Offender, Exhaustive: true},
			{Name: "numeric-boundaries", N: c02NumBoundN, Run: c02NumBound, Exhaustive: true},
			{Name: "case-mapping", N: casedN, Run: c02CaseMap, Exhaustive: true},
			{Name: "to_string-roundtrip", N: tsN, Run: tsRun, Exhaustive: true},
			{Name: "trim-edges", N: trimN, Run: c02TrimEdges, Exhaustive: true},
		},
	})
}

// ---- integer parameter boundary lattice

var c02Ints = []string{"-9223372036854775808", "-4611686018427387904", "-9", "-5", "-4", "-1", "-0", "0", "1", "2", "3", "4", "5", "6", "9",
	"2147483648", "9007199254740992", "9223372036854775807", "1.0", "1.5", "1e1", "-0.0", "2.0", "0.5"}

var c02Subjects = []string{"", "a", "abcab", "aé𝌆b", "ééé", "a,b,,c", "𝌆𝌆a𝌆"}

type latticeCase struct {
	tmpl  string // %s placeholders: subject, ints...
	nInts int
}

var c02LatticeForms = []latticeCase{
	{"find_first(%s, 'a', %s)", 1},
	{"find_first(%s, 'b', %s, %s)", 2},
	{"find_last(%s, 'a', %s)", 1},
	{"find_last(%s, 'é', %s, %s)", 2},
	{"find_first(%s, '𝌆', %s, %s)", 2},
	{"pad_left(%s, %s)", 1},
	{"pad_right(%s, %s, '-')", 1},
	{"pad_left(%s, %s, 'é')", 1},
	{"split(%s, ',', %s)", 1},
	{"split(%s, '', %s)", 1},
	{"split(%s, 'a', %s)", 1},
	{"replace(%s, 'a', 'xy', %s)", 1},
	{"replace(%s, 'é', '', %s)", 1},
}

func c02LatticeN(c *Ctx) int {
	n := 0
	for _, f := range c02LatticeForms {
		n += len(c02Subjects) * pow(len(c02Ints), f.nInts)
	}
	return n
}

func c02Lattice(c *Ctx, idx int) {
	for _, f := range c02LatticeForms {
		sz := len(c02Subjects) * pow(len(c02Ints), f.nInts)
		if idx >= sz {
			idx -= sz
			continue
		}
		subj := c02Subjects[idx%len(c02Subjects)]
		idx /= len(c02Subjects)
		args := []any{ref.RawString(subj)}
		big := false
		for i := 0; i < f.nInts; i++ {
			t := c02Ints[idx%len(c02Ints)]
			idx /= len(c02Ints)
			args = append(args, "`"+t+"`")
			if len(t) > 6 && strings.HasPrefix(f.tmpl, "pad") && !strings.HasPrefix(t, "-") {
				big = true
			}
		}
		if big {
			// a huge width legitimately drives the result size: C09's subject
			c.Count("skipped_huge_pad", 1)
			return
		}
		text := fmt.Sprintf(f.tmpl, args...)
		m, _ := c.CheckModel("C02", text, nil, nil, CheckOpts{Features: map[string]string{"function": text[:strings.Index(text, "(")]}})
		if !m.Unspec {
			c.Nontrivial(text)
		}
		return
	}
}

func c02Random(c *Ctx, idx int) {
	r := c.Rand("")
	doc := gen.Doc(r, 3)
	g := &gen.ExprGen{R: r, Root: doc, Funcs: 60, Lets: true, Arith: true}
	var node *ref.Node
	if r.Chance(30) {
		// caller-scope expression reference: let $v = ... in f(&[$v, ...], ...)
		node = g.Let(doc, 1)
	} else {
		node = g.Call(doc, 2)
	}
	text := ref.PrintWith(node, ref.PrintOpts{RawStrings: 100})
	if r.Chance(30) {
		text = ref.PrintWith(node, spellings(r)[1])
	}
	fn := ""
	if node.Kind == ref.NFunc {
		fn = node.Name
	}
	m, _ := c.CheckModel("C02", text, doc, ref.ToGo(doc, ref.JSONNumber), CheckOpts{Compiled: idx%4 == 0, Features: map[string]string{"function": fn}})
	if IsNontrivialOutcome(m) {
		c.Nontrivial(text, ref.ToJSONText(doc))
		c.Sample(map[string]any{"expr": text, "doc": ref.ToJSONText(doc), "model": m.String()})
	}
}
