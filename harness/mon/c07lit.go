package mon

import (
	"fmt"
	"strings"
)

// c07LiteralForms: every builtin and selector that can take a literal of the shared Expression -
// arrays of 8 / 33 / 100 / 300 strings, numbers or both, objects of 8 / 40 / 120 members, strings
// of 40 / 3000 characters, wide multi-selects and wide argument lists - with the other operand taken
// from the shared document. Anything an implementation derives from such a literal on first use
// (a sorted copy, a set, a converted number, a key index) and keeps in the AST is then written by
// the first evaluations, which happen in the concurrent phase only: these items always stay cold.
func c07LiteralForms() []string {
	var out []string
	arr := func(n int, kind string) string {
		var b strings.Builder
		b.WriteString("`[")
		for i := 0; i < n; i++ {
			if i > 0 {
				b.WriteByte(',')
			}
			k := (i*37 + 11) % 1009
			switch {
			case kind == "s" || (kind == "m" && i%2 == 0):
				fmt.Fprintf(&b, `"s%03d"`, k%101)
			default:
				fmt.Fprintf(&b, `%d`, k%101)
			}
		}
		b.WriteString("]`")
		return b.String()
	}
	obj := func(n int) string {
		var b strings.Builder
		b.WriteString("`{")
		for i := 0; i < n; i++ {
			if i > 0 {
				b.WriteByte(',')
			}
			fmt.Fprintf(&b, `"k%03d":%d`, (i*37+11)%1009, i)
		}
		b.WriteString("}`")
		return b.String()
	}
	for _, n := range []int{8, 33, 100, 300} {
		s, nu, m := arr(n, "s"), arr(n, "n"), arr(n, "m")
		out = append(out,
			"contains("+s+", bigstrs[0])", "contains("+s+", label)", "contains("+s+", 's048')", "contains("+nu+", nums[0])", "contains("+nu+", `48`)", "contains("+m+", bigstrs[3])", "contains("+m+", nums[1])",
			"bigstrs[?contains("+s+", @)] | length(@)", "bignums[?contains("+nu+", @)] | length(@)", "strs[?!contains("+s+", @)]", "nums[*].contains("+nu+", @)", "map(&contains("+m+", @), strs)",
			s+"[?@ == $.bigstrs[0]]", nu+"[?@ > $.nums[0]] | length(@)", "sort("+s+")[0]", "sort("+nu+")[-1]", "max("+s+")", "min("+nu+")", "sum("+nu+")", "avg("+nu+")", "join(',', "+s+") | length(@)", "length("+m+")", "reverse("+m+")[0]",
			s+"[1]", nu+"[-1]", m+"[2:5]", s+"[::-3] | length(@)", "to_string("+m+") | length(@)", "sort_by("+s+", &@)[0]", "max_by("+nu+", &@)", "group_by("+s+", &@) | length(@)", "zip("+s+", "+nu+")[0]", "find_first(join('', "+s+"), 's048')",
			"let $l = "+s+" in contains($l, bigstrs[1])", "let $l = "+nu+" in [contains($l, nums[0]), contains($l, nums[1])]", "label == "+s+"[0] || contains("+s+", bigstrs[2])", "not_null(missing, "+s+") | contains(@, bigstrs[0])",
			"index_of_missing || contains("+s+", strs[0])", s+" | contains(@, $.bigstrs[5])", "[contains("+s+", bigstrs[0]), contains("+s+", bigstrs[1]), contains("+s+", 'zzz')]", "{a: contains("+nu+", nums[2]), b: contains("+nu+", `1000`)}")
	}
	for _, n := range []int{8, 40, 120} {
		o := obj(n)
		out = append(out, o+".k048", o+".missing", "keys("+o+") | length(@)", "values("+o+") | sum(@)", "items("+o+") | length(@)", "merge("+o+", objs.a) | length(@)", "merge(objs.b, "+o+") | length(@)", "length("+o+")", "contains(keys("+o+"), 'k048')",
			o+".* | max(@)", "to_string("+o+") | length(@)", o+" == "+o, "let $o = "+o+" in [$o.k011, $o.k048, $o.nope]", "strs[*].not_null("+o+".k011)", "map(&"+o+".k048, nums)[0]", "from_items(items("+o+")) | length(@)")
	}
	long := strings.Repeat("abcdefghij", 300)
	for _, str := range []string{strings.Repeat("abcd", 10), long} {
		out = append(out, "contains('"+str+"', label)", "starts_with('"+str+"', label)", "ends_with('"+str+"', 'hij')", "find_first('"+str+"', strs[0])", "find_last('"+str+"', strs[1])", "length('"+str+"')", "split('"+str+"', strs[0]) | length(@)",
			"replace('"+str+"', label, strs[0]) | length(@)", "'"+str+"'[::-1] | length(@)", "'"+str+"'[2:7]", "upper('"+str+"') | length(@)", "reverse('"+str+"') | length(@)", "label == '"+str+"'", "strs[?contains('"+str+"', @)]",
			"`\""+str+"\"` == label", "contains(`\""+str+"\"`, strs[2])", "\""+str[:40]+"\"", "{\""+str[:40]+"\": label}")
	}
	// wide multi-selects, wide argument lists, many distinct fields and variables
	var fields, hash, lets, refs, ors []string
	for i := 0; i < 60; i++ {
		fields = append(fields, fmt.Sprintf("nums[%d]", i%20))
		hash = append(hash, fmt.Sprintf("f%02d: nums[%d]", i, i%20))
		lets = append(lets, fmt.Sprintf("$v%02d = nums[%d]", i, i%20))
		refs = append(refs, fmt.Sprintf("$v%02d", i))
		ors = append(ors, fmt.Sprintf("m%02d", i))
	}
	out = append(out, "["+strings.Join(fields, ", ")+"] | sum(@)", "{"+strings.Join(hash, ", ")+"} | length(@)", "{"+strings.Join(hash, ", ")+"}.f48", "let "+strings.Join(lets, ", ")+" in ["+strings.Join(refs, ", ")+"] | sum(@)",
		"not_null("+strings.Join(ors, ", ")+", label)", strings.Join(ors, " || ")+" || label", "merge("+strings.Join(append([]string{}, "objs.a", "objs.b", "objs.a", "objs.b", "{z: `1`}", "objs.a", "eo", "objs.b"), ", ")+")",
		"recs[*].{"+strings.Join(hash[:40], ", ")+"} | length(@)", "recs[*].["+strings.Join(fields[:40], ", ")+"] | length(@)")
	// number literals in every spelling next to document numbers: a literal's converted form, if kept, is kept in the AST
	for _, lit := range []string{"`1.50`", "`1e2`", "`0.1`", "`100`", "`-0`", "`1E+2`", "`9007199254740993`", "`0.30000000000000004`", "`12345678901234567890123456789012345`", "`1e-7`"} {
		out = append(out, "nums[0] + "+lit, "nums[*] | map(&(@ * "+lit+"), @)[:2]", "nums[?@ > "+lit+"] | length(@)", "nums[1] == "+lit, lit+" // nums[2]", "sum([nums[0], "+lit+"])", "abs("+lit+") + nums[3]", "to_string("+lit+")", "[ceil("+lit+"), floor("+lit+"), "+lit+" % nums[4]]")
	}
	return out
}
