package mon

import (
	"fmt"
	"strings"
)

// rename-directed: where the specification leaves a string builtin's answer open (split on the empty
// separator with a count that reaches the end, windows that end exactly at the last character,
// counts and widths equal to the length) the model abstains - but whatever the library answers for a
// subject of ASCII letters it must answer, letter for letter, for the same subject written with 2-,
// 3- and 4-byte letters. Subjects: every string of 0..4 letters over {a, b, c} (121) and longer ones;
// counts, windows and widths are written relative to length(s), so that they name the same character
// positions on both sides.
var c11RelForms = []string{
	"split(s, '', length(s))", "split(s, '', length(s) + `1`)", "split(s, '', length(s) - `1`)", "split(s, '', `100`)", "split(s, '', `0`)", "split(s, '', `1`)", "split(s, '', `2`)", "split(s, '', `3`)", "length(split(s, '', length(s)))",
	"split(s, sub, length(s))", "split(s, sub, `0`)", "split(s, sub, `1`)", "split(s, sub, `100`)", "split(s, s)", "split(s, s, `1`)", "split('', '', `1`)", "split('', sub, `2`)", "split(s, '')[-1]", "split(s, '', `2`)[-1]", "split(s, '', length(s))[-1]",
	"replace(s, sub, '-', length(s))", "replace(s, sub, '', `1`)", "replace(s, '', '-')", "replace(s, '', '-', `1`)", "replace(s, '', '-', length(s))", "replace(s, '', '-', length(s) + `1`)", "replace(s, s, sub)",
	"find_first(s, sub, `0`, length(s))", "find_first(s, sub, `1`, length(s) - `1`)", "find_last(s, sub, `0`, length(s))", "find_last(s, sub, `0`, length(s) - `1`)", "find_last(s, sub, length(s))", "find_first(s, sub, length(s) - `1`)", "find_first(s, '', length(s))", "find_last(s, '')", "find_last(s, '', `0`, length(s))",
	"pad_left(s, length(s) + `1`, sub[:1])", "pad_right(s, length(s) + `2`, sub[-1:])", "pad_left(s, length(s), '-')", "pad_right(s, length(s) - `1`, '-')", "trim(s, sub)", "trim_left(s, s)", "trim_right(s, sub[:1])", "trim(s, '')",
	"s[:length(s)]", "s[length(s):]", "s[-1:]", "s[:-1]", "s[::2]", "s[::-2]", "s[1:length(s)]", "reverse(s)[:1]", "join(sub, split(s, ''))", "join('', split(s, '', `1`)) == s", "join(sub, split(s, sub, `1`)) == s", "starts_with(s, s[:1])", "ends_with(s, s[-1:])", "contains(s, s[-1:])",
	"[s, sub, s[-1:], sub[:1]] | sort(@)", "max([s, sub, s[-1:]])", "min_by([s, sub], &length(@))", "sort_by([s, sub, s[:1]], &@)", "s < sub", "s >= s[:-1]", "group_by([s, sub, s], &@) | keys(@) | sort(@)", "{a: s} | values(@)[0][-1:]", "zip(split(s, ''), split(sub, ''))",
}

func c11RelSubjects() [][2]string {
	var out [][2]string
	letters := []string{"a", "b", "c"}
	var rec func(prefix string, n int)
	var subjects []string
	rec = func(prefix string, n int) {
		subjects = append(subjects, prefix)
		if n == 0 {
			return
		}
		for _, l := range letters {
			rec(prefix+l, n-1)
		}
	}
	rec("", 4)
	subjects = append(subjects, "abcabcab", "aaaaaaaaaaaaaaaa", "abababababababababababababababab", strings.Repeat("abc", 21)+"a", strings.Repeat("ab", 32), strings.Repeat("c", 63)+"b", "a-b", "-a", "a-", "-", "a b c", "1a2b", "a1")
	for i, s := range subjects {
		subs := []string{"a", "b", "", "ab", "c"}
		out = append(out, [2]string{s, subs[i%len(subs)]}, [2]string{s, subs[(i+2)%len(subs)]})
		if len(s) > 0 {
			out = append(out, [2]string{s, s[len(s)-1:]})
		}
	}
	return out
}

func c11RelN(c *Ctx) int { return len(c11RelSubjects()) }

func c11Rel(c *Ctx, idx int) {
	p := c11RelSubjects()[idx]
	mk := func(s, sub string) any { return map[string]any{"s": s, "sub": sub} }
	for _, f := range c11RelForms {
		l1 := c.LibSearch(f, mk(p[0], p[1]))
		if l1.Panic != nil {
			c.Report(Violation{Rule: "C11/panic", Expr: f, Data: fmt.Sprintf("s=%q sub=%q", p[0], p[1]), Got: ShowOut(l1), Features: map[string]string{"stream": "rename-directed"}})
			continue
		}
		if l1.Err == nil && l1.MErr != nil {
			continue
		}
		if l1.Err == nil {
			if bad, isBad := invalidUTF8(l1.Res); isBad {
				c.Report(Violation{Rule: "C11/invalid-utf8-result", Expr: f, Data: fmt.Sprintf("s=%q sub=%q", p[0], p[1]), Got: fmt.Sprintf("%q", bad), Features: map[string]string{"stream": "rename-directed"}})
			}
		}
		for _, rn := range c11Renamers {
			s2, sub2 := rn.str(p[0]), rn.str(p[1])
			l2 := c.LibSearch(f, mk(s2, sub2))
			want := l1
			if l1.Err == nil {
				want.M = rn.value(l1.M)
			}
			if !SameOutcome(want, l2, false) {
				c.Report(Violation{Rule: "C11/renaming", Expr: f, Data: fmt.Sprintf("s=%q sub=%q", p[0], p[1]), Got: ShowOut(l2), Want: ShowOut(want), Detail: fmt.Sprintf("renamed document: s=%q sub=%q", s2, sub2), Features: map[string]string{"renaming": rn.name, "stream": "rename-directed"}})
			}
			if l1.Err == nil && l2.Err == nil && l2.Res != nil {
				if bad, isBad := invalidUTF8(l2.Res); isBad {
					c.Report(Violation{Rule: "C11/invalid-utf8-result", Expr: f, Data: fmt.Sprintf("s=%q sub=%q", s2, sub2), Got: fmt.Sprintf("%q", bad), Features: map[string]string{"stream": "rename-directed"}})
				}
			}
		}
		if l1.Err == nil && hasLetters(l1.M) {
			c.Nontrivial("rel", f, p[0], p[1])
		}
	}
}
