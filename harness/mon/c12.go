package mon

import (
	"fmt"
	"math/big"
	"strings"

	"verif/harness/gen"
	"verif/harness/ref"
)

// lattice values for start/stop ("" = absent)
var c12Bounds = func() []string {
	out := []string{""}
	for i := -9; i <= 9; i++ {
		out = append(out, fmt.Sprint(i))
	}
	return append(out, "4611686018427387904", "-4611686018427387904", "9223372036854775807", "-9223372036854775808", "-9223372036854775807")
}()

var c12Steps = []string{"", "1", "-1", "2", "-2", "3", "-3", "7", "-7", "8", "-8", "9223372036854775807", "-9223372036854775808", "-9223372036854775807", "4611686018427387904", "0", "-0"}

var c12Chars = []string{"a", "é", "𝌆", "\ufffd", "✓", "c", "ü"}

func c12LatticeN(c *Ctx) int { return 8 * len(c12Bounds) * len(c12Bounds) * len(c12Steps) }

func c12Spell(r *gen.R, a, b, s string) string {
	if s == "" {
		if r.Chance(50) {
			return "[" + a + ":" + b + "]"
		}
		return "[" + a + ":" + b + ":]"
	}
	return "[" + a + ":" + b + ":" + s + "]"
}

func c12Lattice(c *Ctx, idx int) {
	n := idx % 8
	idx /= 8
	a := c12Bounds[idx%len(c12Bounds)]
	idx /= len(c12Bounds)
	b := c12Bounds[idx%len(c12Bounds)]
	idx /= len(c12Bounds)
	s := c12Steps[idx]
	r := c.Rand("")
	sl := c12Spell(r, a, b, s)
	arr := &ref.Arr{E: make([]ref.V, n)}
	var str strings.Builder
	for i := 0; i < n; i++ {
		arr.E[i] = gen.IntV(int64(i))
		str.WriteString(c12Chars[i])
	}
	doc := ref.NewObj()
	doc.Set("x", arr)
	doc.Set("s", str.String())
	doc.Set("t", "abcdefg"[:n]) // single-byte characters only
	goDoc := ref.ToGo(doc, ref.JSONNumber)
	feats := map[string]string{"n": fmt.Sprint(n)}
	m1, _ := c.CheckModel("C12", "x"+sl, doc, goDoc, CheckOpts{Features: feats})
	m2, _ := c.CheckModel("C12", "s"+sl, doc, goDoc, CheckOpts{Features: feats})
	if m3, _ := c.CheckModel("C12", "t"+sl, doc, goDoc, CheckOpts{Features: feats}); !m3.Unspec {
		c.Nontrivial("t", sl, fmt.Sprint(n))
	}
	c.CheckModel("C12", "t | @"+sl, doc, goDoc, CheckOpts{Features: feats})
	c.CheckModel("C12", "x | "+sl, doc, goDoc, CheckOpts{Features: feats})
	if !m1.Unspec {
		c.Nontrivial("x", sl, fmt.Sprint(n))
	}
	if !m2.Unspec {
		c.Nontrivial("s", sl, fmt.Sprint(n))
	}
	if idx%5 == 0 && n == 5 {
		c.Sample(map[string]any{"expr": "x" + sl, "n": n, "model": m1.String(), "string_carrier": "s" + sl, "model_string": m2.String()})
	}
}

func c12Random(c *Ctx, idx int) {
	r := c.Rand("")
	n := r.Intn(300)
	pick := func() string {
		switch r.Intn(6) {
		case 0:
			return ""
		case 1:
			return fmt.Sprint(r.Intn(2*n+3) - n - 1)
		case 2:
			return fmt.Sprint(int64(r.Uint64()))
		case 3:
			return fmt.Sprint(r.Intn(7) - 3)
		}
		return fmt.Sprint(r.Intn(n+2) - 1)
	}
	st := ""
	switch r.Intn(4) {
	case 1:
		st = fmt.Sprint(r.Intn(13) - 6)
	case 2:
		st = fmt.Sprint(int64(r.Uint64()))
	case 3:
		st = fmt.Sprint(r.Intn(n+2) - n/2)
	}
	if st == "0" && r.Chance(80) {
		st = "1"
	}
	sl := c12Spell(r, pick(), pick(), st)
	arr := &ref.Arr{E: make([]ref.V, n)}
	var str strings.Builder
	for i := 0; i < n; i++ {
		arr.E[i] = gen.IntV(int64(i))
		str.WriteString(c12Chars[r.Intn(len(c12Chars))])
	}
	doc := ref.NewObj()
	doc.Set("x", arr)
	doc.Set("s", str.String())
	goDoc := ref.ToGo(doc, ref.JSONNumber)
	// projection rule: an array slice projects, a string slice does not
	forms := []string{"x" + sl, "s" + sl, "x" + sl + "[0]", "[x, x]" + sl + "[0]", "s" + sl + ".length(@)", "x" + sl + ".to_string(@)", "(x" + sl + ")[0]", "[s]" + sl + "[0]", "x" + sl + " | [0]", "rec" + sl + ".a"}
	recs := &ref.Arr{}
	for i := 0; i < n%7; i++ {
		o := ref.NewObj()
		if i%3 != 1 {
			o.Set("a", gen.IntV(int64(i)))
		}
		recs.E = append(recs.E, o)
	}
	doc.Set("rec", recs)
	goDoc = ref.ToGo(doc, ref.JSONNumber)
	for _, f := range forms {
		m, _ := c.CheckModel("C12", f, doc, goDoc, CheckOpts{})
		if !m.Unspec {
			c.Nontrivial(f, fmt.Sprint(n), str.String())
		}
	}
}

// direct oracle (no model): the walk computed here on big.Int, compared with
// the elements the library returns for an array of distinct integers
func c12Direct(c *Ctx, idx int) {
	r := c.Rand("")
	n := r.Intn(12)
	toBig := func(s string) *big.Int {
		if s == "" {
			return nil
		}
		v, _ := new(big.Int).SetString(s, 10)
		return v
	}
	a, b, s := gen.Pick(r, c12Bounds), gen.Pick(r, c12Bounds), gen.Pick(r, c12Steps)
	if s == "0" || s == "-0" {
		s = "5"
	}
	idxs := ref.SliceIndices(n, toBig(a), toBig(b), toBig(s))
	goArr := make([]any, n)
	for i := range goArr {
		goArr[i] = fmt.Sprint("e", i)
	}
	text := "@" + c12Spell(r, a, b, s)
	l := c.LibSearch(text, goArr)
	want := make([]string, len(idxs))
	for i, j := range idxs {
		want[i] = fmt.Sprint("e", j)
	}
	got, ok := l.Res.([]any)
	bad := l.Err != nil || l.Panic != nil || !ok || len(got) != len(want)
	if !bad {
		for i := range got {
			if got[i] != want[i] {
				bad = true
			}
		}
	}
	if bad {
		c.Report(Violation{Rule: "C12/walk", Expr: text, Data: fmt.Sprintf("array e0..e%d", n-1), Got: ShowOut(l), Want: fmt.Sprint(want)})
	}
	c.Nontrivial(text, fmt.Sprint(n))
}

// c12Nested: a slice inside the right-hand side of another slice's projection
// (and beside it in multi-selects, after pipes, inside filters): the inner
// walk runs while the outer slice's elements are still being consumed.
func c12Nested(c *Ctx, idx int) {
	r := c.Rand("")
	rows, cols := 1+r.Intn(6), r.Intn(7)
	m := &ref.Arr{}
	recs := &ref.Arr{}
	cube := &ref.Arr{}
	for i := 0; i < rows; i++ {
		row := &ref.Arr{E: []ref.V{}}
		var str strings.Builder
		for j := 0; j < cols; j++ {
			row.E = append(row.E, gen.IntV(int64(10*i+j)))
			str.WriteString(c12Chars[(i+j)%len(c12Chars)])
		}
		m.E = append(m.E, row)
		o := ref.NewObj()
		o.Set("r", gen.Clone(row))
		o.Set("s", str.String())
		recs.E = append(recs.E, o)
		cube.E = append(cube.E, &ref.Arr{E: []ref.V{gen.Clone(row), gen.Clone(row)}})
	}
	doc := ref.NewObj()
	doc.Set("m", m)
	doc.Set("rs", recs)
	doc.Set("q", cube)
	goDoc := ref.ToGo(doc, ref.JSONNumber)
	sl := func() string {
		pick := func() string {
			if r.Chance(45) {
				return ""
			}
			return fmt.Sprint(r.Intn(9) - 4)
		}
		st := gen.Pick(r, []string{"", "1", "-1", "2", "-2", "3", "-3", "2", "-1"})
		return c12Spell(r, pick(), pick(), st)
	}
	a, b, d := sl(), sl(), sl()
	forms := []string{"m" + a + b, "m" + a + b + d, "rs" + a + ".r" + b, "rs" + a + ".s" + b, "m" + a + "[*]" + b, "q" + a + b + d, "q" + a + "[0]" + b,
		"m" + a + " | @" + b, "[m" + a + ", m" + b + "]", "m" + a + ".[@" + b + ", @" + d + "]", "m" + a + "[?@" + b + "]", "m[*]" + a + b, "m" + a + "[]" + b, "map(&@" + b + ", m" + a + ")", "m" + a + ".reverse(@" + b + ")", "rs" + a + ".{p: r" + b + ", q: s" + d + "}"}
	for _, f := range forms {
		m, _ := c.CheckModel("C12", f, doc, goDoc, CheckOpts{Compiled: idx%4 == 0, Features: map[string]string{"stream": "nested"}})
		if !m.Unspec {
			c.Nontrivial(f, fmt.Sprint(rows, cols))
		}
	}
}

// c12Long: arrays and strings longer than 2^16 with bounds around the 15/16/17-bit
// limits, in every syntactic position of a slice (compact node encodings and
// narrow integer fields show only when the value is long enough for the bound to matter).
var c12LongBounds = []string{"", "0", "1", "32766", "32767", "32768", "32769", "65534", "65535", "65536", "65537", "69999", "70000", "70001", "-1", "-32768", "-32769", "-65535", "-65536", "-65537", "-70000", "131071", "131072"}

var c12LongDoc *ref.Obj
var c12LongGo any

func c12LongN(c *Ctx) int { return len(c12LongBounds) * len(c12LongBounds) }

func c12Long(c *Ctx, idx int) {
	if c12LongDoc == nil {
		const n = 70000
		arr := &ref.Arr{E: make([]ref.V, n)}
		var sb strings.Builder
		for i := 0; i < n; i++ {
			arr.E[i] = gen.IntV(int64(i))
			sb.WriteString(c12Chars[i%len(c12Chars)])
		}
		c12LongDoc = ref.NewObj()
		c12LongDoc.Set("x", arr)
		c12LongDoc.Set("s", sb.String())
		c12LongDoc.Set("t", strings.Repeat("abcdefghij", n/10))
		c12LongGo = ref.ToGo(c12LongDoc, ref.JSONNumber)
	}
	a := c12LongBounds[idx%len(c12LongBounds)]
	b := c12LongBounds[idx/len(c12LongBounds)]
	sl := "[" + a + ":" + b + "]"
	probe := " | [length(@), @[0], @[-1]]"
	forms := []string{"x" + sl + probe, "x | " + sl + probe, "x | @" + sl + probe, "(x)" + sl + probe, "[x][0]" + sl + probe, "[x]" + sl + "[0]" + " | length(@)", "x[*] | " + sl + probe, "x" + "[" + a + ":" + b + ":1]" + probe, "x | [" + a + ":" + b + ":2]" + probe,
		"s" + sl + " | [length(@), @[0:1], @[-1:]]", "s | " + sl + " | [length(@), @[0:1], @[-1:]]", "t" + sl + " | [length(@), @[0:1], @[-1:]]", "t | " + sl + " | length(@)"}
	if a != "" {
		forms = append(forms, "x["+a+"]", "x | ["+a+"]", "x[*] | ["+a+"]", "length(x[?@ == `"+strings.TrimPrefix(a, "-")+"`])")
	}
	for _, f := range forms {
		m, _ := c.CheckModel("C12", f, c12LongDoc, c12LongGo, CheckOpts{Compiled: idx%5 == 0, Features: map[string]string{"stream": "long"}})
		if !m.Unspec {
			c.Nontrivial(f)
		}
	}
}

// c12Prose: strings that look like prose - runs of 20..70 single-byte characters with an occasional
// multi-byte one - sliced with every step from 1 to 80 and several starts: skipping by blocks
// of bytes goes wrong exactly where a block ends inside one of the sparse multi-byte characters.
func c12Prose(c *Ctx, idx int) {
	r := c.Rand("")
	var b strings.Builder
	total := 60 + r.Intn(300)
	for n := 0; n < total; {
		run := 20 + r.Intn(50)
		for k := 0; k < run && n < total; k++ {
			b.WriteByte("abcdefghijklmnopqrstuvwxyz ,."[r.Intn(29)])
			n++
		}
		b.WriteString(gen.Pick(r, []string{"é", "ü", "✓", "日", "𝌆", "😀", "\ufffd", "é✓"}))
		n++
	}
	doc := ref.NewObj()
	doc.Set("s", b.String())
	goDoc := ref.ToGo(doc, ref.JSONNumber)
	start := r.Intn(40)
	for step := 1; step <= 80; step++ {
		if step > 8 && (step+idx)%3 != 0 {
			continue
		}
		for _, f := range []string{fmt.Sprintf("s[%d::%d]", start, step), fmt.Sprintf("s[::%d]", step), fmt.Sprintf("s[%d:%d:%d]", start, start+3*step+1, step), fmt.Sprintf("s[::-%d]", step), fmt.Sprintf("s | [%d::%d]", start/2, step)} {
			m, _ := c.CheckModel("C12", f, doc, goDoc, CheckOpts{Features: map[string]string{"stream": "prose"}})
			if !m.Unspec {
				c.Nontrivial(f, fmt.Sprint(idx))
			}
		}
	}
}

// c12ByteHeavy: strings whose byte length and code point count fall on different sides of the
// 16-bit (and 15-/17-bit) boundaries: 21845..21846 three-byte characters (65535 / 65538 bytes), 30010
// code points in 90010 bytes, 32768 / 65535 two-byte characters, 16384 four-byte ones, and mixed text
// - sliced forwards, backwards and with steps, near the start, around byte offset 65536 and at the
// end.  Offsets kept in 16-bit (or 15-bit signed) tables wrap exactly here.
type c12Heavy struct {
	name string
	unit string
	n    int // code points
}

var c12Heavies = []c12Heavy{{"cjk-21845", "日", 21845}, {"cjk-21846", "本", 21846}, {"cjk-30000", "語", 30000}, {"two-byte-32768", "é", 32768}, {"two-byte-32769", "ü", 32769}, {"two-byte-65535", "é", 65535},
	{"four-byte-16384", "𝌆", 16384}, {"four-byte-16385", "😀", 16385}, {"mixed-40000", "a日é𝌆b", 40000}, {"mixed-65535", "日a", 65535}, {"cjk-10923", "日", 10923}, {"cjk-43691", "日", 43691}, {"ascii-65537", "abcdefg", 65537}}

var c12HeavyDocs = map[int]*ref.Obj{}

func c12ByteHeavyN(c *Ctx) int { return len(c12Heavies) * 4 }

func c12ByteHeavy(c *Ctx, idx int) {
	h := c12Heavies[idx%len(c12Heavies)]
	part := idx / len(c12Heavies)
	doc := c12HeavyDocs[idx%len(c12Heavies)]
	if doc == nil {
		unit := []rune(h.unit)
		var b strings.Builder
		b.WriteString("start-")
		for i := 0; i < h.n; i++ {
			b.WriteRune(unit[i%len(unit)])
		}
		b.WriteString("-end")
		doc = ref.NewObj()
		doc.Set("s", b.String())
		c12HeavyDocs[idx%len(c12Heavies)] = doc
	}
	goDoc := ref.ToGo(doc, ref.JSONNumber)
	n := h.n + 10
	var forms []string
	switch part {
	case 0:
		forms = []string{"s[::-1] | [@[:8], @[-8:], length(@)]", "s[-1:-8:-1]", "s[::-7] | [@[:5], @[-5:], length(@)]", "s[:-3:-1]", "s[::-1][::-1] == s", fmt.Sprintf("s[%d:%d:-3]", n-20, n-40), fmt.Sprintf("s[%d::-1000]", n-1)}
	case 1:
		forms = []string{"s[-8:]", "s[-8:-2]", fmt.Sprintf("s[%d:]", n-5), fmt.Sprintf("s[%d:%d]", n/2, n/2+9), fmt.Sprintf("s[%d:%d]", n-30, n-21), "s[:9]", "s[3:12]", "length(s)", "s[:-1] | length(@)", "reverse(s)[:8]", "s | [-4:]"}
	case 2:
		forms = []string{"s[::2] | [@[:5], @[-5:], length(@)]", "s[1::3] | [@[-5:], length(@)]", fmt.Sprintf("s[%d::7]", n-50), fmt.Sprintf("s[%d:%d:2]", n*3/4, n*3/4+20), "s[::1000]", "s[::-1000]", fmt.Sprintf("s[::%d]", n-1), "s[5::16384]", "s[::-16385]"}
	default:
		// around the code points whose byte offsets are 32768, 65536 and 131072
		for _, off := range []int{32768, 65536, 131072} {
			k := 6 + (off-6)/len(h.unit)*len([]rune(h.unit))
			if k+12 >= n || k < 12 {
				continue
			}
			forms = append(forms, fmt.Sprintf("s[%d:%d]", k-6, k+6), fmt.Sprintf("s[%d:%d:-1]", k+6, k-6), fmt.Sprintf("s[%d:%d:2]", k-8, k+8), fmt.Sprintf("s[:%d] | [@[-6:], length(@)]", k+1), fmt.Sprintf("s[%d:] | [@[:6], length(@)]", k-1), fmt.Sprintf("s[:%d][-3:]", k+3), fmt.Sprintf("s[:%d][:-3] | length(@)", k+3), fmt.Sprintf("find_first(s, '-end', `%d`)", k), fmt.Sprintf("find_last(s, 'start', `0`, `%d`)", k))
		}
	}
	for _, f := range forms {
		m, _ := c.CheckModel("C12", f, doc, goDoc, CheckOpts{Features: map[string]string{"stream": "byte-heavy", "subject": h.name}})
		if !m.Unspec {
			c.Nontrivial(f, h.name)
		}
	}
}

// c12Periodic: long strings made by repeating a short unit of characters of different widths, so
// that the byte length is an exact multiple (2x, 3x) of the code point count although the characters
// are not all of that width - and the same strings with one more character, where it is not.  Any
// shortcut that infers "fixed width" from the two lengths jumps into the middle of characters.
var c12Units = []string{"日本語abc", "😀é", "éa€é", "a€", "é𝌆", "ab𝌆é", "aé", "€", "é", "𝌆", "a", "a𝌆aé€é", "𝌆𝌆a", "€a"}

var c12PeriodLens = []int{64, 255, 256, 257, 300, 512, 1000, 1024, 4096}

func c12PeriodicN(c *Ctx) int { return len(c12Units) * len(c12PeriodLens) * 2 }

func c12Periodic(c *Ctx, idx int) {
	unit := []rune(c12Units[idx%len(c12Units)])
	idx /= len(c12Units)
	n := c12PeriodLens[idx%len(c12PeriodLens)]
	idx /= len(c12PeriodLens)
	var b strings.Builder
	for i := 0; i < n; i++ {
		b.WriteRune(unit[i%len(unit)])
	}
	if idx == 1 {
		b.WriteString("z")
		n++
	}
	doc := ref.NewObj()
	doc.Set("s", b.String())
	goDoc := ref.ToGo(doc, ref.JSONNumber)
	for _, f := range []string{"s[::2]", "s[::3]", "s[1::5]", "s[::7]", "s[::-1]", "s[::-2]", "s[-2:-30:-5]", "s[5::100]", "s[1:40:7]", fmt.Sprintf("s[%d::-3]", n/2), fmt.Sprintf("s[%d:%d:2]", n/3, n/3+20), fmt.Sprintf("s[::%d]", n-1), fmt.Sprintf("s[::%d]", n/2), "s[3:9]", "s[-7:]", "s | [::4]", "[s][0][::6]"} {
		m, _ := c.CheckModel("C12", f, doc, goDoc, CheckOpts{Features: map[string]string{"stream": "periodic", "unit": string(unit), "code_points": fmt.Sprint(n)}})
		if !m.Unspec {
			c.Nontrivial(f, string(unit), fmt.Sprint(n))
		}
	}
}

func init() {
	Register(&Property{
		ID:            "C12",
		Rule:          "x[start:stop:step] on arrays [0..n-1] and on strings of n mixed-width code points and of n single-byte characters (also as a bare slice of the current node after a pipe): exhaustive lattice n in 0..7 x start,stop in {absent, -9..9, +-2^62, 2^63-1, -2^63, -2^63+1} x step in {absent, +-1,2,3,7,8, 2^63-1, -2^63, -2^63+1, 2^62, 0, -0}, every spelling of absent parts; seeded n <= 300 with random 64-bit parameters plus the projection rule (array slice projects, string slice does not); prose stream: strings of 60-360 characters made of runs of 20-70 single-byte characters separated by single multi-byte ones, sliced with every step 1..80 from several starts; long stream: a 70000-element array and 70000-character strings (mixed-width and single-byte) with every pair of bounds from {absent, 0, 1, 2^15-1..2^15+1, 2^16-2..2^16+1, 69999..70001, their negatives, 2^17-1, 2^17} in every syntactic position of a slice or index; nested stream: slices inside the right-hand side of another slice's projection, beside it in multi-selects, after pipes/flatten, inside filters and expression references, over 2-D/3-D arrays and records of arrays and strings; compared with the specification's slice algorithm on big integers (model and a second direct oracle); non-trivial = model decides; distinct by (carrier, slice text, n); periodic stream: strings of 64..4096 code points made of 14 repeated mixed-width units whose byte length is an exact multiple of the code point count, and the same plus one character, under 17 slices; byte-heavy stream: 13 subjects whose byte length and code point count fall on different sides of 2^15 / 2^16 / 2^17 (21845..43691 three-byte, 32768..65535 two-byte, 16384 four-byte characters, mixed) sliced backwards, forwards, stepped, near both ends and around byte offsets 32768 / 65536 / 131072; padded-bounds stream: 1..5000 leading zeros in 22 index / slice forms; paging stream: arrays of 3..9 elements with nulls in 40 patterns x skip 0..4 x take 0..4 x 18 spellings of two slices in a row (pipes, chains, parentheses, lets, projections of fields)",
		MinNontrivial: 5000,
		Streams: []Stream{
			{Name: "lattice", N: c12LatticeN, Run: c12Lattice, Exhaustive: true},
			{Name: "random", N: func(c *Ctx) int { return tierN(c, 20000, 4000000) }, Run: c12Random},
			{Name: "nested", N: func(c *Ctx) int { return tierN(c, 3000, 200000) }, Run: c12Nested},
			{Name: "prose", N: func(c *Ctx) int { return tierN(c, 600, 60000) }, Run: c12Prose},
			{Name: "long", N: c12LongN, Run: c12Long, Exhaustive: true},
			{Name: "periodic", N: c12PeriodicN, Run: c12Periodic, Exhaustive: true},
			{Name: "byte-heavy", N: c12ByteHeavyN, Run: c12ByteHeavy, Exhaustive: true},
			{Name: "padded-bounds", N: c12PaddedN, Run: c12Padded, Exhaustive: true},
			{Name: "paging", N: c12PagingN, Run: c12Paging, Exhaustive: true},
			{Name: "direct", N: func(c *Ctx) int { return tierN(c, 40000, 8000000) }, Run: c12Direct},
		},
	})
}

// c12Padded: integer literals written with leading zeros (the grammar's number is ["-"] 1*digit, so
// 007 is 7) in every position of an index and a slice, with 1..1000 zeros: length caps, octal
// readings and buffers sized for "the longest integer" all hide here.  Model and direct oracle agree
// that the value is what counts.
var c12PadZeros = []int{1, 2, 3, 7, 15, 16, 17, 18, 19, 20, 21, 30, 31, 32, 33, 34, 62, 63, 64, 65, 100, 127, 128, 129, 255, 256, 257, 1000, 5000}

func c12PaddedN(c *Ctx) int { return len(c12PadZeros) }

func c12Padded(c *Ctx, idx int) {
	z := strings.Repeat("0", c12PadZeros[idx])
	doc, _ := ref.FromJSON(`{"a":[0,1,2,3,4,5,6,7,8,9,10,11],"s":"abcdéfghij𝌆k"}`)
	goDoc := ref.ToGo(doc, ref.JSONNumber)
	for _, f := range []string{"a[" + z + "1:7:2]", "a[1:" + z + "7:2]", "a[1:7:" + z + "2]", "a[-" + z + "3:]", "a[:-" + z + "2]", "a[::-" + z + "1]", "s[::-" + z + "1]", "s[" + z + "2:" + z + "5]", "a[" + z + "3]", "a[-" + z + "1]", "a | [" + z + "0]",
		"a[" + z + "]", "a[::" + z + "]", "a[" + z + ":" + z + ":" + z + "1]", "a[*] | [" + z + "2:]", "s[" + z + "9223372036854775807:]", "a[-" + z + "9223372036854775808:" + z + "4]", "a[" + z + "18446744073709551616]", "[a][" + z + "0][" + z + "1]",
		"find_first(s, 'd', `" + "3`) == a[" + z + "3]", "a[?@ > `" + "2`][" + z + "1]", "a[" + z + "1:][" + z + "1:] | [" + z + "0]"} {
		m, _ := c.CheckModel("C12", f, doc, goDoc, CheckOpts{Compiled: idx%2 == 0, Features: map[string]string{"stream": "padded-bounds", "zeros": fmt.Sprint(len(z))}})
		if !m.Unspec {
			c.Nontrivial(f)
		}
	}
}

// c12Paging: two slices in a row over arrays that contain nulls.  A slice of an array is a
// projection: x[a:] drops the nulls it selected before the next stage sees the array, so
// x[a:] | [:k] is not x[a:a+k] when a null lies inside the window.  Arrays of 0..9 elements with
// nulls at every position pattern, skip 0..4, take 0..4, in every spelling of the two stages
// (exhaustive), against the model.
func c12PagingN(c *Ctx) int { return 40 * 5 * 5 }

func c12Paging(c *Ctx, idx int) {
	pat := idx % 40
	skip := idx / 40 % 5
	take := idx / 200
	n := 3 + pat%7
	arr := &ref.Arr{}
	recs := &ref.Arr{}
	for i := 0; i < n; i++ {
		if (pat*7+i*i+i/2)%3 == 0 || (pat >= 30 && i%2 == 1) {
			arr.E = append(arr.E, nil)
			recs.E = append(recs.E, nil)
			continue
		}
		arr.E = append(arr.E, fmt.Sprintf("r%d", i))
		o := ref.NewObj()
		o.Set("k", fmt.Sprintf("k%d", i))
		if i%4 != 1 {
			o.Set("v", gen.IntV(int64(i)))
		}
		recs.E = append(recs.E, o)
	}
	doc := ref.NewObj()
	doc.Set("x", arr)
	doc.Set("rs", recs)
	goDoc := ref.ToGo(doc, ref.JSONNumber)
	s, t := fmt.Sprint(skip), fmt.Sprint(take)
	for _, f := range []string{"x[" + s + ":] | [:" + t + "]", "x[" + s + ":][:" + t + "]", "(x[" + s + ":])[:" + t + "]", "x | [" + s + ":] | [:" + t + "]", "rs[" + s + ":] | [:" + t + "].k", "rs[" + s + ":] | [:" + t + "].v", "x[:" + t + "] | [" + s + ":]", "x[" + s + ":" + fmt.Sprint(skip+take) + "]",
		"x[" + s + ":] | [" + t + "]", "x[::2] | [:" + t + "]", "x[" + s + ":] | [-" + fmt.Sprint(take+1) + ":]", "x[" + s + ":] | [:" + t + "] | length(@)", "rs[" + s + ":].v | [:" + t + "]", "x[" + s + ":] | [::-1] | [:" + t + "]", "let $p = x[" + s + ":] in $p[:" + t + "]", "x[*] | [" + s + ":] | [:" + t + "]", "x[" + s + ":] | [" + s + ":] | [:" + t + "]", "x[-" + fmt.Sprint(skip+1) + ":] | [:" + t + "]"} {
		m, _ := c.CheckModel("C12", f, doc, goDoc, CheckOpts{Compiled: idx%4 == 0, Features: map[string]string{"stream": "paging"}})
		if !m.Unspec {
			c.Nontrivial(f, fmt.Sprint(pat))
		}
	}
}
