package mon

import (
	"fmt"
	"math/big"
	"strings"

	"verif/harness/gen"
	"verif/harness/ref"
)

// lattice values for start/stop ("" = absent)
var c12Bounds = func() []string {
	out := []string{""}
	for i := -9; i <= 9; i++ {
		out = append(out, fmt.Sprint(i))
	}
	return append(out, "4611686018427387904", "-4611686018427387904", "9223372036854775807", "-9223372036854775808", "-9223372036854775807")
}()

var c12Steps = []string{"", "1", "-1", "2", "-2", "3", "-3", "7", "-7", "8", "-8", "9223372036854775807", "-9223372036854775808", "-9223372036854775807", "4611686018427387904", "0", "-0"}

var c12Chars = []string{"a", "é", "𝌆", "\ufffd", "✓", "c", "ü"}

func c12LatticeN(c *Ctx) int { return 8 * len(c12Bounds) * len(c12Bounds) * len(c12Steps) }

func c12Spell(r *gen.R, a, b, s string) string {
	if s == "" {
		if r.Chance(50) {
			return "[" + a + ":" + b + "]"
		}
		return "[" + a + ":" + b + ":]"
	}
	return "[" + a + ":" + b + ":" + s + "]"
}

func c12Lattice(c *Ctx, idx int) {
	n := idx % 8
	idx /= 8
	a := c12Bounds[idx%len(c12Bounds)]
	idx /= len(c12Bounds)
	b := c12Bounds[idx%len(c12Bounds)]
	idx /= len(c12Bounds)
	s := c12Steps[idx]
	r := c.Rand("")
	sl := c12Spell(r, a, b, s)
	arr := &ref.Arr{E: make([]ref.V, n)}
	var str strings.Builder
	for i := 0; i < n; i++ {
		arr.E[i] = gen.IntV(int64(i))
		str.WriteString(c12Chars[i])
	}
	doc := ref.NewObj()
	doc.Set("x", arr)
	doc.Set("s", str.String())
	goDoc := ref.ToGo(doc, ref.JSONNumber)
	feats := map[string]string{"n": fmt.Sprint(n)}
	m1, _ := c.CheckModel("C12", "x"+sl, doc, goDoc, CheckOpts{Features: feats})
	m2, _ := c.CheckModel("C12", "s"+sl, doc, goDoc, CheckOpts{Features: feats})
	if !m1.Unspec {
		c.Nontrivial("x", sl, fmt.Sprint(n))
	}
	if !m2.Unspec {
		c.Nontrivial("s", sl, fmt.Sprint(n))
	}
	if idx%5 == 0 && n == 5 {
		c.Sample(map[string]any{"expr": "x" + sl, "n": n, "model": m1.String(), "string_carrier": "s" + sl, "model_string": m2.String()})
	}
}

func c12Random(c *Ctx, idx int) {
	r := c.Rand("")
	n := r.Intn(300)
	pick := func() string {
		switch r.Intn(6) {
		case 0:
			return ""
		case 1:
			return fmt.Sprint(r.Intn(2*n+3) - n - 1)
		case 2:
			return fmt.Sprint(int64(r.Uint64()))
		case 3:
			return fmt.Sprint(r.Intn(7) - 3)
		}
		return fmt.Sprint(r.Intn(n+2) - 1)
	}
	st := ""
	switch r.Intn(4) {
	case 1:
		st = fmt.Sprint(r.Intn(13) - 6)
	case 2:
		st = fmt.Sprint(int64(r.Uint64()))
	case 3:
		st = fmt.Sprint(r.Intn(n+2) - n/2)
	}
	if st == "0" && r.Chance(80) {
		st = "1"
	}
	sl := c12Spell(r, pick(), pick(), st)
	arr := &ref.Arr{E: make([]ref.V, n)}
	var str strings.Builder
	for i := 0; i < n; i++ {
		arr.E[i] = gen.IntV(int64(i))
		str.WriteString(c12Chars[r.Intn(len(c12Chars))])
	}
	doc := ref.NewObj()
	doc.Set("x", arr)
	doc.Set("s", str.String())
	goDoc := ref.ToGo(doc, ref.JSONNumber)
	// projection rule: an array slice projects, a string slice does not
	forms := []string{"x" + sl, "s" + sl, "x" + sl + "[0]", "[x, x]" + sl + "[0]", "s" + sl + ".length(@)", "x" + sl + ".to_string(@)", "(x" + sl + ")[0]", "[s]" + sl + "[0]", "x" + sl + " | [0]", "rec" + sl + ".a"}
	recs := &ref.Arr{}
	for i := 0; i < n%7; i++ {
		o := ref.NewObj()
		if i%3 != 1 {
			o.Set("a", gen.IntV(int64(i)))
		}
		recs.E = append(recs.E, o)
	}
	doc.Set("rec", recs)
	goDoc = ref.ToGo(doc, ref.JSONNumber)
	for _, f := range forms {
		m, _ := c.CheckModel("C12", f, doc, goDoc, CheckOpts{})
		if !m.Unspec {
			c.Nontrivial(f, fmt.Sprint(n), str.String())
		}
	}
}

// direct oracle (no model): the walk computed here on big.Int, compared with
// the elements the library returns for an array of distinct integers
func c12Direct(c *Ctx, idx int) {
	r := c.Rand("")
	n := r.Intn(12)
	toBig := func(s string) *big.Int {
		if s == "" {
			return nil
		}
		v, _ := new(big.Int).SetString(s, 10)
		return v
	}
	a, b, s := gen.Pick(r, c12Bounds), gen.Pick(r, c12Bounds), gen.Pick(r, c12Steps)
	if s == "0" || s == "-0" {
		s = "5"
	}
	idxs := ref.SliceIndices(n, toBig(a), toBig(b), toBig(s))
	goArr := make([]any, n)
	for i := range goArr {
		goArr[i] = fmt.Sprint("e", i)
	}
	text := "@" + c12Spell(r, a, b, s)
	l := c.LibSearch(text, goArr)
	want := make([]string, len(idxs))
	for i, j := range idxs {
		want[i] = fmt.Sprint("e", j)
	}
	got, ok := l.Res.([]any)
	bad := l.Err != nil || l.Panic != nil || !ok || len(got) != len(want)
	if !bad {
		for i := range got {
			if got[i] != want[i] {
				bad = true
			}
		}
	}
	if bad {
		c.Report(Violation{Rule: "C12/walk", Expr: text, Data: fmt.Sprintf("array e0..e%d", n-1), Got: ShowOut(l), Want: fmt.Sprint(want)})
	}
	c.Nontrivial(text, fmt.Sprint(n))
}

func init() {
	Register(&Property{
		ID:            "C12",
		Rule:          "x[start:stop:step] on arrays [0..n-1] and on strings of n mixed-width code points: exhaustive lattice n in 0..7 x start,stop in {absent, -9..9, +-2^62, 2^63-1, -2^63, -2^63+1} x step in {absent, +-1,2,3,7,8, 2^63-1, -2^63, -2^63+1, 2^62, 0, -0}, every spelling of absent parts; seeded n <= 300 with random 64-bit parameters plus the projection rule (array slice projects, string slice does not); compared with the specification's slice algorithm on big integers (model and a second direct oracle); non-trivial = model decides; distinct by (carrier, slice text, n)",
		MinNontrivial: 5000,
		Streams: []Stream{
			{Name: "lattice", N: c12LatticeN, Run: c12Lattice, Exhaustive: true},
			{Name: "random", N: func(c *Ctx) int { return tierN(c, 20000, 1500000) }, Run: c12Random},
			{Name: "direct", N: func(c *Ctx) int { return tierN(c, 40000, 3000000) }, Run: c12Direct},
		},
	})
}
