package mon

import (
	"fmt"
	"strings"

	"hash/adler32"
	"hash/crc32"
	"hash/fnv"
	"strconv"
	"sync"
	"verif/harness/ref"
)

// Hash-hostile names: pairs (and triples) of distinct identifiers that collide under the 32-bit
// string hashes an implementation is likely to reach for (FNV-1/FNV-1a, CRC-32, Adler-32, djb2,
// sdbm, the 31-multiplier hash, one-at-a-time, murmur3, 64-bit FNV folded to 32 bits).  A table
// keyed by such a hash that compares the hash but not (or not always) the name confuses exactly
// these names and no others; random names collide with probability 2^-32 per pair.  The pairs are
// found by a birthday search at start-up (about 10^5 hashes per function) and are the same in every
// run.  64-bit hashes are out of reach of this (2^32 hashes per pair) - see DESIGN section 8.

type hashFn struct {
	name string
	f    func(string) uint32
}

func fnv1a64fold(s string) uint32 {
	h := fnv.New64a()
	h.Write([]byte(s))
	v := h.Sum64()
	return uint32(v) ^ uint32(v>>32)
}

func murmur3(s string) uint32 {
	const c1, c2 = 0xcc9e2d51, 0x1b873593
	var h uint32
	b := []byte(s)
	n := len(b) / 4
	for i := 0; i < n; i++ {
		k := uint32(b[4*i]) | uint32(b[4*i+1])<<8 | uint32(b[4*i+2])<<16 | uint32(b[4*i+3])<<24
		k *= c1
		k = k<<15 | k>>17
		k *= c2
		h ^= k
		h = h<<13 | h>>19
		h = h*5 + 0xe6546b64
	}
	var k uint32
	t := b[4*n:]
	switch len(t) {
	case 3:
		k ^= uint32(t[2]) << 16
		fallthrough
	case 2:
		k ^= uint32(t[1]) << 8
		fallthrough
	case 1:
		k ^= uint32(t[0])
		k *= c1
		k = k<<15 | k>>17
		k *= c2
		h ^= k
	}
	h ^= uint32(len(b))
	h ^= h >> 16
	h *= 0x85ebca6b
	h ^= h >> 13
	h *= 0xc2b2ae35
	h ^= h >> 16
	return h
}

var castagnoli = crc32.MakeTable(crc32.Castagnoli)

var hashFns = []hashFn{
	{"fnv1a-32", func(s string) uint32 { h := fnv.New32a(); h.Write([]byte(s)); return h.Sum32() }},
	{"fnv1-32", func(s string) uint32 { h := fnv.New32(); h.Write([]byte(s)); return h.Sum32() }},
	{"crc32-ieee", func(s string) uint32 { return crc32.ChecksumIEEE([]byte(s)) }},
	{"crc32-castagnoli", func(s string) uint32 { return crc32.Checksum([]byte(s), castagnoli) }},
	{"adler32", func(s string) uint32 { return adler32.Checksum([]byte(s)) }},
	{"djb2", func(s string) uint32 {
		h := uint32(5381)
		for i := 0; i < len(s); i++ {
			h = h*33 + uint32(s[i])
		}
		return h
	}},
	{"djb2-xor", func(s string) uint32 {
		h := uint32(5381)
		for i := 0; i < len(s); i++ {
			h = h*33 ^ uint32(s[i])
		}
		return h
	}},
	{"sdbm", func(s string) uint32 {
		var h uint32
		for i := 0; i < len(s); i++ {
			h = uint32(s[i]) + h<<6 + h<<16 - h
		}
		return h
	}},
	{"times31", func(s string) uint32 {
		var h uint32
		for i := 0; i < len(s); i++ {
			h = h*31 + uint32(s[i])
		}
		return h
	}},
	{"one-at-a-time", func(s string) uint32 {
		var h uint32
		for i := 0; i < len(s); i++ {
			h += uint32(s[i])
			h += h << 10
			h ^= h >> 6
		}
		h += h << 3
		h ^= h >> 11
		h += h << 15
		return h
	}},
	{"murmur3-32", murmur3},
	{"fnv1a-64-folded", fnv1a64fold},
}

// HashPair is two distinct names with the same hash under the named function; Dollar says whether
// the hash was taken over the name with its leading '$'.
type HashPair struct {
	Fn     string
	A, B   string
	Dollar bool
}

var (
	hashPairsOnce sync.Once
	hashPairs     []HashPair
)

// HashPairs returns, for every hash function, three colliding pairs of bare names and three pairs
// that collide when hashed with a leading '$' (variable spellings).
func HashPairs() []HashPair {
	hashPairsOnce.Do(func() {
		for _, hf := range hashFns {
			for _, dollar := range []bool{false, true} {
				seen := make(map[uint32]string, 1<<18)
				found := 0
				for i := 0; found < 3 && i < 3_000_000; i++ {
					name := "v" + strconv.FormatInt(int64(i)*7919+12345, 36)
					key := name
					if dollar {
						key = "$" + name
					}
					h := hf.f(key)
					if prev, ok := seen[h]; ok && prev != name {
						hashPairs = append(hashPairs, HashPair{Fn: hf.name, A: prev, B: name, Dollar: dollar})
						found++
						continue
					}
					seen[h] = name
				}
			}
		}
	})
	return hashPairs
}

var hashShapes = []string{
	"let $%A = 'first', $%B = 'second' in [$%A, $%B]",
	"let $%B = 'second', $%A = 'first' in [$%A, $%B]",
	"let $%B = 'outer' in let $%A = 'x', $%B = 'inner' in $%B",
	"let $%A = 'outer' in let $%A = 'inner', $%B = 'x' in [$%A, $%B]",
	"let $%A = 'o' in let $%B = 'i' in [$%A, $%B]",
	"let $%B = 'o' in let $%A = 'i' in [$%A, $%B]",
	"let $%A = %A, $%B = %B in xs[*].[$%A, $%B, n]",
	"xs[*].[let $%A = n, $%B = id in [$%B, $%A]]",
	"let $%A = 'a' in [$%A, let $%B = 'b' in $%B, $%A]",
	"let $%A = 'a' in $%B",
	"let $%B = 'b' in $%A",
	"let $%A = 'a' in let $%B = 'b' in let $%A = 'c' in [$%A, $%B]",
	"map(&(let $%A = n, $%B = id in {%A: $%A, %B: $%B}), xs)",
	"sort_by(xs, &(let $%A = n, $%B = `-1` in $%A * $%B))[*].id",
	"{%A: 'x', %B: 'y'}.%B",
	"{%A: 'x', %B: 'y'}.%A",
	"{%A: 'x', %B: 'y'} | [%A, %B]",
	"[%A, %B]",
	"@.%B",
	"[\"%A\", \"%B\"]",
	"merge({%A: `1`}, {%B: `2`})",
	"merge({%A: `1`, %B: `2`}, {%A: `3`}).%B",
	"merge(@, {%B: `9`}) | [%A, %B]",
	"`{\"%A\":1,\"%B\":2}`.%B",
	"sort(keys(`{\"%A\":1,\"%B\":2}`))",
	"from_items(`[[\"%A\",1],[\"%B\",2]]`).%B",
	"from_items(items(@)).%B",
	"group_by(`[{\"g\":\"%A\"},{\"g\":\"%B\"},{\"g\":\"%A\"}]`, &g).%B | length(@)",
	"`[\"%A\",\"%B\"]` | [contains(@, '%B'), @[0] == @[1], sort(@)[0] == min(@)]",
	"'%A' == '%B'",
	"{%A: `1`} == {%B: `1`}",
	"`{\"%A\":1,\"%B\":2}` == `{\"%B\":2,\"%A\":1}`",
	"%B(@)",
	"length(keys(@))",
}

func hashNamesN() int { return len(HashPairs()) * len(hashShapes) }

// hashNamesRun: one shape with the two colliding names substituted (as variables, identifiers, object
// keys, string values and a function name), compared with the model.
func hashNamesRun(prop string) func(c *Ctx, idx int) {
	return func(c *Ctx, idx int) {
		pairs := HashPairs()
		p := pairs[idx%len(pairs)]
		shape := hashShapes[idx/len(pairs)]
		text := strings.ReplaceAll(strings.ReplaceAll(shape, "%A", p.A), "%B", p.B)
		doc, err := ref.FromJSON(`{"` + p.A + `":1,"` + p.B + `":2,"xs":[{"n":2,"id":"x0"},{"n":3,"id":"x1"},{"n":1,"id":"x2"}]}`)
		if err != nil {
			panic(err)
		}
		m, _ := c.CheckModel(prop, text, doc, ref.ToGo(doc, ref.JSONNumber), CheckOpts{Compiled: idx%2 == 0, Features: map[string]string{"stream": "hash-hostile-names", "hash": p.Fn}})
		if !m.Unspec {
			c.Nontrivial(text)
			if idx%len(pairs) < 2 {
				c.Sample(map[string]any{"expr": text, "hash": p.Fn, "model": clipS(m.String(), 120)})
			}
		}
	}
}

var wideLetSizes = []int{100, 5000, 70000, 200000}

// wideLetRun: one let that binds n distinct names and reads every one of them back; with 200000 names
// any 32-bit hash of the names has a few colliding pairs among them (n^2 / 2^33 = 4.6 expected), with
// 70000 names any 31-bit one, whatever the hash function is.
func wideLetRun(prop string) func(c *Ctx, idx int) {
	return func(c *Ctx, idx int) {
		n := wideLetSizes[idx]
		if n > 70000 && c.Tier != "thorough" && prop != "C19" {
			return
		}
		var b strings.Builder
		b.WriteString("let ")
		for i := 0; i < n; i++ {
			if i > 0 {
				b.WriteString(", ")
			}
			b.WriteString("$w" + strconv.FormatInt(int64(i)*104729+99, 36) + " = `" + strconv.Itoa(i) + "`")
		}
		b.WriteString(" in [")
		for i := 0; i < n; i++ {
			if i > 0 {
				b.WriteString(", ")
			}
			b.WriteString("$w" + strconv.FormatInt(int64(i)*104729+99, 36))
		}
		b.WriteString("]")
		text := b.String()
		l := c.LibSearch(text, nil)
		ok := l.Err == nil && l.Panic == nil
		var a *ref.Arr
		if ok {
			a, ok = l.M.(*ref.Arr)
			ok = ok && len(a.E) == n
		}
		bad := -1
		if ok {
			for i, e := range a.E {
				x, isNum := e.(ref.Num)
				if !isNum || !x.R.IsInt() || x.R.Num().Int64() != int64(i) {
					bad = i
					break
				}
			}
		}
		if !ok || bad >= 0 {
			c.Report(Violation{Rule: prop + "/wide-let", Expr: clipS(text, 200), Got: clipS(ShowOut(l), 300), Want: fmt.Sprintf("[0, 1, ..., %d] (first wrong element: %d)", n-1, bad), Features: map[string]string{"stream": "wide-let", "names": fmt.Sprint(n)}})
		}
		c.Nontrivial("wide-let", fmt.Sprint(n))
		c.Sample(map[string]any{"names_bound_and_read": n})
	}
}
