package mon

import (
	"encoding/json"
	"fmt"
	"sort"
	"strings"

	"verif/harness/gen"
	"verif/harness/ref"
)

// Equality must depend on values only, never on how the Go data is laid out in memory.  Two streams
// (registered for C20, the first also for C01):
//
// deep-shared: the same deep container reached twice inside one operand - [a, a] == [b, b],
// {x: a, y: a} == {x: b, y: b}, a let variable used twice - for containers nested 10..5000 levels
// (both sides of 1000, where cycle detectors modelled on encoding/json switch on).  a and b are
// equal trees, c differs from them at the very bottom: the answers are constants (direct oracle).
//
// shared-backing: documents built in Go whose arrays are sub-slices of one backing array (prefix
// snapshots of an append-only log, windows over a buffer) and whose objects are one map reached by
// several paths.  Every comparison must give the same answer on such a document and on a deep copy of
// it in which nothing is shared (library against itself).

var deepSharedDepths = []int{10, 500, 999, 1000, 1001, 1002, 1200, 2000, 5000, 9999, 10000, 10001, 10002, 20000, 49999, 50001, 70000}

func deepNest(n int, leaf string, obj bool) any {
	if n > 5000 {
		// built directly (encoding/json stops at 10000 levels)
		var lv any
		d := json.NewDecoder(strings.NewReader(leaf))
		d.UseNumber()
		if err := d.Decode(&lv); err != nil {
			panic(err)
		}
		v := lv
		for i := n - 1; i >= 0; i-- {
			if obj && i%2 == 1 {
				v = map[string]any{"k": v}
			} else {
				v = []any{v}
			}
		}
		return v
	}
	var b strings.Builder
	for i := 0; i < n; i++ {
		if obj && i%2 == 1 {
			b.WriteString(`{"k":`)
		} else {
			b.WriteString("[")
		}
	}
	b.WriteString(leaf)
	for i := n - 1; i >= 0; i-- {
		if obj && i%2 == 1 {
			b.WriteString("}")
		} else {
			b.WriteString("]")
		}
	}
	var v any
	d := json.NewDecoder(strings.NewReader(b.String()))
	d.UseNumber()
	if err := d.Decode(&v); err != nil {
		panic(err)
	}
	return v
}

func deepSharedN(c *Ctx) int { return len(deepSharedDepths) * 2 }

func deepSharedRun(prop string) func(c *Ctx, idx int) {
	return func(c *Ctx, idx int) {
		n := deepSharedDepths[idx%len(deepSharedDepths)]
		obj := idx/len(deepSharedDepths) == 1
		doc := map[string]any{"a": deepNest(n, "1", obj), "b": deepNest(n, "1", obj), "c": deepNest(n, "2", obj)}
		shared := deepNest(n, "1", obj)
		doc["l"] = deepNest(n, `{"id":"x","left":null}`, obj)
		doc["r"] = deepNest(n, `{"id":"x","right":null}`, obj)
		doc["l2"] = deepNest(n, `{"id":"x","left":null}`, obj)
		doc["m"] = deepNest(n, `{"id":"x"}`, obj)
		doc["g"] = []any{shared, shared}
		doc["h"] = []any{deepNest(n, "1", obj), deepNest(n, "1", obj)}
		type q struct{ expr, want string }
		qs := []q{
			{"a == b", "true"}, {"a == c", "false"}, {"a != c", "true"}, {"[a, a] == [b, b]", "true"}, {"[a, a] == [a, a]", "true"}, {"[a, a] != [a, a]", "false"}, {"[a, a] == [b, c]", "false"}, {"[a, a] == [c, b]", "false"},
			{"{x: a, y: a} == {x: b, y: b}", "true"}, {"{x: a, y: a} == {y: b, x: c}", "false"}, {"let $v = a in [$v, $v] == [b, b]", "true"}, {"let $v = a in [$v, $v, $v] == [b, b, c]", "false"},
			{"[[a, a]][?@ == [$.b, $.b]] | length(@)", "1"}, {"contains([[a, a]], [b, b])", "true"}, {"contains([[a, a]], [b, c])", "false"}, {"[a, b, a] == [b, a, b]", "true"}, {"[a, [a, a]] == [b, [b, b]]", "true"},
			{"g == h", "true"}, {"h == g", "true"}, {"g != h", "false"}, {"g == [a, c]", "false"}, {"contains([g], h)", "true"}, {"[g, g] == [h, h]", "true"}, {"g[0] == g[1]", "true"},
			{"l == r", "false"}, {"r == l", "false"}, {"l != r", "true"}, {"l == l2", "true"}, {"contains([l], r)", "false"}, {"contains([l], l2)", "true"}, {"l == m", "false"}, {"m == l", "false"}, {"[l, r] == [r, l]", "false"}, {"[l, l2] == [l2, l]", "true"},
			{"[a, a][0] == [a, a][1]", "true"}, {"([a, a] | @[0]) == a", "true"}, {"[a, a] == `[1, 1]`", "false"}, {"zip([a], [a]) == zip([b], [b])", "true"}, {"[a, a] | @ == @", "true"},
		}
		for _, x := range qs {
			l := c.LibSearch(x.expr, doc)
			got := strings.ReplaceAll(ShowOut(l), " ", "")
			if l.Panic != nil || l.Err != nil || got != x.want {
				c.Report(Violation{Rule: prop + "/deep-shared", Expr: x.expr, Data: fmt.Sprintf("a, b: %d nested containers around 1 (equal trees); c: around 2; g = [s, s] with one shared container, h = two equal trees", n), Got: clipS(ShowOut(l), 200), Want: x.want, Features: map[string]string{"stream": "deep-shared", "depth": fmt.Sprint(n)}})
			}
			c.Nontrivial(x.expr, fmt.Sprint(n), fmt.Sprint(obj))
		}
	}
}

// deepCopyAny copies maps and slices so that nothing is shared.
func deepCopyAny(v any) any {
	switch x := v.(type) {
	case []any:
		out := make([]any, len(x))
		for i, e := range x {
			out[i] = deepCopyAny(e)
		}
		return out
	case map[string]any:
		out := make(map[string]any, len(x))
		for k, e := range x {
			out[k] = deepCopyAny(e)
		}
		return out
	}
	return v
}

func sharedBackingRun(c *Ctx, idx int) {
	r := c.Rand("")
	leaf := func() any {
		return gen.Pick(r, []any{"a", "b", "c", "d", json.Number("1"), json.Number("2"), json.Number("1.0"), nil, true, []any{"n"}, map[string]any{"k": "v"}})
	}
	n := 3 + r.Intn(5)
	left := make([]any, n)
	for i := range left {
		left[i] = leaf()
	}
	right := make([]any, n)
	copy(right, left)
	diffAt := -1
	if r.Chance(75) {
		diffAt = r.Intn(n)
		right[diffAt] = "DIFFERENT"
	}
	// views: (lo, hi) pairs, the same on both sides
	nv := 2 + r.Intn(3)
	type view struct{ lo, hi int }
	views := make([]view, nv)
	for i := range views {
		lo := 0
		if r.Chance(30) {
			lo = r.Intn(n)
		}
		views[i] = view{lo, lo + r.Intn(n-lo+1)}
	}
	if idx%2 == 0 {
		// prefix snapshots of an append-only log, shortest first
		for i := range views {
			views[i] = view{0, 1 + (i+1)*(n-1)/nv}
		}
	}
	build := func(back []any) any {
		out := make([]any, len(views))
		for i, v := range views {
			out[i] = back[v.lo:v.hi:v.hi]
		}
		return out
	}
	sm := map[string]any{"k": left[:2:2], "j": "x"}
	doc := map[string]any{"x": build(left), "y": build(right), "ox": map[string]any{"p": left[: n-1 : n-1], "q": left[:n:n]}, "oy": map[string]any{"p": right[: n-1 : n-1], "q": right[:n:n]}, "m": []any{sm, sm}, "m2": []any{deepCopyAny(sm), map[string]any{"k": right[:2:2], "j": "x"}}}
	tree := deepCopyAny(doc)
	for _, text := range []string{"x == y", "y == x", "x != y", "contains([x], y)", "contains([y], x)", "x[0] == y[0]", "x[-1] == y[-1]", "[x, y][?@ == $.x] | length(@)", "reverse(x) == reverse(y)", "ox == oy", "oy == ox", "[ox.p, ox.q] == [oy.p, oy.q]", "[ox.q, ox.p] == [oy.q, oy.p]", "m == m2", "m2 == m", "x | [@[0] == $.y[0], @[1] == $.y[1]]", "map(&(@ == $.y[0]), x)", "x[?@ == $.y[-1]] | length(@)", "[x[0], x] == [y[0], y]", "sort_by([x, y], &length(@[0])) | @[0] == @[1]"} {
		la := c.LibSearch(text, doc)
		lt := c.LibSearch(text, tree)
		if la.Panic != nil || lt.Panic != nil {
			continue
		}
		if !SameOutcome(la, lt, false) {
			c.Report(Violation{Rule: "C20/layout-dependent", Expr: text, Data: fmt.Sprintf("x, y: %d views %v over two backing arrays of %d elements that differ at index %d; %s", nv, views, n, diffAt, clipS(gen.Describe(tree), 300)), Got: ShowOut(la) + "  (arrays share their backing array)", Want: ShowOut(lt) + "  (deep copy of the same document)", Features: map[string]string{"stream": "shared-backing"}})
		}
		c.Nontrivial(text, fmt.Sprint(idx))
	}
	// views of ONE backing array against each other (same first element, different lengths), and
	// slices the expression itself cuts from an array compared with their source: against the deep
	// copy, and - where no null is involved, so that a bare slice keeps every element - against the
	// constant answer (a prefix shorter than its source never equals it)
	hasNil := false
	for _, v := range left {
		if v == nil {
			hasNil = true
		}
	}
	consts := map[string]string{"ox.q[:2] == ox.q": "false", "ox.q[:-1] == ox.q": "false", "ox.q == ox.q[:-1]": "false", "ox.q[:2] != ox.q": "true", "ox.q[0:1] == ox.q[0:2]": "false", "contains([ox.q[:2]], ox.q)": "false", "contains([ox.q], ox.q[:-1])": "false",
		"ox.q[:] == ox.q": "true", "ox.q[1:] == ox.q": "false", "[ox.q[:2], ox.q] | @[0] == @[1]": "false", "let $a = ox.q in $a[:2] == $a": "false", "let $a = ox.q in [$a[:1], $a[:2], $a][?@ == $a] | length(@)": "1", "ox.p == ox.q": "false", "ox.q == ox.p": "false", "[ox.p] == [ox.q]": "false", "ox.p != ox.q": "true",
		"{a: ox.p} == {a: ox.q}": "false", "ox.q[:-1] == ox.p": "true", "ox.p == ox.q[:-1]": "true", "ox.q[::1] == ox.q": "true", "ox.q[:1] == ox.q[:1]": "true", "(ox.q | [:2]) == ox.q": "false", "ox.q[?`true`] == ox.q": "true"}
	var texts []string
	for t := range consts {
		texts = append(texts, t)
	}
	sort.Strings(texts)
	texts = append(texts, "x[0] == x[-1]", "x[-1] == x[0]", "x[0] != x[1]", "contains([x[0]], x[-1])", "x[?@ == $.x[0]] | length(@)", "x[?@ == $.x[-1]] | length(@)", "[x[0], x[1]] == [x[1], x[0]]", "y[0] == y[-1]", "map(&(@ == $.x[-1]), x)", "sort_by(x, &length(@)) | @[0] == @[-1]", "group_by(x, &to_string(length(@))) | length(@)")
	for _, text := range texts {
		la := c.LibSearch(text, doc)
		lt := c.LibSearch(text, tree)
		if la.Panic != nil || lt.Panic != nil {
			continue
		}
		if !SameOutcome(la, lt, false) {
			c.Report(Violation{Rule: "C20/layout-dependent", Expr: text, Data: fmt.Sprintf("x: %d views %v over one backing array of %d elements; %s", nv, views, n, clipS(gen.Describe(tree), 300)), Got: ShowOut(la) + "  (arrays share their backing array)", Want: ShowOut(lt) + "  (deep copy of the same document)", Features: map[string]string{"stream": "shared-backing"}})
		}
		if want, ok := consts[text]; ok && !hasNil && lt.Err == nil {
			if got := ref.Show(lt.M); lt.MErr != nil || got != want {
				c.Report(Violation{Rule: "C20/slice-vs-source", Expr: text, Data: clipS(gen.Describe(tree), 300), Got: ShowOut(lt), Want: want, Features: map[string]string{"stream": "shared-backing"}})
			}
		}
		c.Nontrivial(text, fmt.Sprint(idx))
	}
}
