package mon

import (
	"fmt"
	"sort"
	"sync"

	"verif/harness/ref"
)

// Misspelled builtin names: every string within one edit (a deletion, a substitution, an insertion
// over [a-z_0-9], a transposition) of a builtin name, every prefix and suffix of one, case variants,
// and all names of up to two letters.  Diagnostics that look for "the closest builtin" (suggestions,
// fuzzy matching) run edit-distance code over exactly these names, with its own corner cases (a name
// shorter than the match, equally close candidates).  C03 requires the calls to return with a
// formattable error; C15 requires the error text - which depends on the expression alone - to be the
// same on every compilation.
var (
	misspelledOnce sync.Once
	misspelled     []string
)

func Misspelled() []string {
	misspelledOnce.Do(func() {
		seen := map[string]bool{}
		builtin := map[string]bool{}
		for _, n := range ref.FunctionNames() {
			builtin[n] = true
		}
		add := func(s string) {
			if s == "" || builtin[s] || seen[s] || !(s[0] == '_' || (s[0] >= 'a' && s[0] <= 'z') || (s[0] >= 'A' && s[0] <= 'Z')) {
				return
			}
			seen[s] = true
			misspelled = append(misspelled, s)
		}
		alpha := "abcdefghijklmnopqrstuvwxyz_0"
		for _, n := range ref.FunctionNames() {
			for i := 0; i < len(n); i++ {
				add(n[:i] + n[i+1:])
				if i+1 < len(n) {
					add(n[:i] + string(n[i+1]) + string(n[i]) + n[i+2:])
				}
				for _, ch := range alpha {
					add(n[:i] + string(ch) + n[i+1:])
				}
				add(n[:i])
				add(n[i:])
			}
			for i := 0; i <= len(n); i++ {
				for _, ch := range alpha {
					add(n[:i] + string(ch) + n[i:])
				}
			}
			add(n + n)
			add(fmt.Sprintf("%s_%s", n, n))
			up := []byte(n)
			up[0] -= 32
			add(string(up))
		}
		for a := 'a'; a <= 'z'; a++ {
			add(string(a))
			for b := 'a'; b <= 'z'; b++ {
				add(string(a) + string(b))
			}
		}
		sort.Strings(misspelled)
	})
	return misspelled
}

const misspelledPerCase = 16

func misspelledN(c *Ctx) int {
	return (len(Misspelled()) + misspelledPerCase - 1) / misspelledPerCase
}

func misspelledSlice(idx int) []string {
	all := Misspelled()
	lo := idx * misspelledPerCase
	hi := lo + misspelledPerCase
	if hi > len(all) {
		hi = len(all)
	}
	return all[lo:hi]
}

func c03Misspelled(c *Ctx, idx int) {
	for _, n := range misspelledSlice(idx) {
		for _, t := range []string{n + "(a)", n + "(", "a[*]." + n + "(@)", n + "(a, b)"} {
			c.CheckNoPanic(t, map[string]any{"a": []any{"x"}, "b": "y"}, map[string]string{"family": "misspelled-builtins"})
		}
		c.Nontrivial("misspelled", n)
	}
}

func c15Misspelled(c *Ctx, idx int) {
	for _, n := range misspelledSlice(idx) {
		for _, t := range []string{n + "(a)", "a[*]." + n + "(@, b)"} {
			texts := map[string]int{}
			for k := 0; k < 8; k++ {
				var l LibOut
				if k%2 == 0 {
					_, l = c.LibCompile(t)
				} else {
					l = c.LibSearch(t, map[string]any{"a": "x"})
				}
				if l.Panic != nil {
					texts["panic"]++
				} else {
					texts[l.ErrText]++
				}
			}
			if len(texts) > 1 {
				var alts []string
				for d, k := range texts {
					alts = append(alts, fmt.Sprintf("%dx %s", k, clipS(d, 160)))
				}
				sort.Strings(alts)
				c.Report(Violation{Rule: "C15/varies-within-process", Expr: t, Got: fmt.Sprint(alts), Want: "one error text on 8 compilations / searches of the same text", Features: map[string]string{"stream": "static-error-texts"}})
			}
		}
		c.Nontrivial("misspelled", n)
	}
}
