// Command jp evaluates an expression with the library and with the reference
// model (triage helper): jp '<expr>' '<json doc>'
package main

import (
	"fmt"
	"os"

	"github.com/woodsbury/jmespath"

	"verif/harness/mon"
	"verif/harness/ref"
)

func main() {
	expr := os.Args[1]
	docText := "null"
	if len(os.Args) > 2 {
		docText = os.Args[2]
	}
	doc, err := ref.FromJSON(docText)
	if err != nil {
		fmt.Println("bad doc:", err)
		os.Exit(2)
	}
	g := ref.ToGo(doc, ref.JSONNumber)
	l := mon.Observe(func() (any, error) { return jmespath.Search(expr, g) })
	m := ref.Search(expr, doc)
	fmt.Println("lib:  ", mon.ShowOut(l))
	fmt.Println("model:", m.String())
	_, ok, why := mon.Agree(m, l)
	fmt.Println("agree:", ok, why)
}
