// Command vcheck is the driver: it rebuilds the worker against /repo's current
// tree, runs the property's monitors in child processes, merges their event
// logs, applies the known-findings file, writes evidence and replay files and
// prints the verdict lines.
//
//	vcheck <PROPERTY> <quick|thorough>
//	vcheck replay <file>
//
// Exit codes: 0 held on everything explored, 1 violation, 2 inconclusive.
package main

import (
	"bufio"
	"crypto/sha256"
	"encoding/binary"
	"encoding/hex"
	"encoding/json"
	"fmt"
	"os"
	"os/exec"
	"path/filepath"
	"regexp"
	"sort"
	"strconv"
	"strings"
	"sync"
	"time"

	"verif/harness/mon"
)

// verifDir: root of the verification tree (VERIF_DIR, default /verif; the
// check script sets it to its own directory so that snapshots are
// self-contained).
var (
	verifDir   = envOr("VERIF_DIR", "/verif")
	harnessDir = filepath.Join(verifDir, "harness")
)

const repoDir = "/repo"

func envOr(k, d string) string {
	if v := os.Getenv(k); v != "" {
		return v
	}
	return d
}

type finding struct {
	Property string            `json:"property"`
	Rule     string            `json:"rule"`
	Status   string            `json:"status"` // open | fixed
	What     string            `json:"what"`
	Match    map[string]string `json:"match"`
	Commit   string            `json:"commit,omitempty"`
}

type findingsFile struct {
	Findings []finding `json:"findings"`
}

type violation struct {
	Prop       string            `json:"prop"`
	Rule       string            `json:"rule"`
	Stream     string            `json:"stream"`
	Idx        int               `json:"idx"`
	Seed       int64             `json:"seed"`
	Tier       string            `json:"tier"`
	Expr       string            `json:"expr"`
	ExprSHA    string            `json:"expr_sha256,omitempty"`
	ExprLen    int               `json:"expr_len,omitempty"`
	Data       string            `json:"data"`
	Got        string            `json:"got"`
	Want       string            `json:"want"`
	Detail     string            `json:"detail"`
	Features   map[string]string `json:"features"`
	Confirmed  *bool             `json:"confirmed,omitempty"`
	ChildLog   string            `json:"child_log,omitempty"`
	BuildMode  string            `json:"build_mode,omitempty"`
	ReplayNote string            `json:"replay_note,omitempty"`
}

func env() []string {
	e := os.Environ()
	out := e[:0]
	for _, kv := range e {
		if strings.HasPrefix(kv, "GOFLAGS=") || strings.HasPrefix(kv, "GOPROXY=") || strings.HasPrefix(kv, "GOTOOLCHAIN=") || strings.HasPrefix(kv, "GOSUMDB=") {
			continue
		}
		out = append(out, kv)
	}
	return append(out, "GOFLAGS=-mod=mod", "GOPROXY=off")
}

// build builds the worker in the given mode from /repo's current tree.
func build(mode, runDir string) (string, error) {
	bin := filepath.Join(runDir, "worker."+mode)
	args := []string{"build", "-tags", "verif", "-o", bin}
	switch mode {
	case "race":
		args = append(args, "-race")
	case "cover":
		args = append(args, "-cover", "-covermode=atomic", "-coverpkg=verif/harness/worker,github.com/woodsbury/jmespath/...")
	}
	// Development aid only (tools/mutant2.sh): build against a scratch copy of the library
	// instead of /repo.  The registered commands never set it.
	if o := os.Getenv("VERIF_REPO_OVERRIDE"); o != "" {
		mod, err := os.ReadFile(filepath.Join(harnessDir, "go.mod"))
		if err != nil {
			return "", err
		}
		mf := filepath.Join(runDir, "go.mod")
		os.WriteFile(mf, []byte(strings.Replace(string(mod), "=> /repo", "=> "+o, 1)), 0o644)
		if sum, err := os.ReadFile(filepath.Join(harnessDir, "go.sum")); err == nil {
			os.WriteFile(filepath.Join(runDir, "go.sum"), sum, 0o644)
		}
		args = append(args, "-modfile="+mf)
		fmt.Printf("NOTE: building against %s instead of /repo (VERIF_REPO_OVERRIDE)\n", o)
	}
	args = append(args, "./worker")
	cmd := exec.Command("go", args...)
	cmd.Dir = harnessDir
	cmd.Env = env()
	out, err := cmd.CombinedOutput()
	if err != nil {
		return "", fmt.Errorf("go %s: %v\n%s", strings.Join(args, " "), err, out)
	}
	return bin, nil
}

type childResult struct {
	batch    int
	done     bool
	exitErr  error
	logPath  string
	restarts int
	deaths   []violation
	timeouts []string
	timedOut bool
}

type runCfg struct {
	prop, tier string
	seed       int64
	nbatch     int
	bin        string
	mode       string
	outDir     string
	extraEnv   []string
	timeout    time.Duration
	memKB      int64
}

func readIntent(path string) (stream string, idx int, note string, expr string, exprLen int, ok bool) {
	b, err := os.ReadFile(path)
	if err != nil || len(b) < 8 {
		return
	}
	n := int(binary.LittleEndian.Uint32(b[0:]))
	exprLen = int(binary.LittleEndian.Uint32(b[4:]))
	if n <= 0 || 8+n > len(b) {
		return
	}
	parts := strings.SplitN(string(b[8:8+n]), "\x00", 4)
	if len(parts) < 4 {
		return
	}
	stream = parts[0]
	idx, _ = strconv.Atoi(parts[1])
	note = parts[2]
	expr = parts[3]
	ok = stream != "" || expr != ""
	return
}

func workerCmd(cfg runCfg, batch int, extra ...string) *exec.Cmd {
	args := []string{"-prop", cfg.prop, "-tier", cfg.tier, "-seed", strconv.FormatInt(cfg.seed, 10),
		"-batch", strconv.Itoa(batch), "-nbatch", strconv.Itoa(cfg.nbatch), "-out", cfg.outDir}
	args = append(args, extra...)
	var cmd *exec.Cmd
	if cfg.memKB > 0 {
		sh := fmt.Sprintf("ulimit -v %d; exec \"$0\" \"$@\"", cfg.memKB)
		cmd = exec.Command("sh", append([]string{"-c", sh, cfg.bin}, args...)...)
	} else {
		cmd = exec.Command(cfg.bin, args...)
	}
	cmd.Env = append(env(), "GOTRACEBACK=single", "GOMEMLIMIT=4GiB")
	cmd.Env = append(cmd.Env, cfg.extraEnv...)
	return cmd
}

// runChild runs one batch, restarting after a death past the fatal case.
func runChild(cfg runCfg, batch int) childResult {
	res := childResult{batch: batch}
	resume := ""
	for attempt := 0; attempt < 25; attempt++ {
		logPath := filepath.Join(cfg.outDir, fmt.Sprintf("child.%d.%d.log", batch, attempt))
		res.logPath = logPath
		lf, _ := os.Create(logPath)
		var extra []string
		if resume != "" {
			extra = append(extra, "-resume", resume, "-part", strconv.Itoa(attempt))
		}
		cmd := workerCmd(cfg, batch, extra...)
		cmd.Stdout = lf
		cmd.Stderr = lf
		if err := cmd.Start(); err != nil {
			res.exitErr = err
			lf.Close()
			return res
		}
		doneCh := make(chan error, 1)
		go func() { doneCh <- cmd.Wait() }()
		var err error
		select {
		case err = <-doneCh:
		case <-time.After(cfg.timeout):
			cmd.Process.Kill()
			<-doneCh
			res.timedOut = true
			lf.Close()
			return res
		}
		lf.Close()
		logb, _ := os.ReadFile(logPath)
		if err == nil && strings.Contains(string(logb), "WORKER-DONE") {
			res.done = true
			return res
		}
		if strings.Contains(string(logb), "CASE-TIMEOUT") {
			// wall-clock watchdog: the case is not judged; carry on after it
			stream, idx, _, _, _, ok := readIntent(filepath.Join(cfg.outDir, fmt.Sprintf("intent.%d", batch)))
			if !ok {
				res.exitErr = fmt.Errorf("case timeout without intent in batch %d", batch)
				return res
			}
			res.timeouts = append(res.timeouts, fmt.Sprintf("%s:%d", stream, idx))
			res.restarts++
			resume = fmt.Sprintf("%s:%d", stream, idx)
			continue
		}
		if strings.Contains(string(logb), "HARNESS-PANIC") {
			res.exitErr = fmt.Errorf("harness panic in batch %d: %s", batch, clip(string(logb), 1500))
			return res
		}
		// the child died: attribute the death to the last intent
		stream, idx, note, expr, exprLen, ok := readIntent(filepath.Join(cfg.outDir, fmt.Sprintf("intent.%d", batch)))
		tail := string(logb)
		if len(tail) > 3000 {
			tail = tail[:1500] + "\n...\n" + tail[len(tail)-1500:]
		}
		rule := cfg.prop + "/process-death"
		if classifyDeath(string(logb)) == "step-budget" {
			rule = cfg.prop + "/step-budget-exceeded"
		}
		v := violation{Prop: cfg.prop, Rule: rule, Stream: stream, Idx: idx, Seed: cfg.seed, Tier: cfg.tier,
			Expr: expr, ExprLen: exprLen, Detail: fmt.Sprintf("child process died (%v) during %s; log tail:\n%s", err, note, tail), ChildLog: logPath, BuildMode: cfg.mode,
			Features: map[string]string{"death": classifyDeath(string(logb))}}
		if !ok {
			res.exitErr = fmt.Errorf("child died without an intent record: %v\n%s", err, tail)
			return res
		}
		res.deaths = append(res.deaths, v)
		res.restarts++
		resume = fmt.Sprintf("%s:%d", stream, idx)
	}
	res.exitErr = fmt.Errorf("too many child deaths in batch %d", batch)
	return res
}

func classifyDeath(log string) string {
	switch {
	case strings.Contains(log, "STEP-BUDGET-EXCEEDED"):
		return "step-budget"
	case strings.Contains(log, "stack overflow") || strings.Contains(log, "goroutine stack exceeds"):
		return "stack-overflow"
	case strings.Contains(log, "out of memory") || strings.Contains(log, "cannot allocate memory"):
		return "out-of-memory"
	case strings.Contains(log, "checkptr"):
		return "checkptr"
	case strings.Contains(log, "DATA RACE"):
		return "data-race"
	case strings.Contains(log, "concurrent map"):
		return "concurrent-map"
	case strings.Contains(log, "STEP-BUDGET-EXCEEDED"):
		return "step-budget"
	case strings.Contains(log, "fatal error"):
		return "fatal-error"
	case strings.Contains(log, "panic:"):
		return "unrecovered-panic"
	}
	return "unknown"
}

func loadFindings() findingsFile {
	var ff findingsFile
	b, err := os.ReadFile(filepath.Join(verifDir, "known_findings.json"))
	if err != nil {
		return ff
	}
	if err := json.Unmarshal(b, &ff); err != nil {
		fmt.Fprintf(os.Stderr, "known_findings.json: %v\n", err)
		os.Exit(2)
	}
	return ff
}

func (f finding) matches(v violation) bool {
	if f.Status != "open" || f.Property != v.Prop || (f.Rule != "" && f.Rule != v.Rule) {
		return false
	}
	if len(f.Match) == 0 {
		return false // an open finding must identify what fails
	}
	for k, want := range f.Match {
		switch {
		case k == "expr":
			if v.Expr != want {
				return false
			}
		case k == "expr_sha256":
			if v.ExprSHA != want {
				return false
			}
		case k == "expr_regex":
			re, err := regexp.Compile(want)
			if err != nil || !re.MatchString(v.Expr) {
				return false
			}
		case k == "data":
			if v.Data != want {
				return false
			}
		case k == "stream":
			if v.Stream != want {
				return false
			}
		case strings.HasPrefix(k, "feature:"):
			if v.Features[strings.TrimPrefix(k, "feature:")] != want {
				return false
			}
		default:
			return false
		}
	}
	return true
}

type stats struct {
	counters map[string]int64
	samples  []any
}

func main() {
	if len(os.Args) >= 3 && os.Args[1] == "replay" {
		os.Exit(replay(os.Args[2]))
	}
	if len(os.Args) < 3 {
		fmt.Fprintln(os.Stderr, "usage: vcheck <PROPERTY> <quick|thorough> | vcheck replay <file>")
		os.Exit(2)
	}
	prop, tier := os.Args[1], os.Args[2]
	if t := os.Getenv("VERIF_TIER"); t == "quick" || t == "thorough" {
		tier = t
	}
	seed := int64(1)
	if s := os.Getenv("VERIF_SEED"); s != "" {
		if x, err := strconv.ParseInt(s, 10, 64); err == nil {
			seed = x
		}
	}
	os.Exit(run(prop, tier, seed))
}

func run(prop, tier string, seed int64) int {
	start := time.Now()
	p, ok := mon.Registry[prop]
	if !ok {
		fmt.Fprintf(os.Stderr, "unknown property %s\n", prop)
		return 2
	}
	runDir := filepath.Join(verifDir, ".run", fmt.Sprintf("%s-%s-%d-%d", prop, tier, seed, os.Getpid()))
	os.RemoveAll(runDir)
	if err := os.MkdirAll(runDir, 0o755); err != nil {
		fmt.Fprintln(os.Stderr, err)
		return 2
	}
	keep := os.Getenv("VERIF_KEEP") != ""
	defer func() {
		if !keep {
			os.RemoveAll(runDir)
		}
	}()

	modes := mon.BuildModes(prop, tier)
	var all []violation
	total := stats{counters: map[string]int64{}}
	distinct := map[uint64]struct{}{}
	var notes []string
	inconclusive := ""
	coverPct := map[string]string{}

	for _, mode := range modes {
		bin, err := build(mode, runDir)
		if err != nil {
			fmt.Printf("BUILD-FAILED property=%s mode=%s\n%v\n", prop, mode, err)
			writeEvidence(p, prop, tier, seed, total, 0, nil, time.Since(start).Seconds(), []string{"build failed: " + err.Error()}, nil, "inconclusive: build failed")
			return 2
		}
		outDir := filepath.Join(runDir, "out."+mode)
		os.MkdirAll(outDir, 0o755)
		cfg := runCfg{prop: prop, tier: tier, seed: seed, nbatch: 16, bin: bin, mode: mode, outDir: outDir, timeout: 40 * time.Minute, memKB: 4 << 20}
		if tier == "quick" {
			cfg.timeout = 15 * time.Minute
		}
		if mode == "race" {
			cfg.memKB = 0
			cfg.extraEnv = append(cfg.extraEnv, "GORACE=halt_on_error=0 log_path="+filepath.Join(outDir, "race"))
		}
		if mode == "cover" {
			cfg.extraEnv = append(cfg.extraEnv, "GOCOVERDIR="+filepath.Join(outDir, "cov"))
			os.MkdirAll(filepath.Join(outDir, "cov"), 0o755)
		}
		cfg.extraEnv = append(cfg.extraEnv, "VERIF_MODE="+mode)
		if nb := mon.Batches(prop, tier, mode); nb > 0 {
			cfg.nbatch = nb
		}
		results := make([]childResult, cfg.nbatch)
		var wg sync.WaitGroup
		sem := make(chan struct{}, 16)
		for b := 0; b < cfg.nbatch; b++ {
			wg.Add(1)
			go func(b int) {
				defer wg.Done()
				sem <- struct{}{}
				results[b] = runChild(cfg, b)
				<-sem
			}(b)
		}
		wg.Wait()
		for _, r := range results {
			if r.timedOut {
				inconclusive = fmt.Sprintf("watchdog: batch %d (%s) did not finish within %v", r.batch, mode, cfg.timeout)
			}
			if r.exitErr != nil {
				inconclusive = fmt.Sprintf("batch %d (%s): %v", r.batch, mode, r.exitErr)
			}
			if len(r.timeouts) > 0 {
				total.counters["case_timeouts_not_judged"] += int64(len(r.timeouts))
				notes = append(notes, fmt.Sprintf("wall-clock watchdog fired for %v (cases not judged)", r.timeouts))
			}
			for _, d := range r.deaths {
				// confirm by replaying the single case in a fresh child
				conf := confirmDeath(cfg, d)
				d.Confirmed = &conf
				if !conf {
					d.ReplayNote = "death did not reproduce when the single case was replayed in a fresh process"
				}
				all = append(all, d)
			}
		}
		// merge event logs
		files, _ := filepath.Glob(filepath.Join(outDir, "events.*.jsonl"))
		sort.Strings(files)
		for _, f := range files {
			vs, st := readEvents(f)
			for i := range vs {
				vs[i].BuildMode = mode
			}
			all = append(all, vs...)
			for k, v := range st.counters {
				total.counters[k] += v
			}
			if len(total.samples) < 6 {
				total.samples = append(total.samples, st.samples...)
			}
		}
		hfiles, _ := filepath.Glob(filepath.Join(outDir, "hashes.*.bin"))
		for _, f := range hfiles {
			b, _ := os.ReadFile(f)
			for i := 0; i+8 <= len(b); i += 8 {
				distinct[binary.LittleEndian.Uint64(b[i:])] = struct{}{}
			}
		}
		if mode == "race" {
			n, uniq, sample := raceReports(outDir)
			total.counters["race_reports"] += int64(n)
			total.counters["race_reports_distinct"] += int64(uniq)
			if n > 0 {
				v := violation{Prop: prop, Rule: prop + "/data-race", Seed: seed, Tier: tier, Detail: sample, BuildMode: mode,
					Features: map[string]string{"reports": strconv.Itoa(n)}}
				all = append(all, v)
			}
		}
		if mode == "cover" {
			for k, v := range coverage(filepath.Join(outDir, "cov")) {
				coverPct[k] = v
			}
		}
		// offline checkers over the merged logs
		for _, v := range mon.Offline(prop, outDir) {
			all = append(all, violation{Prop: prop, Rule: v.Rule, Seed: seed, Tier: tier, Expr: v.Expr, Data: v.Data, Got: v.Got, Want: v.Want, Detail: v.Detail, Features: v.Features, BuildMode: mode})
		}
		for k, v := range mon.OfflineCounters(prop, outDir) {
			total.counters[k] += v
		}
	}

	// verdicts
	ff := loadFindings()
	known := map[int]int{}
	var unknown []violation
	for _, v := range all {
		matched := false
		for i, f := range ff.Findings {
			if f.matches(v) {
				known[i]++
				matched = true
				break
			}
		}
		if !matched {
			if v.Confirmed != nil && !*v.Confirmed {
				inconclusive = "a child death did not reproduce on replay: " + v.Detail
				continue
			}
			unknown = append(unknown, v)
		}
	}
	for i, n := range known {
		f := ff.Findings[i]
		fmt.Printf("KNOWN-FINDING: property=%s %s (rule %s, observed %d time(s) in this run)\n", f.Property, f.What, f.Rule, n)
	}
	replayDir := filepath.Join(verifDir, "replay", prop)
	if os.Getenv("VERIF_REPO_OVERRIDE") != "" {
		replayDir = filepath.Join(verifDir, ".run", "replay-override", prop)
	}
	seenRule := map[string]int{}
	var printed int
	for _, v := range unknown {
		key := v.Rule
		seenRule[key]++
		if seenRule[key] > 5 {
			if seenRule[key] <= 40 {
				fmt.Printf("  also: rule=%s stream=%s idx=%d features=%v expr=%s\n", v.Rule, v.Stream, v.Idx, v.Features, clip(strings.ReplaceAll(v.Expr, "\n", "\\n"), 120))
			}
			continue
		}
		os.MkdirAll(replayDir, 0o755)
		b, _ := json.MarshalIndent(v, "", " ")
		sum := sha256.Sum256(b)
		path := filepath.Join(replayDir, hex.EncodeToString(sum[:6])+".json")
		os.WriteFile(path, b, 0o644)
		fmt.Printf("VIOLATION property=%s replay=%s\n", prop, path)
		fmt.Printf("  rule=%s stream=%s idx=%d\n  expr=%s\n  data=%s\n  got=%s\n  want=%s\n  detail=%s\n", v.Rule, v.Stream, v.Idx, clip(v.Expr, 300), clip(v.Data, 300), clip(v.Got, 300), clip(v.Want, 300), clip(v.Detail, 600))
		printed++
	}
	if len(unknown) > printed {
		fmt.Printf("  (%d further violations not printed; counts per rule below)\n", len(unknown)-printed)
	}
	byRule := map[string]int{}
	for _, v := range unknown {
		byRule[v.Rule]++
	}
	for k, n := range byRule {
		fmt.Printf("  violations rule=%s count=%d\n", k, n)
	}

	nDistinct := len(distinct)
	if len(unknown) == 0 && inconclusive == "" && nDistinct < p.MinNontrivial {
		inconclusive = fmt.Sprintf("only %d distinct non-trivial cases observed (minimum %d)", nDistinct, p.MinNontrivial)
	}
	verdict := "held"
	code := 0
	switch {
	case len(unknown) > 0:
		verdict = "violated"
		code = 1
	case inconclusive != "":
		verdict = "inconclusive: " + inconclusive
		code = 2
		notes = append(notes, inconclusive)
	}
	knownN := 0
	for _, n := range known {
		knownN += n
	}
	total.counters["known_findings_reproduced"] = int64(knownN)
	writeEvidence(p, prop, tier, seed, total, nDistinct, coverPct, time.Since(start).Seconds(), notes, byRule, verdict)
	fmt.Printf("RESULT property=%s tier=%s seed=%d verdict=%s evaluations=%d distinct_nontrivial=%d abstained=%d violations=%d known=%d wall=%.1fs\n",
		prop, tier, seed, verdict, total.counters["evaluations"], nDistinct, total.counters["abstained"], len(unknown), knownN, time.Since(start).Seconds())
	if code == 2 {
		fmt.Printf("INCONCLUSIVE property=%s %s\n", prop, inconclusive)
	}
	return code
}

func clip(s string, n int) string {
	if len(s) > n {
		return s[:n] + fmt.Sprintf("...(%d bytes)", len(s))
	}
	return s
}

func confirmDeath(cfg runCfg, d violation) bool {
	dir := filepath.Join(cfg.outDir, fmt.Sprintf("confirm.%s.%d", d.Stream, d.Idx))
	os.MkdirAll(dir, 0o755)
	c2 := cfg
	c2.outDir = dir
	cmd := workerCmd(c2, 0, "-only", fmt.Sprintf("%s:%d", d.Stream, d.Idx))
	lf, _ := os.Create(filepath.Join(dir, "log"))
	defer lf.Close()
	cmd.Stdout, cmd.Stderr = lf, lf
	if err := cmd.Start(); err != nil {
		return false
	}
	done := make(chan error, 1)
	go func() { done <- cmd.Wait() }()
	select {
	case err := <-done:
		b, _ := os.ReadFile(filepath.Join(dir, "log"))
		return err != nil || !strings.Contains(string(b), "WORKER-DONE")
	case <-time.After(10 * time.Minute):
		cmd.Process.Kill()
		<-done
		return false
	}
}

func readEvents(path string) ([]violation, stats) {
	st := stats{counters: map[string]int64{}}
	var vs []violation
	f, err := os.Open(path)
	if err != nil {
		return nil, st
	}
	defer f.Close()
	sc := bufio.NewScanner(f)
	sc.Buffer(make([]byte, 1<<20), 64<<20)
	for sc.Scan() {
		var rec map[string]json.RawMessage
		if json.Unmarshal(sc.Bytes(), &rec) != nil {
			continue
		}
		var kind string
		json.Unmarshal(rec["kind"], &kind)
		switch kind {
		case "violation":
			var v violation
			json.Unmarshal(sc.Bytes(), &v)
			vs = append(vs, v)
		case "stats":
			// cumulative: the last record of the file counts
			var s struct {
				Counters map[string]int64 `json:"counters"`
				Samples  []any            `json:"samples"`
			}
			json.Unmarshal(sc.Bytes(), &s)
			st.counters = map[string]int64{}
			for k, v := range s.Counters {
				st.counters[k] = v
			}
			st.samples = s.Samples
		}
	}
	return vs, st
}

var raceRe = regexp.MustCompile(`(?m)^WARNING: DATA RACE`)

// raceReports counts race-detector report blocks and de-duplicates them by the
// pair of outermost library frames.
func raceReports(dir string) (n, uniq int, sample string) {
	files, _ := filepath.Glob(filepath.Join(dir, "race.*"))
	logs, _ := filepath.Glob(filepath.Join(dir, "child.*.log"))
	files = append(files, logs...)
	keys := map[string]struct{}{}
	for _, f := range files {
		b, err := os.ReadFile(f)
		if err != nil {
			continue
		}
		s := string(b)
		blocks := strings.Split(s, "WARNING: DATA RACE")
		for _, blk := range blocks[1:] {
			n++
			if sample == "" {
				sample = "WARNING: DATA RACE" + clip(blk, 2500)
			}
			var fr []string
			for _, ln := range strings.Split(blk, "\n") {
				ln = strings.TrimSpace(ln)
				if strings.HasPrefix(ln, "github.com/woodsbury/") || strings.HasPrefix(ln, "verif/harness/") {
					if i := strings.Index(ln, "("); i > 0 {
						ln = ln[:i]
					}
					fr = append(fr, ln)
				}
				if strings.HasPrefix(ln, "==================") {
					break
				}
			}
			key := ""
			if len(fr) > 0 {
				key = fr[0] + "|" + fr[len(fr)-1]
			}
			keys[key] = struct{}{}
		}
		if strings.Contains(s, "fatal error: concurrent map") {
			n++
			keys["concurrent-map"] = struct{}{}
			if sample == "" {
				sample = clip(s, 2500)
			}
		}
	}
	return n, len(keys), sample
}

// coverage runs `go tool covdata percent` over the counters the children left.
func coverage(dir string) map[string]string {
	out := map[string]string{}
	ents, _ := os.ReadDir(dir)
	if len(ents) == 0 {
		return out
	}
	cmd := exec.Command("go", "tool", "covdata", "percent", "-i="+dir)
	cmd.Dir = harnessDir
	cmd.Env = env()
	b, err := cmd.CombinedOutput()
	if err != nil {
		out["error"] = err.Error() + ": " + clip(string(b), 300)
		return out
	}
	for _, ln := range strings.Split(string(b), "\n") {
		f := strings.Fields(ln)
		// "<pkg>  coverage: 87.5% of statements"
		if len(f) >= 3 && strings.HasPrefix(f[0], "github.com/woodsbury/jmespath") {
			out[f[0]] = f[2]
		}
	}
	return out
}

func writeEvidence(p *mon.Property, prop, tier string, seed int64, st stats, distinct int, cover map[string]string, wall float64, notes []string, byRule map[string]int, verdict string) {
	cov := map[string]any{
		"evaluations":         st.counters["evaluations"],
		"distinct_nontrivial": distinct,
		"rule":                p.Rule,
		"samples":             st.samples,
		"abstained":           st.counters["abstained"],
		"verdict":             verdict,
	}
	if len(st.samples) == 0 {
		cov["samples"] = []any{"(no sample recorded: run observed nothing)"}
	}
	ex := map[string]int64{}
	other := map[string]int64{}
	allExh := true
	nStreams := 0
	for k, v := range st.counters {
		switch {
		case strings.HasPrefix(k, "exhaustive:"):
			// every batch reports the grid size; take it once
			ex[strings.TrimPrefix(k, "exhaustive:")] = v
		case k == "evaluations" || k == "abstained":
		default:
			other[k] = v
		}
	}
	for _, s := range p.Streams {
		nStreams++
		if !s.Exhaustive {
			allExh = false
		}
	}
	if len(ex) > 0 {
		cov["exhaustive_grids"] = ex
	}
	cov["exhaustive"] = allExh && nStreams > 0
	cov["counters"] = other
	if len(cover) > 0 {
		cov["library_statement_coverage_reached"] = cover
	}
	if len(byRule) > 0 {
		cov["violations_by_rule"] = byRule
	}
	if len(notes) > 0 {
		cov["notes"] = notes
	}
	nv := 0
	for _, n := range byRule {
		nv += n
	}
	ev := map[string]any{
		"property_id": prop,
		"tier":        tier,
		"seed":        seed,
		"level":       "exploration",
		"coverage":    cov,
		"assumptions": mon.Assumptions(prop),
		"wall_s":      wall,
		"violations":  nv,
	}
	evDir := filepath.Join(verifDir, "evidence")
	if os.Getenv("VERIF_REPO_OVERRIDE") != "" {
		// development runs against a scratch copy never touch the committed evidence
		evDir = filepath.Join(verifDir, ".run", "evidence-override")
	}
	os.MkdirAll(evDir, 0o755)
	b, _ := json.MarshalIndent(ev, "", " ")
	os.WriteFile(filepath.Join(evDir, prop+".json"), append(b, '\n'), 0o644)
}

func replay(path string) int {
	b, err := os.ReadFile(path)
	if err != nil {
		fmt.Fprintln(os.Stderr, err)
		return 2
	}
	var v violation
	if err := json.Unmarshal(b, &v); err != nil {
		fmt.Fprintln(os.Stderr, err)
		return 2
	}
	if v.Stream == "" {
		fmt.Printf("this record has no single-case replay (rule %s): rerun the check with VERIF_SEED=%d\n", v.Rule, v.Seed)
		return 2
	}
	runDir := filepath.Join(verifDir, ".run", fmt.Sprintf("replay-%d", os.Getpid()))
	os.MkdirAll(runDir, 0o755)
	defer os.RemoveAll(runDir)
	mode := v.BuildMode
	if mode == "" {
		mode = "cover"
	}
	bin, err := build(mode, runDir)
	if err != nil {
		fmt.Println(err)
		return 2
	}
	cfg := runCfg{prop: v.Prop, tier: v.Tier, seed: v.Seed, nbatch: 1, bin: bin, mode: mode, outDir: runDir, timeout: 10 * time.Minute}
	cmd := workerCmd(cfg, 0, "-only", fmt.Sprintf("%s:%d", v.Stream, v.Idx), "-v")
	out, err := cmd.CombinedOutput()
	fmt.Printf("%s", out)
	vs, _ := readEvents(filepath.Join(runDir, "events.0.0.jsonl"))
	for _, x := range vs {
		j, _ := json.MarshalIndent(x, "", " ")
		fmt.Printf("%s\n", j)
	}
	if err != nil || len(vs) > 0 {
		fmt.Printf("VIOLATION property=%s replay=%s\n", v.Prop, path)
		return 1
	}
	fmt.Println("replay: no violation reproduced")
	return 0
}
