// Command worker runs one batch of one property's monitors in this process.
package main

import (
	"flag"
	"fmt"
	"os"

	"verif/harness/mon"
)

func main() {
	prop := flag.String("prop", "", "property id")
	tier := flag.String("tier", "quick", "quick|thorough")
	seed := flag.Int64("seed", 1, "seed")
	batch := flag.Int("batch", 0, "batch index")
	nbatch := flag.Int("nbatch", 1, "number of batches")
	out := flag.String("out", "", "output directory")
	only := flag.String("only", "", "stream:idx (replay a single case)")
	resume := flag.String("resume", "", "stream:idx (continue after this case)")
	part := flag.Int("part", 0, "part number (restarts after a child death)")
	verbose := flag.Bool("v", false, "verbose")
	flag.Parse()
	p, ok := mon.Registry[*prop]
	if !ok {
		fmt.Fprintf(os.Stderr, "unknown property %q\n", *prop)
		os.Exit(2)
	}
	c, err := mon.NewCtx(*prop, *tier, *seed, *batch, *nbatch, *out, *part)
	if err != nil {
		fmt.Fprintln(os.Stderr, err)
		os.Exit(2)
	}
	c.Verbose = *verbose
	mon.WorkerInit(c)
	c.StartWatchdog()
	c.RunStreams(p, *only, *resume)
	mon.WorkerFini(c)
	c.Close()
	fmt.Println("WORKER-DONE")
}
