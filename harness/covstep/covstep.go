// Package covstep turns the compiler-inserted coverage counters (go build
// -cover -covermode=atomic) into a deterministic, load-independent step
// counter: the number of basic-block executions between Reset and Steps.
package covstep

import (
	"bytes"
	"encoding/binary"
	"errors"
	"fmt"
	"runtime/coverage"
)

// Available reports whether the binary was built with atomic coverage.
func Available() bool {
	return coverage.ClearCounters() == nil
}

// Reset zeroes all counters.
func Reset() error { return coverage.ClearCounters() }

var buf bytes.Buffer

// Steps returns the sum of all block counters since the last Reset.
func Steps() (uint64, error) { return StepsBuf(&buf) }

// StepsBuf is Steps with a caller-owned buffer (for a sampler goroutine).
func StepsBuf(b *bytes.Buffer) (uint64, error) {
	b.Reset()
	if err := coverage.WriteCounters(b); err != nil {
		return 0, err
	}
	return Sum(b.Bytes())
}

// Sum decodes a counter data blob (header, segments of function entries in
// raw-u32 or ULEB128 flavour, footer) and adds up every counter.
func Sum(b []byte) (uint64, error) {
	if len(b) < 32 {
		return 0, errors.New("covstep: short counter blob")
	}
	if !(b[0] == 0 && b[1] == 'c' && b[2] == 'w' && b[3] == 'm') {
		return 0, fmt.Errorf("covstep: bad magic %q", b[:4])
	}
	flavor := b[24]
	bigEndian := b[25] != 0
	var bo binary.ByteOrder = binary.LittleEndian
	if bigEndian {
		bo = binary.BigEndian
	}
	off := 32
	var total uint64
	// footer: 16 bytes; number of segments at offset 8
	if len(b) < off+16 {
		return 0, errors.New("covstep: missing footer")
	}
	nseg := int(binary.LittleEndian.Uint32(b[len(b)-16+8:]))
	end := len(b) - 16
	for s := 0; s < nseg; s++ {
		if off+16 > end {
			return 0, errors.New("covstep: truncated segment header")
		}
		fcn := binary.LittleEndian.Uint64(b[off:])
		strLen := int(binary.LittleEndian.Uint32(b[off+8:]))
		argsLen := int(binary.LittleEndian.Uint32(b[off+12:]))
		off += 16 + strLen + argsLen
		if rem := off % 4; rem != 0 {
			off += 4 - rem
		}
		rd := func() (uint32, error) {
			if flavor == 2 { // ULEB128
				var shift uint
				var v uint64
				for {
					if off >= end {
						return 0, errors.New("covstep: truncated uleb")
					}
					c := b[off]
					off++
					v |= uint64(c&0x7f) << shift
					if c&0x80 == 0 {
						break
					}
					shift += 7
				}
				return uint32(v), nil
			}
			if off+4 > end {
				return 0, errors.New("covstep: truncated u32")
			}
			v := bo.Uint32(b[off:])
			off += 4
			return v, nil
		}
		for f := uint64(0); f < fcn; f++ {
			nc, err := rd()
			if err != nil {
				return 0, err
			}
			if _, err := rd(); err != nil { // package index
				return 0, err
			}
			if _, err := rd(); err != nil { // function index
				return 0, err
			}
			for i := uint32(0); i < nc; i++ {
				v, err := rd()
				if err != nil {
					return 0, err
				}
				total += uint64(v)
			}
		}
		if flavor != 2 {
			// raw flavour: segments are 4-byte aligned already
		} else if rem := off % 4; rem != 0 {
			off += 4 - rem
		}
	}
	return total, nil
}
