#!/bin/sh
# Builds the framework offline from files on disk and warms the Go build cache
# for the instrumented worker builds.
set -e
VERIF_DIR=$(cd "$(dirname "$0")" && pwd)
cd "$VERIF_DIR/harness"
export GOFLAGS=-mod=mod GOPROXY=off
unset GOTOOLCHAIN GOSUMDB
cp /repo/go.sum "$VERIF_DIR/harness/go.sum" 2>/dev/null || true
mkdir -p "$VERIF_DIR/.run/bin" "$VERIF_DIR/evidence" "$VERIF_DIR/replay"
go build -tags verif -o "$VERIF_DIR/.run/bin/vcheck" ./cmd/vcheck
go build -tags verif -o "$VERIF_DIR/.run/bin/jp" ./cmd/jp
go build -tags verif -cover -covermode=atomic -coverpkg=verif/harness/worker,github.com/woodsbury/jmespath/... -o "$VERIF_DIR/.run/bin/worker.cover" ./worker
go build -tags verif -race -o "$VERIF_DIR/.run/bin/worker.race" ./worker
go test ./ref/ >/dev/null
echo setup-ok
