#!/bin/sh
# Builds the framework offline from files on disk and warms the Go build cache
# for the instrumented worker builds.
set -e
cd /verif/harness
export GOFLAGS=-mod=mod GOPROXY=off
unset GOTOOLCHAIN GOSUMDB
cp /repo/go.sum /verif/harness/go.sum 2>/dev/null || true
mkdir -p /verif/.run/bin /verif/evidence /verif/replay
go build -tags verif -o /verif/.run/bin/vcheck ./cmd/vcheck
go build -tags verif -o /verif/.run/bin/jp ./cmd/jp
go build -tags verif -cover -covermode=atomic -coverpkg=verif/harness/worker,github.com/woodsbury/jmespath/... -o /verif/.run/bin/worker.cover ./worker
go build -tags verif -race -o /verif/.run/bin/worker.race ./worker
go test ./ref/ >/dev/null
echo setup-ok
