#!/usr/bin/env python3
"""tools/seedmeta_r13.py : writes seeded/<Cnn>-P|Q/meta.json for round 13 (two changes per property, written by sub-agents
that were given the property text and a scratch worktree only - nothing about the tester) from the descriptions below and
each directory's check_results.txt (tools/mutant2.sh output; lines appended after a strengthening start with 'after strengthening')."""
import json, re, os
N = {
 "C01-P": ("a projection whose right-hand side has a dot-introduced multi-select followed by .field, .* or a filter (foo[*].{a: x}.a): the trailing selector is parsed with the binding power of '.', it applies to the projected list instead of each element", "caught as built (exhaustive selector-chain grid)"),
 "C01-Q": ("== / != between same-size objects with different key sets where every unmatched left member is null: the comma-ok check is dropped", "caught as built (deep-shared twins in C01; pairs, symmetry and negation laws in C20; same class as C01-C, C20-N)"),
 "C02-P": ("sort_by over 13 or more elements with equal keys: sort.Sort instead of sort.Stable", "caught as built (C02 model, C13 unique ids; same class as C02-A)"),
 "C02-Q": ("pad_left / pad_right with a multi-byte subject and a width above its character count but not above its byte length: a byte-length fast path returns the subject unpadded", "caught as built (C02 lattice, C11 positions and renaming)"),
 "C03-P": ("a quoted identifier in which a surrogate escape is followed by a second \\u escape cut short by the closing quote: the length guard of the second parse is lost, slice bounds panic", "caught as built (lone-surrogates, truncations; same class as C03-A)"),
 "C03-Q": ("==, contains or a filter comparing two foreign Go values of the same uncomparable type: 'return x == y' panics", "caught as built (hostile panel; same class as C03-B)"),
 "C04-P": ("a backtick literal that is a bare JSON string without escapes holding a raw control character: a fast path skips the JSON decoder, the text compiles", "caught as built (control-characters-in-literals, added in round 12)"),
 "C04-Q": ("'$' directly followed by a digit ($1, $007): the shared identifier scanner lost the first-character check, the text compiles as a variable", "caught as built (edits neighbourhood and tokens)"),
 "C05-P": ("`-9223372036854775808` * `-1` with both operands integer-spelled: the int64 fast path's divide-back overflow check accepts MinInt64 / -1", "caught as built (exhaustive boundary pool; 2 violations)"),
 "C05-Q": ("// of a 34-digit dividend whose exact quotient lies less than half a unit of the 34th digit below an integer: Quo rounds before Trunc", "caught as built (pool of 34-digit operands; same class as C05-B)"),
 "C06-P": ("merge whose first argument is a JSON literal object, evaluated twice on one Expression: later arguments are merged into the literal held by the AST", "caught as built (fingerprint hook; directed forms)"),
 "C06-Q": ("a bare [*] on a document array with a null followed by a non-null element: the in-place filter idiom overwrites the caller's array", "caught as built (same class as C06-A)"),
 "C07-P": ("sort / sort_by applied directly to a bare wildcard of a null-free unsorted array of the shared document: sorted in place", "caught as built (directed aliasing forms; also C06)"),
 "C07-Q": ("contains(<literal array of 32 or more strings>, <string>) on a shared Expression whose first evaluations happen concurrently: an unsynchronised sorted index is built inside the ArrayNode", "missed at first (no literal of 32 strings met contains; warm items had been evaluated through a separate compile); caught after adding ~330 literal-argument forms (arrays of 8 / 33 / 100 / 300 strings, numbers or both, objects of 8 / 40 / 120 members, long strings, wide multi-selects, number literals in every spelling) that always stay cold: fingerprint change on 192 expressions, and a race report"),
 "C08-P": ("a text with a leading or trailing non-grammar space whose trimmed neighbour was compiled earlier in the same process: parse cache keyed by strings.TrimSpace", "caught as built (history stream; same class as C06-B, C04-D)"),
 "C08-Q": ("an undefined variable raised inside the key expression of sort_by: wrapped in a 'which element' error the category mapping does not look through", "caught as built (fault sites at element positions; same class as C08-D, -J, -N)"),
 "C09-P": ("a negative step of huge magnitude on a string: the skip loop after the last selected character runs |step| times", "caught as built (magnitude stream; same class as C09-D)"),
 "C09-Q": ("an integer argument spelled 0e<huge exponent> as json.Number: a scale-by-ten loop runs |exponent| times for a zero mantissa", "caught as built (zero mantissas with huge exponents, added in round 6)"),
 "C10-P": ("'//' next to an additive, multiplicative or comparison operator: a token range check gives it comparator binding power", "caught as built (pairs)"),
 "C10-Q": ("an operand ending in a plain index followed by a binary operator and a tighter one: stale binding power after 'continue'", "caught as built (postfix operands; same class as C10-D)"),
 "C11-P": ("reverse of a string containing U+FFFD: a correctly encoded U+FFFD is taken for a decoding error and copied byte by byte in reverse", "caught as built (alphabet holds U+FFFD; UTF-8 walk)"),
 "C11-Q": ("split(s, '', n) with n at least the number of code points and a multi-byte last character: a spurious empty string is appended", "missed at first by every check: split on '' with a count that reaches the end is in the model's abstention list (the reference implementation appends an empty string there, see C02-B); caught after adding the rename-directed stream, which compares the library with itself: the answer for 2-, 3- and 4-byte letters must be the renamed answer for ASCII letters, counts and windows written relative to length(s)"),
 "C12-P": ("an explicit step within a few units of the 64-bit limit and a span of two or more elements: (c + stride - 1) overflows", "caught as built (lattice bounds and steps at the 64-bit limits)"),
 "C12-Q": ("a stepped slice applied to the current node when it is a string (s | [::-1], map(&[::-1], strs)): the inlined type switch forgets SliceStepCurrentNode", "caught as built (two carriers and 17 positions)"),
 "C13-P": ("sort_by with string keys, more than 12 elements and equal keys: slices.SortFunc is not stable", "caught as built (unique ids)"),
 "C13-Q": ("min / min_by where an empty string precedes an element or key of another type: the loop stops at the empty string and skips the remaining type checks", "caught as built (invalid stream)"),
 "C14-P": ("// of two floats whose quotient needs more than 53 bits: the remainder check that confirms the truncated float quotient is weakened", "caught as built (float-quotients, added in round 11)"),
 "C14-Q": ("an ordering comparison between a Go uint of at least 2^63 and another Go integer: the native fast path converts uint unchecked", "caught as built (boundary values through every carrier; 3 violations)"),
 "C15-P": ("a single-binding let nested in another let whose name is new to the enclosing scope, read by a sibling member of a multi-select hash: the name is bound in the enclosing scope and never removed, the sibling sees it or not depending on map iteration order", "missed by C15 at first (its let-in-member forms either had no enclosing let or shadowed a name the enclosing scope already held), caught by C19 through the model; C15 catches it after adding ~150 sibling-scope forms (lets in some members, the same names read by the siblings, under 0..2 enclosing lets that do or do not bind them)"),
 "C15-Q": ("merge whose first argument is a JSON literal object, evaluated more than once from one parse with differing later arguments", "caught as built (merges into literals, added in round 9; also C06)"),
 "C16-P": ("a raw string literal in which a backslash is followed by a multi-byte character: the scanner skips one byte instead of one character", "caught as built (exhaustive alphabet holds multi-byte symbols after backslashes)"),
 "C16-Q": ("a quoted identifier spelling U+FFFD as \\uFFFD: the bad-surrogate check is hoisted out of the surrogate branch", "caught as built (escape encodings of every alphabet symbol; U+FFFD is one)"),
 "C17-P": ("an infix x[*] with a right-hand side that is non-null on a string, where x is a string: the string-slice special case no longer checks for a slice on the left", "caught as built (grid over non-array subjects)"),
 "C17-Q": ("a leading or piped [*] followed by a plain selector and then a filter: the right-hand side is parsed with the filter's binding power", "caught as built (grid)"),
 "C18-P": ("to_number of an all-digit string with a redundant leading zero ('007'): returned as an invalid json.Number that type() calls a number and encoding/json refuses", "missed at first by C18 and C02 (no number-like text with a leading zero among the string subjects); caught after adding number-conversions to C18 (every string of up to 4 symbols over '0 1 9 - + . e E space' and ~280 near-numbers through 10 forms of to_number: domain walk, serialisation, model, re-query) and number-texts to C02 (the same texts against the model)"),
 "C18-Q": ("more than 50000 selections from null in one evaluation: an early return leaves the depth counter raised; two pipe stages fail together where each succeeds alone", "caught as built (many-elements requery, added in round 12; 2 violations)"),
 "C19-P": ("nine or more nested lets with a name shadowed among the outer eight: the scope chain is collapsed outermost-last", "caught as built (towers)"),
 "C19-Q": ("a let whose body is a let with a binding that contains a third let rebinding an outer name from itself: the two outer lets are merged, the free-variable check treats the rebinding as hiding the name in its own binding expressions", "caught as built (random lets in bindings; 12 violations)"),
 "C20-P": ("a filter projection (rows[?p].id) whose predicate evaluates to an empty object: the inlined truth test forgets map[string]any", "caught as built (truthiness x filter forms)"),
 "C20-Q": ("same as C01-Q, written independently", "caught as built (pairs, symmetry, negation, filter-equality)"),
}
for sid, (needs, hist) in sorted(N.items()):
    d = f"/verif/seeded/{sid}"
    txt = open(os.path.join(d, "check_results.txt")).read()
    caught = []
    for ln in txt.splitlines():
        for m in re.finditer(r"CHECK (C\d\d) exit=(\d+)", ln):
            if m.group(2) == "1":
                caught.append(m.group(1))
    pid = sid[:3]
    meta = {"id": sid, "breaks_property": pid, "round": 13,
            "written_by": "independent sub-agent given only the property text and a scratch worktree (nothing about the tester); asked for two realistic changes that need something specific to manifest",
            "needs_to_manifest": needs,
            "confirmed": {"applies_to_repo_head": "MUTANT-ERROR" not in txt, "pinned_suite_passes_with_change": "suite: passes with the change" in txt,
                          "demo_fails_with_change": "demo: fails with the change" in txt, "demo_passes_without_change": "demo: passes without the change" in txt,
                          "how": f"tools/mutant2.sh seeded/{sid}/patch.diff seeded/{sid}/demo_test.go.txt <checks>  (scratch worktree)"},
            "detected_by_quick_checks": sorted(set(caught), key=lambda c: (c != pid, c)), "history": hist}
    json.dump(meta, open(os.path.join(d, "meta.json"), "w"), indent=1, ensure_ascii=False)
    print(sid, meta["detected_by_quick_checks"], all(v for k, v in meta["confirmed"].items() if k != "how"))
