#!/bin/sh
# tools/reach.sh [tier] [seed]
# Runs every check once keeping its run directory, merges the coverage counters all
# their children left and prints (a) the statement coverage of the library reached by
# the union of the workloads and (b) every library function that is not fully reached,
# i.e. the code the monitors say nothing about.  Output: reach/<tier>.txt
set -e
VERIF_DIR=$(cd "$(dirname "$0")/.." && pwd)
tier=${1:-quick}; seed=${2:-1}
export GOFLAGS=-mod=mod GOPROXY=off
unset GOTOOLCHAIN GOSUMDB
cd "$VERIF_DIR"
stamp=$(mktemp -d "$VERIF_DIR/.run/reach.XXXXXX")
dirs=""
for p in C01 C02 C03 C04 C05 C06 C07 C08 C09 C10 C11 C12 C13 C14 C15 C16 C17 C18 C19 C20; do
  VERIF_KEEP=1 VERIF_SEED=$seed ./check $p $tier >"$stamp/$p.log" 2>&1 || true
  grep -E '^RESULT|^VIOLATION' "$stamp/$p.log" | cut -c1-200
  d=$(ls -d .run/$p-$tier-$seed-*/out.cover/cov 2>/dev/null | tail -1)
  if [ -n "$d" ] && [ -n "$(ls "$d" 2>/dev/null)" ]; then
    mkdir -p "$stamp/m.$p"
    (cd harness && go tool covdata merge -i="$VERIF_DIR/$d" -o="$stamp/m.$p" -pkg=github.com/woodsbury/jmespath,github.com/woodsbury/jmespath/internal/evaluator,github.com/woodsbury/jmespath/internal/lexer,github.com/woodsbury/jmespath/internal/parser)
    dirs="$dirs${dirs:+,}$stamp/m.$p"
  fi
  rm -rf .run/$p-$tier-$seed-*
done
mkdir -p reach "$stamp/all"
(cd harness && go tool covdata merge -i="$dirs" -o="$stamp/all")
{
  echo "# union of all checks, tier=$tier seed=$seed, /repo $(git -C /repo rev-parse --short HEAD)"
  (cd harness && go tool covdata percent -i="$stamp/all")
  echo
  echo "# library functions not fully reached by any workload (statement coverage < 100%)"
  (cd harness && go tool covdata func -i="$stamp/all") | grep -v '100.0%' | grep -v '^total' | sed 's#github.com/woodsbury/jmespath#.#' | sort -k3 -n -t"$(printf '\t')"
} > reach/$tier.txt
rm -rf "$stamp"
tail -n +1 reach/$tier.txt | head -12
