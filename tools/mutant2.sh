#!/bin/sh
# tools/mutant2.sh <patch.diff> <demo_test.go|-> <PROP>...   (tier from $TIER, default quick)
# Like tools/mutant.sh but never touches /repo's working tree: the change is applied in a scratch
# worktree under /tmp and the checks are built against it (VERIF_REPO_OVERRIDE), so it can run while
# a sweep is using /repo.  The worktree and its build output are removed at the end.
patch=$(readlink -f "$1"); demo=$2; shift 2
[ "$demo" != "-" ] && demo=$(readlink -f "$demo")
tier=${TIER:-quick}
cd /verif
wt=$(mktemp -d /tmp/mw.XXXXXX); rmdir "$wt"
git -C /repo worktree add -q --detach "$wt" HEAD || { echo "MUTANT-ERROR worktree"; exit 2; }
cleanup() { git -C /repo worktree remove --force "$wt" 2>/dev/null; rm -rf "$wt"; git -C /repo worktree prune; }
trap cleanup EXIT INT TERM
if ! git -C "$wt" apply "$patch" 2>/dev/null; then echo "MUTANT-ERROR patch does not apply: $patch"; exit 2; fi
export GOFLAGS=-mod=mod GOPROXY=off
if ! (cd "$wt" && go build ./... && go vet -tags verif . >/dev/null 2>&1; go test -count=1 ./... >"$wt/.suite.log" 2>&1); then echo "MUTANT-SUITE-FAILS $patch"; tail -5 "$wt/.suite.log"; exit 3; fi
echo "suite: passes with the change"
if [ "$demo" != "-" ]; then
  cp "$demo" "$wt/zz_demo_test.go"
  if (cd "$wt" && go test -count=1 -run . . >"$wt/.demo.log" 2>&1); then echo "demo: PASSES with the change (does not demonstrate!)"; else echo "demo: fails with the change (as it should)"; fi
  rm -f "$wt/zz_demo_test.go"
  git -C "$wt" apply -R "$patch"; cp "$demo" "$wt/zz_demo_test.go"
  if (cd "$wt" && go test -count=1 -run . . >"$wt/.demo0.log" 2>&1); then echo "demo: passes without the change (as it should)"; else echo "demo: FAILS without the change!"; tail -5 "$wt/.demo0.log"; fi
  rm -f "$wt/zz_demo_test.go"; git -C "$wt" apply "$patch"
  git -C "$wt" diff --quiet && { echo "MUTANT-ERROR change not applied for the checks"; exit 2; }
fi
# a private snapshot of the harness, so that edits to /verif during the run do not mix into it
snap="$wt/.verif"; mkdir -p "$snap"; cp -r /verif/harness "$snap/harness"; cp /verif/known_findings.json "$snap/"
(cd "$snap/harness" && go build -tags verif -o "$wt/.vcheck" ./cmd/vcheck) || { echo "MUTANT-ERROR driver build"; exit 2; }
for p in "$@"; do
  out=$(cd "$snap/harness" && VERIF_DIR="$snap" VERIF_REPO_OVERRIDE="$wt" "$wt/.vcheck" $p $tier 2>&1); code=$?
  rules=$(echo "$out" | grep -E "^  rule=|violations rule=" | sed 's/ stream=.*//' | sort | uniq -c | sort -rn | head -4 | tr '\n' ';')
  echo "CHECK $p exit=$code $(echo "$out" | grep ^RESULT | sed 's/.*verdict=\([a-z]*\).*violations=\([0-9]*\).*wall=\(.*\)/verdict=\1 violations=\2 wall=\3/') :: $rules"
done
