#!/bin/sh
# tools/roundeval.sh <outdir> <PROP>...  : confirm one sub-agent change (outdir holds patch.diff, demo_test.go) and run the given checks against it
d=$1; shift
cd /verif
tools/mutant2.sh "$d/patch.diff" "$d/demo_test.go" "$@" > "$d/check.txt" 2>&1
cat "$d/check.txt"
