#!/bin/sh
# tools/roundbatch.sh <rounddir> "Cnn X [extra props]"... : evaluate several sub-agent changes in parallel, print the summary lines
r=$1; shift
for x in "$@"; do
  set -- $x; p=$1; v=$2; shift 2
  (/verif/tools/roundeval.sh $r/$p.out/$v $p "$@" >/dev/null 2>&1; echo "== $p-$v"; grep -E "^demo|^CHECK|MUTANT" $r/$p.out/$v/check.txt) &
done
wait
