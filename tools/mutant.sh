#!/bin/sh
# tools/mutant.sh <patch.diff> <demo_test.go|-> <PROP>...   (tier from $TIER, default quick)
# Applies a seeded change to /repo, confirms it builds and passes the pinned suite, optionally runs the
# demonstration, runs the given checks, prints one line per check, and restores /repo.
patch=$1; demo=$2; shift 2
tier=${TIER:-quick}
cd /verif
if [ -n "$(git -C /repo status --porcelain)" ]; then echo "MUTANT-ERROR /repo not clean"; exit 2; fi
if ! git -C /repo apply --check "$patch" 2>/dev/null; then echo "MUTANT-ERROR patch does not apply: $patch"; exit 2; fi
git -C /repo apply "$patch"
restore() { git -C /repo checkout -- . ; git -C /repo clean -fdq; }
trap restore EXIT INT TERM
export GOFLAGS=-mod=mod GOPROXY=off
if ! (cd /repo && go build ./... && go vet -tags verif . >/dev/null 2>&1; go test -count=1 ./... >/tmp/mutant_suite.log 2>&1); then echo "MUTANT-SUITE-FAILS $patch"; tail -5 /tmp/mutant_suite.log; exit 3; fi
echo "suite: passes with the change"
if [ "$demo" != "-" ]; then
  cp "$demo" /repo/zz_demo_test.go
  if (cd /repo && go test -count=1 -run . . >/tmp/mutant_demo.log 2>&1); then echo "demo: PASSES with the change (does not demonstrate!)"; else echo "demo: fails with the change (as it should)"; fi
  rm -f /repo/zz_demo_test.go
fi
for p in "$@"; do
  out=$(./check $p $tier 2>&1); code=$?
  rules=$(echo "$out" | grep -E "^  rule=|violations rule=" | sed 's/ stream=.*//' | sort | uniq -c | sort -rn | head -4 | tr '\n' ';')
  echo "CHECK $p exit=$code $(echo "$out" | grep ^RESULT | sed 's/.*verdict=\([a-z]*\).*violations=\([0-9]*\).*wall=\(.*\)/verdict=\1 violations=\2 wall=\3/') :: $rules"
done
