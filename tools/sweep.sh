#!/bin/sh
# tools/sweep.sh <tier> <seed>...   : runs every check at the given seeds, prints RESULT/VIOLATION lines
tier=$1; shift
for seed in "$@"; do
  for p in C01 C02 C03 C04 C05 C06 C07 C08 C09 C10 C11 C12 C13 C14 C15 C16 C17 C18 C19 C20; do
    VERIF_SEED=$seed ./check $p $tier 2>&1 | grep -E "^RESULT|^VIOLATION|^INCONCLUSIVE|^  rule=|^  expr=|^  got=|^  want=|KNOWN" | cut -c1-400
  done
done
