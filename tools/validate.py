#!/opt/veriftools/pyvenv/bin/python
import json,jsonschema,glob,sys
jsonschema.validate(json.load(open('/verif/MANIFEST.json')),json.load(open('/root/.vp/MANIFEST.schema.json')))
print('manifest ok')
s=json.load(open('/root/.vp/EVIDENCE.schema.json'))
for f in sorted(glob.glob('/verif/evidence/*.json')):
    try:
        jsonschema.validate(json.load(open(f)),s); print(f,'ok')
    except Exception as e:
        print(f,'INVALID',str(e)[:300]); sys.exit(1)
