#!/usr/bin/env python3
# summarise violations of the most recent kept run dir: tools/viol.py [rule-substring] [max]
import json,glob,sys,os
dirs=sorted(glob.glob('/verif/.run/*-*-*-*'),key=os.path.getmtime)
d=dirs[-1]
pat=sys.argv[1] if len(sys.argv)>1 else ''
mx=int(sys.argv[2]) if len(sys.argv)>2 else 40
n=0
for f in sorted(glob.glob(d+'/out.*/events.*.jsonl')):
    for l in open(f):
        r=json.loads(l)
        if r.get('kind')!='violation': continue
        if pat and pat not in r['rule']: continue
        n+=1
        if n<=mx:
            print('---',r['rule'],r['stream'],r['idx'],r.get('features') or '')
            print('  expr:',r['expr'][:300].replace('\n','\\n'))
            print('  data:',r['data'][:300])
            print('  got: ',r['got'][:300])
            print('  want:',r['want'][:300], '|', r['detail'][:200])
print(n,'violations in',d)
