#!/usr/bin/env python3
"""Regenerates /verif/MANIFEST.json from the table below (kept in one place so the
manifest stays valid while checks are added)."""
import json, subprocess

CLAIMED = {
 # id: (technique, level text, level note, design ref)
 "C01": ("reference-model monitor over generated + exhaustive-grid executions",
         "Every Search / Compile+Search execution of an exhaustive selector-chain grid (all chains of <=3/4 selectors x 7 roots x 12 documents) and of seeded document-directed random core-language expressions is compared with an independent reference evaluator; held = no disagreement on any decided case explored.",
         "Trusts the reference model where it decides (calibrated on the whole compliance corpus, abstains where the spec is open); covers only the executions produced.", "§6 C01"),
 "C02": ("reference-model monitor over an exhaustive argument-type matrix, a boundary lattice and generated calls",
         "Every builtin x every arity 0..max+1 x every argument vector over a 23-value pool (exhaustive to arity 3, arity 4 exhaustive in thorough), an exhaustive integer-parameter boundary lattice, and seeded document-directed calls (incl. caller-scope expression references) are executed through Search and compared with independent reference builtins (value, or error category).",
         "Trusts the reference builtins where they decide (abstentions listed in ref/DETERMINACY.md); huge pad widths are not executed (known finding on C03).", "§6 C02"),
 "C03": ("crash monitor: recovered-panic oracle + child-death attribution via a crash-surviving intent slot; thorough tier repeats the data workloads under the race detector (checkptr)",
         "Hostile expression bytes (exhaustive truncations of the corpus, random bytes/tokens, token mutants, 1 MiB flat inputs, 20 recursive constructs nested to 1e5/3e5 and 4e6) and hostile Go data (every numeric kind incl. NaN/Inf, odd json.Number texts, decimal specials, typed nils, foreign values, invalid UTF-8 in every argument position of every builtin and operator) are driven through Search, Compile and Expression.Search in child processes; every returned error is formatted; panics and process deaths are violations.",
         "A death is attributed to the last intent record; address space capped at 4 GiB per child; wall-clock watchdog firings are 'not judged'. Known finding: pad widths beyond memory (known_findings.json).", "§6 C03"),
 "C04": ("reference-recogniser monitor over exhaustive whitespace-gap and single-token-edit neighbourhoods",
         "Compile's verdict on every text is compared with two independent recognisers (STRICT must compile / LENIENT-rejected must fail with a syntax error, or with a static function fault when a call precedes the error); the texts are every token gap of a base set filled with 5 whitespace strings, the complete single-token-edit neighbourhood of that base set (45 token kinds), hand-written member/non-member lists, generated members in hostile spellings and generated/corrupted JSON literal texts. A non-member that compiles is reported with what it evaluated to.",
         "Texts between STRICT and LENIENT (whitespace inside [*]/[]/[?, let/in as identifiers, >64-bit integers, lone surrogates, raw control characters in quoted identifiers, multi-select directly after a projection) are not judged.", "§6 C04"),
}

ALL = ["C%02d" % i for i in range(1, 21)]

def main():
    try:
        commits = subprocess.check_output(["git", "-C", "/repo", "log", "--format=%H %s"], text=True).splitlines()
    except Exception:
        commits = []
    hook_commits = [c.split()[0] for c in commits if "verif hook" in c]
    checks = []
    for pid in ALL:
        if pid not in CLAIMED:
            continue
        tech, text, note, ref = CLAIMED[pid]
        checks.append({
            "property_id": pid,
            "quick_cmd": "./check %s quick" % pid,
            "thorough_cmd": "./check %s thorough" % pid,
            "evidence_file": "/verif/evidence/%s.json" % pid,
            "replay_cmd_template": "./check replay {path}",
            "engine": "vcheck",
            "level_claimed": {"category": "exploration", "text": text, "design_ref": ref},
            "level_note": note,
            "technique": tech,
        })
    na = [{"property_id": p, "reason": "check not built yet in this session (runtime-monitoring design exists in DESIGN.md §6); not claimed until its monitor is registered and silent on the unchanged tree"} for p in ALL if p not in CLAIMED]
    m = {
        "version": 1,
        "setup_cmd": "./setup.sh",
        "hooks": {
            "guard": "verif",
            "enable": "go build -tags verif (the worker is built from /verif/harness with `replace github.com/woodsbury/jmespath => /repo`)",
            "baseline_off_cmd": "cd /repo && GOFLAGS=-mod=mod GOPROXY=off go test -vet=off -count=1 ./...",
            "source_commits": hook_commits,
            "add_only": True,
        },
        "engines": [{"name": "vcheck", "path": "/verif/harness", "serves_properties": sorted(CLAIMED), "kind_free_text": "Go driver + child-process workers running monitors (reference-model, metamorphic, invariant, race detector, coverage-counter step clock) next to the real library"}],
        "checks": checks,
        "not_applicable": na,
        "notes": "Runtime monitoring only. Exit 0 held / 1 violation (VIOLATION line) / 2 inconclusive. Known findings: /verif/known_findings.json.",
    }
    json.dump(m, open("/verif/MANIFEST.json", "w"), indent=1)
    print("claimed:", sorted(CLAIMED))

main()
