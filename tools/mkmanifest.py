#!/usr/bin/env python3
"""Regenerates /verif/MANIFEST.json from the table below (kept in one place so the
manifest stays valid while checks are added)."""
import json, subprocess

CLAIMED = {
 # id: (technique, level text, level note, design ref)
 "C01": ("reference-model monitor over generated + exhaustive-grid executions",
         "Every Search / Compile+Search execution of an exhaustive selector-chain grid (all chains of <=3/4 selectors x 7 roots x 12 documents), of index and slice literals at the 8/16/32/64-bit boundaries (also zero-padded spellings) over arrays of 1..300 elements in every position an index can take, of 65 words that are keywords or literals elsewhere used as field names in every identifier position, of every comparison operator between all pairs of 44 numbers at the 2^31/2^32/2^53/2^63/2^64/10^19 boundaries, and of seeded document-directed random core-language expressions is compared with an independent reference evaluator; held = no disagreement on any decided case explored.",
         "Trusts the reference model where it decides (calibrated on the whole compliance corpus, abstains where the spec is open); covers only the executions produced.", "§6 C01"),
 "C02": ("reference-model monitor over an exhaustive argument-type matrix, a boundary lattice and generated calls",
         "Every builtin x every arity 0..max+1 x every argument vector over a 23-value pool (exhaustive to arity 3, arity 4 exhaustive in thorough), an exhaustive integer-parameter boundary lattice, seeded document-directed calls (incl. caller-scope expression references and expression-reference bodies that call builtins again), every per-element construct paired with every construct evaluated inside its body (19 x 32 re-entrant pairs), wide forms (variadic calls, multi-selects, lets, chains and nestings with 1..257 members), one wrong-typed element at the first/middle/last positions of arrays and argument lists of 1..65 members for every array/variadic builtin, every numeric builtin over 44 boundary numbers (literal, string and document routes), and ~60 forms over inputs of 1000..100000 elements are executed through Search and compared with independent reference builtins (value, or error category).",
         "Trusts the reference builtins where they decide (abstentions listed in ref/DETERMINACY.md); huge pad widths are not executed (known finding on C03).", "§6 C02"),
 "C03": ("crash monitor: recovered-panic oracle + child-death attribution via a crash-surviving intent slot; thorough tier repeats the data workloads under the race detector (checkptr)",
         "Hostile expression bytes (exhaustive truncations of the corpus, random bytes/tokens, token mutants, 1 MiB flat inputs, 20 recursive constructs nested to 1e5/3e5 and 4e6) and hostile Go data (every numeric kind incl. NaN/Inf, odd json.Number texts, decimal specials, typed nils, foreign values, invalid UTF-8 in every argument position of every builtin and operator; an exhaustive start/stop/step lattice over the 64-bit limits on single-byte strings, multi-byte strings and arrays; failing expressions of every error category with the long text in every argument position, 0..140 and up to 65537 characters of one encoded width at every byte alignment) are driven through Search, Compile and Expression.Search in child processes; every returned error is formatted; panics and process deaths are violations.",
         "A death is attributed to the last intent record; address space capped at 4 GiB per child; wall-clock watchdog firings are 'not judged'. Known finding: pad widths beyond memory (known_findings.json).", "§6 C03"),
 "C04": ("reference-recogniser monitor over exhaustive whitespace-gap and single-token-edit neighbourhoods",
         "Compile's verdict on every text is compared with two independent recognisers (STRICT must compile / LENIENT-rejected must fail with a syntax error, or with a static function fault when a call precedes the error); the texts are every token gap of a base set filled with 5 whitespace strings, the complete single-token-edit neighbourhood of that base set (45 token kinds), hand-written member/non-member lists, every text of <= 5/6 characters over the JSON-number alphabet as a JSON literal (alone, in an array, as a member, in a filter), ~125 foreign tokens (other languages' operators and keywords, look-alikes) inserted at token gaps, complete constructs in slots that do not admit them, ~330 unusual code points (format characters, separators, C1 controls, noncharacters) in every literal kind and between tokens, long/wide/deep members up to 300000 repetitions or nesting 4000 (each also with a stray last token), generated members in hostile spellings and generated/corrupted JSON literal texts. A non-member that compiles is reported with what it evaluated to.",
         "Texts between STRICT and LENIENT (whitespace inside [*]/[]/[?, let/in as identifiers, >64-bit integers, lone surrogates, raw control characters in quoted identifiers, multi-select directly after a projection) are not judged.", "§6 C04"),
 "C05": ("reference-model monitor with exact rational arithmetic (big.Rat) and ulp bounds",
         "Every arithmetic execution (60x60 boundary pool x 12 operators exhaustive, seeded operands up to 34/40 digits across the decimal128 exponent range, cancelling pairs, sum/avg/abs/ceil/floor/to_number/comparison, and prefix ladders that feed one long number text prefix by prefix within one process) is compared with exact rational arithmetic: equal when the exact result has <= 34 significant digits, within one unit of the 34th digit otherwise, not-a-number error for division by zero/overflow, never an infinity or NaN value; operands travel as json.Number, literal and decimal128.",
         "// and % judged only for operands of equal sign; operands or partial sums that a decimal128 cannot hold exactly, results below 1e-6143 or with exponent 6145..6199 are not judged.", "§6 C05"),
 "C09": ("deterministic step clock from compiler coverage counters + allocation meter + step-budget sampler",
         "Per call, the number of basic-block executions inside the library (coverage counters, atomic mode) and the bytes allocated are measured; magnitude families (cost at 1e3..2^63-1 vs cost at 20; magnitudes also spelled as zero or small mantissas with huge exponents), scaling families (incl. operator chains with truthy and with falsy operands in both short-circuit directions; growth exponent <= 2.2 over n = 10..1e4/1e5) and random calls (<= 5000 steps per size unit) are judged on those counts, never on wall-clock time; a sampler ends a call that exceeds its step budget and the driver reports it.",
         "'Every call terminates' is decided as bounded progress under a step budget; time inside the standard library/decimal128 is only visible through allocation and the inconclusive-only wall-clock watchdog.", "§6 C09"),
 "C11": ("reference-model monitor on code points + UTF-8 validity invariant + metamorphic renaming relation",
         "Position/length/width/order results of every string operation are compared with a code-point model for every position in [-len-2, len+2] and extremes; every string of every result is checked for UTF-8 validity; renaming a-z to 2-/3-/4-byte letters in expression and data must rename the result identically (library against itself).",
         "lower/upper of characters with special or context-dependent casing, ordering operators on strings, negative find_* positions where readings differ and split('' , count >= length) are not judged.", "§6 C11"),
 "C12": ("reference-model + direct-oracle monitor over an exhaustive slice lattice",
         "x[start:stop:step] for n in 0..7 over a 25x25x17 boundary lattice (incl. +-2^62, 2^63-1, -2^63) on arrays and on strings of mixed-width code points (exhaustive), seeded n <= 300 with random 64-bit parameters and the projection rule, slices nested inside other slices' projections / multi-selects / filters / expression references over 2-D and 3-D arrays, prose-like strings (long single-byte runs with sparse multi-byte characters) under every step 1..80, a 70000-element array and 70000-character strings with bounds around 2^15/2^16/2^17 in every slice position, compared with the specification's slice algorithm evaluated on big integers by two independent oracles.",
         "Integer literals beyond 64 bits are a grammar gap.", "§6 C12"),
 "C10": ("metamorphic monitor (implied parentheses) + reference-model monitor over all operator pairs/triples with distinguishing documents",
         "For every ordered pair and (thorough) triple of the 18 binary operator spellings, with and without unary prefixes, documents are searched on which the specified grouping differs from every other grouping; on those the library's result for the bare chain must equal its result for the chain with the implied parentheses written out and the model's value, and every explicitly parenthesised alternative must match the model; a literals stream runs chains over fields and literal numbers at the machine-width boundaries against the model, against the chain with implied parentheses and against the same chain with the literals moved into the document; a paren-override stream evaluates x op (y op z) over rounding-sensitive operands (34-digit edge, overflow, Go floats) against the model and against the same computation with the group bound to a let variable.",
         "Chains for which no distinguishing document exists (e.g. + with -) cannot be decided by execution and are only counted; arithmetic on non-numbers and // % with mixed signs are not judged.", "§6 C10"),
 "C13": ("direct-oracle monitor using unique element ids (permutation, order, stability, extremes, input snapshot)",
         "Arrays of records carrying their original index are sorted/minimised by the library; the monitor reads permutation, non-decreasing order by exact numeric value / code point, stability of equal keys, extremality and membership straight off the ids, for lengths up to 5000 with heavy duplication, numeric respellings and cross-plane strings, structured key orders, and key expressions that themselves sort or select (re-entering the sort routines); invalid arrays with the offending element at every position must raise invalid-type; the input is compared with a snapshot.",
         "Key order is computed with big.Rat / code points by the harness.", "§6 C13"),
 "C17": ("metamorphic monitor: structural identities, library against itself",
         "Every instantiation of the identity schemata over 15 bases x 60 selector tails (incl. index literals around the 8-bit boundaries) x 11 filters x 16 documents (two with 300-element arrays), plus seeded random ones, plus slot rewrites (1-3 expression slots of generated expressions and of ~100 optimiser-targeted idioms replaced by (e | @), (@ | e), (let $zz = e in $zz), which keep meaning and evaluation order but defeat peephole rewrites and fused fast paths), is evaluated on both sides by the library - each side on its own fresh copy of the document - and the outcomes compared (values canonically, errors by category).",
         "The reference model is only used to drop instances whose meaning is not pinned (order-dependent enumerations, null elements meeting multi-selects/functions); dropped instances are counted.", "§6 C17"),
 "C20": ("reference-model + relational-law monitor over all pairs/triples of a value pool",
         "All ordered pairs of a 64-value pool through ==, !=, contains, filter equality and container wrappers (literal and document routes; numbers as json.Number and as float64/float32/int64/uint64/decimal128 wherever exact) against deep type-strict model equality with reflexivity, symmetry, negation; all triples for transitivity (thorough); every value pair through !, &&, ||, filter predicates against the single false-like set, && and || returning an operand unchanged; random nested values with controlled perturbations; whole comparison matrices computed inside one evaluation with operands rebound per element (every comparison node evaluated many times with different values and types).",
         "Numbers compared exactly as rationals; values beyond 34 digits are not in the pool.", "§6 C20"),
 "C14": ("metamorphic monitor: outcome invariance under re-typing of number leaves, library against itself",
         "For documents of dyadic rationals (exact in every Go numeric kind) and 112 templates (incl. sorts and comparisons re-entered per element) plus random expressions, the outcome with all leaves as canonical json.Number is compared with the outcomes under 6 random assignments of Go kinds and json.Number spellings per case; a boundary stream does the same for large integral values (2^31..2^64, 2^100) in every kind that holds them exactly, alone and together with their neighbours v-1 and v+1; a dyadic-deep stream does it for fractions m/2^k with 16-34 significant digits in every pair of carriers; a precise stream does it for 17 numbers that need more precision than a float64 has (near-integers, 2^63-1 with a fraction part) in every carrier that holds them exactly, and against the exact model.",
         "The precondition (every intermediate value exactly representable in each kind) is enforced by construction: dyadic leaves, no general division.", "§6 C14"),
 "C16": ("direct-oracle monitor over exhaustive short strings through every literal syntax",
         "Every string of length <= 3/4 over a 27-symbol hostile alphabet (incl. LF, CR, NUL), a boundary set of code points and seeded long strings are written as raw strings, JSON literals (4 encodings) and quoted identifiers (as field and as multi-select key) and must decode to themselves, each preceded in the same process by malformed neighbours (bad escape after a valid prefix, unterminated literal); ladders of 20-70 keys/strings that are prefixes of one another evaluated in sequence and inside one expression; generated JSON values in random layouts between backticks must evaluate to themselves with numbers at full precision.",
         "The encoders are written from the grammar by the harness; the generator knows each expected value by construction.", "§6 C16"),
 "C18": ("domain-walk invariant + metamorphic re-query monitor, library against itself",
         "Every result of value-constructing expressions is walked for non-JSON dynamic types, typed nils and non-finite numbers, serialised and decoded (views must agree), and re-queried: Search(e2, r1) and Search(e2, JSON round trip of r1) must equal Search('(e1) | e2', doc) and Search('e1 | e2', doc) for e2 from a 73-expression panel; a deep stream does it for documents nested 10..49990 levels; a big-shared stream for arrays of 32-70 elements that e1 hands on and e2 searches again; a literal-results stream does the same for JSON literals in random legal layouts (white space inside the backticks); a null-elements stream does the same for arrays with leading nulls built by projections, filters, slices and functions (map, zip, reverse, not_null...).",
         "to_string is excluded from the comparison after the JSON round trip (number spellings may differ); order-dependent enumerations are skipped when the model does not judge them.", "§6 C18"),
 "C19": ("reference-model monitor with unique-tag bindings",
         "66 canonical scope shapes (incl. null-valued inner bindings shadowing outer ones at every use site, wide lets of 6-10 bindings followed by narrow lets looking up unbound names) and seeded random nestings (depth 3-4, occasionally 5-10 bindings) bind unique tagged literals or the id of the current node, so each result identifies the binding and the context that were captured; every outcome is compared with the reference model's lexical environments, incl. undefined-variable errors only where the reference is evaluated.",
         "Trusts the reference model's environments (50 lines); calibrated on letexpr.json.", "§6 C19"),
 "C06": ("history monitor: per-call comparison with fresh evaluation + deep snapshots (capacity-tail canaries, container identities) + AST fingerprint hook",
         "Histories of 3-8 Expression.Search calls over 2-4 documents with repeats are checked call by call: outcome = fresh one-shot Search on a deep copy, every document byte-for-byte as snapshotted (incl. sentinel values in the unused capacity of every slice), AST fingerprint unchanged (hook VerifASTFingerprint), every earlier result still equal to its snapshot; a directed list applies every ordering/reversing/merging builtin to every way of passing an array of the document or a literal without a copy; a limits stream finds the largest expression that succeeds under the documented depth limits, makes calls that fail on them, and requires the same expression to succeed again; a foreign-containers stream checks that documents holding typed slices/maps, arrays, structs and pointers keep the same dynamic type and value at every position; an edited-in-place stream lets the caller edit its document between calls (same container identities) and requires Expression.Search and Search to agree with a fresh Search on a deep copy; MustCompile panics exactly when Compile fails (also for members and non-members of 1 KB..1 MiB, where Search, Compile+Search and MustCompile+Search must agree).",
         "Aliasing between a result and its input is allowed; only writes are violations. Enumerating expressions are compared through the model (unordered-aware).", "§6 C06"),
 "C07": ("Go race detector (happens-before) over a barrier-released concurrent workload in fresh processes + per-call equality with the sequential outcome + AST fingerprint hook",
         "Worker built with -race; in each fresh process ~440 shared compiled expressions (generated ones plus a directed list applying every ordering/reversing/merging builtin to every way of passing a shared array or literal without a copy, large arrays with late type errors, integer arguments in every spelling and inexact arithmetic) and 20 shared read-only documents (four of them foreign Go values, never evaluated before the goroutines are released; every third expression is cold as well, so that process-wide lazy initialisation happens under concurrency) are hammered by 2-64 goroutines (GOMAXPROCS 2/4/16) mixing Search, Compile+Search and sharedExpression.Search; every race-detector report, every outcome differing from the precomputed sequential outcome, and every change to a shared Expression (fingerprint) or document (deep snapshot) is a violation.",
         "Only interleavings actually produced are judged; races on AST node types not covered by the shared expressions are not seen (coverage counted in the evidence). porcupine/gofail do not apply: there is no shared mutable object or critical section in the library.", "§6 C07"),
 "C08": ("contract invariants on every failing call + reference-model fault analysis + Compile/Search/document metamorphic checks",
         "Failing texts generated per category and site (every wrong arity of every builtin, unknown names incl. ~250 builtin names of other implementations, static faults nested in other calls and in expression references, expression-reference position faults at every position, a wrong type at every argument position, every invalid-value site, undefined variables at every kind of site, division by zero/overflow, every dynamic fault category raised at the first/middle/last element of each per-element construct, two-fault combinations, syntax faults, mutated expressions, call histories: decorated variants, every prefix and several extensions of a text in sequence) are run through Compile, Search and Expression.Search on 13 documents: nil result with the error, exactly one exported category, category = the model's (or within its fault set), same static fault from Compile and from Search on every document, no static fault from a compiled Expression.",
         "Which of several simultaneous faults is reported is not judged beyond membership in the model's fault set.", "§6 C08"),
 "C15": ("online repetition monitor with rebuilt maps + offline cross-process comparison of recorded outcome digests + AST fingerprint hook",
         "Each (expression, document) - forms that range Go maps, sibling/nested/wide lets, merges, groupings - is evaluated 20/100 times per process on independently rebuilt maps (shuffled insertion, capacity hints, churn), alternately through Search, fresh Compile and a long-lived compiled Expression that is applied to a different document in between, in 4/16 fresh processes; outcomes must agree within a process (online) and across processes (offline checker over the merged event logs), AST fingerprints too; strict comparison for order-free expressions, multiset comparison for enumerating ones.",
         "Enumerating expressions are judged only when the model confirms no order-sensitive consumer is reached; a dependence needing a particular hash seed may need more processes (distinct member orders actually seen are counted).", "§6 C15"),
}


# additions of round 9 (appended to the level text of the check)
EXTRA = {
 "C01": " Join-shaped expressions (a per-element let above a root-, literal- or variable-anchored sub-expression that reads the variable; 26+6 bodies x 9 outer forms x 2..257 elements) and 34 shapes over pairs of names that collide under twelve common 32-bit string hashes (as variables, identifiers, keys, strings) are compared with the model as well.",
 "C02": " lower/upper are run over every code point that has a case mapping and compared with the model wherever all Unicode-aware implementations agree.",
 "C03": " The hostile values include a pool of standard-library carriers (math/big numbers, raw JSON, pointers to scalars and containers, readers, marshalers), each as a useful value, a malformed one and a typed nil.",
 "C04": " Every sequence of up to 3/4 pieces from a 13-piece byte alphabet (delimiters, backslash, 1-/2-byte characters, stray and truncated UTF-8 bytes) is placed between each pair of string delimiters; quoted identifiers with lone surrogate escapes must be rejected or keep everything written around the surrogate (direct oracle).",
 "C05": " sum/avg over 2..1500 numbers spanning far more than 34 orders of magnitude, built so that every left-to-right total is exact (any regrouping of the additions loses members).",
 "C08": " Static faults are also checked against 15 top-level documents of standard-library types (raw JSON well-formed/truncated/empty, byte slices, readers, big numbers, typed nils).",
 "C09": " Every magnitude family runs on three size classes of subject data (10 / 300 / 5000 elements and characters).",
 "C11": " lower/upper of every code point that has a case mapping must be valid UTF-8 and measure consistently under length/split/reverse.",
 "C12": " A periodic stream slices strings of 64..4096 code points made of repeated mixed-width units whose byte length is an exact multiple of the code point count (and the same plus one character).",
 "C13": " sort_by/max_by/min_by over a root-anchored array with keys that read a per-element let variable are compared with the model (join-shaped cases, 2..257 evaluations of one call site).",
 "C15": " A twin-texts stream requires cold, warm and freshly compiled outcomes of a text to agree after a text that a careless normal form would merge with it (Unicode white space at the edges, case / white space / normalisation inside literals; 11 length classes up to 20000 bytes) has been evaluated.",
 "C17": " The projection-vs-map identity is also run on join-shaped right-hand sides over 2..257 elements.",
 "C19": " Join-shaped cases, hash-hostile names (pairs colliding under twelve 32-bit string hashes) and one let binding and reading back 100..200000 distinct names are included.",
 "C20": " 41 number spellings (in range, at the edge, beyond the decimal range, malformed json.Number texts) are compared with the strings that spell them in 30 forms with constant answers (direct oracle).",
}

ALL = ["C%02d" % i for i in range(1, 21)]

def main():
    try:
        commits = subprocess.check_output(["git", "-C", "/repo", "log", "--format=%H %s"], text=True).splitlines()
    except Exception:
        commits = []
    hook_commits = [c.split()[0] for c in commits if "verif hook" in c]
    checks = []
    for pid in ALL:
        if pid not in CLAIMED:
            continue
        tech, text, note, ref = CLAIMED[pid]
        text += EXTRA.get(pid, "")
        checks.append({
            "property_id": pid,
            "quick_cmd": "./check %s quick" % pid,
            "thorough_cmd": "./check %s thorough" % pid,
            "evidence_file": "/verif/evidence/%s.json" % pid,
            "replay_cmd_template": "./check replay {path}",
            "engine": "vcheck",
            "level_claimed": {"category": "exploration", "text": text, "design_ref": ref},
            "level_note": note,
            "technique": tech,
        })
    na = [{"property_id": p, "reason": "check not built yet in this session (runtime-monitoring design exists in DESIGN.md §6); not claimed until its monitor is registered and silent on the unchanged tree"} for p in ALL if p not in CLAIMED]
    m = {
        "version": 1,
        "setup_cmd": "./setup.sh",
        "hooks": {
            "guard": "verif",
            "enable": "go build -tags verif (the worker is built from /verif/harness with `replace github.com/woodsbury/jmespath => /repo`)",
            "baseline_off_cmd": "cd /repo && GOFLAGS=-mod=mod GOPROXY=off go test -vet=off -count=1 ./...",
            "source_commits": hook_commits,
            "add_only": True,
        },
        "engines": [{"name": "vcheck", "path": "/verif/harness", "serves_properties": sorted(CLAIMED), "kind_free_text": "Go driver + child-process workers running monitors (reference-model, metamorphic, invariant, race detector, coverage-counter step clock) next to the real library"}],
        "checks": checks,
        "not_applicable": na,
        "notes": "Runtime monitoring only. Exit 0 held / 1 violation (VIOLATION line) / 2 inconclusive. Known findings: /verif/known_findings.json.",
    }
    json.dump(m, open("/verif/MANIFEST.json", "w"), indent=1)
    print("claimed:", sorted(CLAIMED))

main()
