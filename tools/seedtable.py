#!/usr/bin/env python3
"""tools/seedtable.py <letter>...  : prints the DESIGN §8 table rows for the given rounds from seeded/*/meta.json"""
import json, sys, glob, os
for letter in sys.argv[1:]:
    for d in sorted(glob.glob(f"/verif/seeded/C??-{letter}")):
        m = json.load(open(os.path.join(d, "meta.json")))
        caught = ", ".join(m["detected_by_quick_checks"]) or "— (not caught)"
        print(f"| {m['id']} | {m['needs_to_manifest']} | {caught} | {m['history']} |")
