#!/usr/bin/env python3
# group violations of the latest kept run: tools/group.py [PROP]
import json,glob,os,collections,sys
pat='/verif/.run/%s-*'%(sys.argv[1] if len(sys.argv)>1 else '*')
dirs=sorted(glob.glob(pat),key=os.path.getmtime)
d=dirs[-1]
cnt=collections.Counter(); ex={}
for f in glob.glob(d+'/out.*/events.*.jsonl'):
    for l in open(f):
        r=json.loads(l)
        if r.get('kind')!='violation': continue
        g=r['got']; w=r['want']
        k=(r['rule'],r['stream'],(r.get('features') or {}).get('function',''),r['detail'][:40], g[:44] if g.startswith('error') or g.startswith('PANIC') else 'value', w[:34] if w.startswith('error') else 'value')
        cnt[k]+=1
        ex.setdefault(k,(r['expr'][:200],r['data'][:120],g[:160],w[:160],r['idx']))
for k,n in sorted(cnt.items(),key=lambda x:-x[1]):
    print(n,k); print('     ',ex[k])
print(d)
