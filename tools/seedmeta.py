#!/usr/bin/env python3
"""tools/seedmeta.py <round-letter> <results-dir> <prefix>
Writes seeded/<Cnn>-<letter>/meta.json for one round of seeded changes from the hand-written
descriptions below and the result files of tools/mutant2.sh (<results-dir>/<prefix>Cnn.txt:
'CHECK Cnn exit=1 ...' lines say which quick checks caught the change)."""
import json, re, sys, os

NEEDS = {
 "D": {
  "C01": ("a JSON literal array directly under a bare [*] or [?..] whose pruning/filtering removes something, evaluated at least twice (reused Expression, or inside a projection over >= 2 elements): compacted in place inside the AST", "C06/C07 caught it at once through the AST fingerprint; C01 catches it since its random stream compares Compile+Search histories"),
  "C02": ("a sort_by nested inside the key expression of another sort_by with the same key kind and an inner array no longer than the outer one: shared per-evaluation key buffer is clobbered", "missed by every check at first (key expressions were plain fields); caught after expression-reference bodies may call builtins again (generator) and after the re-entrant-pairs stream; C13/C14 catch it through re-entrant key expressions"),
  "C03": ("the same nesting as C02-D where the inner array sorted for the last outer element is shorter than len(outer)-1: index out of range inside sort.Stable", "missed at first for the same reason as C02-D; caught by C03's own streams only through generated calls, by C02/C13/C14 through the re-entrant forms"),
  "C04": ("Compile of a text that differs from an earlier successfully compiled text only by Unicode white space (not grammar white space) at the very start or end: parse cache keyed by strings.TrimSpace", "caught as built (Search/Compile agreement and call histories were added in round 1 for C06-B)"),
  "C05": ("a number text longer than 24 characters whose 24-character prefix was parsed as a number earlier in the same process and is still in a 512-slot memo", "missed at first (independent operands never share a 24-character prefix); caught after adding the ladder stream that feeds one long number text prefix by prefix"),
  "C06": ("sort_by applied to a syntactically bare flatten (x[]) of an array that is already flat and null-free: flatten returns the input slice and sort_by sorts it in place", "missed at first: the nested-builder generator always parenthesised the inner expression (a harness bug) and no document array was both flat and unsorted; caught after fixing the nesting and adding the directed list"),
  "C07": ("sort / sort_by applied directly to a bare [*] of a null-free unsorted array of a document shared between goroutines: sorted in place", "missed by C07 at first (random expressions almost never sort a homogeneous shared array), caught by C06 and C13; C07 catches it after adding the directed aliasing forms to the shared expressions"),
  "C08": ("an undefined variable (or any wrapped fault) first reached at an element with index >= 1 of sort_by / max_by / min_by: reported as evaluation-failed", "missed at first (faults were raised at element 0); caught after adding every fault category at the first / middle / last element of each per-element construct"),
  "C09": ("negative-step slice of a string containing a non-ASCII character with a huge |step|: trailing skip loop runs |step| iterations", "caught as built (magnitude stream)"),
  "C10": ("a bare flatten (a[]) directly followed by a binary operator and then a tighter one: stale binding power after 'continue'", "caught as built (bare-flatten operands were added in round 1)"),
  "C11": ("pad_left / pad_right with a multi-byte pad character and >= 64 characters of padding, not a multiple of 64: last partial block cut by bytes", "caught as built (widths 22..130 with pad characters of every width were added in round 2)"),
  "C12": ("a stepped slice whose projection right-hand side evaluates another stepped slice of an array no longer than the outer result: shared per-evaluation buffer", "missed at first (no slice inside a slice's projection); caught after adding the nested stream"),
  "C13": ("the same nesting as C02-D", "missed at first; caught after adding key expressions that sort / select themselves"),
  "C14": ("sort / sort_by whose keys are all Go floats, nested inside the key expression of another sort_by: float-only fast path with a shared key buffer", "missed by C14 at first (no nested sorts in its templates), caught by C13 through float64 keys once re-entrant key expressions existed; C14 catches it after adding re-entrant templates"),
  "C15": ("an earlier let with >= 5 bindings in the same process, then a let that looks up a name it does not bind: overflow map of a pooled scope is not cleared", "missed at first (lets had at most 3-5 bindings and nothing looked up unbound names right after); caught after adding wide lets followed by narrow lets to C15 and C19"),
  "C16": ("a Compile that fails inside a quoted identifier after a non-empty valid prefix, followed by a literal containing a backslash: pooled buffer keeps the decoded prefix", "missed at first (only valid literals were fed); caught after compiling malformed neighbours before each string's valid spellings"),
  "C17": ("an index literal 128..255 applied to the current node ('x | [200]') over an array with >= 256-N elements: wraps to a negative index", "missed at first (arrays had at most ~8 elements, index literals were small); caught after adding 300-element documents with boundary index tails to C17 and the index-boundaries stream to C01"),
  "C18": ("map(&f, arr) | [0] where f is null for the first element and non-null for a later one: fused fast path drops nulls as a projection would", "missed at first: the re-query always parenthesised e1 and the null-elements stream had no arrays built by functions; caught after adding bare pipes and function-built arrays"),
  "C19": ("an inner let that rebinds a name to null while an outer let binds it to a non-null value, the name used inside the expression reference of map / sort_by / min_by / max_by / group_by: flattened scope treats null as unbound", "missed at first (null-valued bindings only appeared in one canonical shape, outside expression references); caught after adding null binds to the generator and the shadowing shapes"),
  "C20": ("a let inside a projection/filter/map body whose variable is an operand of == / != and holds a number the first time: per-evaluation memo keyed by AST node", "missed at first (each comparison node was evaluated once per evaluation with the same operands); caught after adding one-evaluation comparison matrices"),
 },
}

def main():
    letter, resdir, prefix = sys.argv[1], sys.argv[2], sys.argv[3]
    rnd = {"A": 1, "B": 1, "C": 2, "D": 3, "E": 4, "F": 5, "G": 6, "H": 7, "J": 8, "K": 9, "L": 10, "M": 11, "N": 12}[letter]
    kinds = {"D": "two cooperating sites that each look fine alone, or state that survives between uses",
             "E": "a performance optimisation a maintainer would merge that is subtly wrong for a narrow class of inputs",
             "F": "a clean-up / refactoring / modernisation commit that is not quite behaviour-preserving",
             "G": "a feature addition, an over-broad bug fix or an error-handling improvement that changes behaviour the property pins",
             "H": "a hardening / resource-limit / sanitising commit, a portability adaptation or an internal API reshape",
             "L": "any realistic commit designed to slip past the tester as strengthened after round 9 (methods described to the author; computed collisions of 64-bit digests ruled out)",
             "N": "any realistic commit designed to slip past the tester as strengthened after round 11 (methods described to the author)",
             "M": "any realistic commit designed to slip past the tester as strengthened after round 10 (methods described to the author; asked for a part of the code and a kind of mistake the earlier rounds did not revolve around)",
             "K": "any realistic commit designed to slip past the tester as strengthened after round 8 (its methods, including the history, boundary, long-input, literal-spelling and depth-limit streams, were described to the author)",
             "J": "any realistic commit designed to slip past a strong tester whose methods (exhaustive small inputs, differential reference, metamorphic relations, boundary values, long inputs, histories, race detector) were described to the author"}
    sys.path.insert(0, os.path.dirname(os.path.abspath(__file__)))
    if letter == "E":
        from seedmeta_e import NEEDS_E
        table = NEEDS_E
    elif letter == "F":
        from seedmeta_f import NEEDS_F
        table = NEEDS_F
    elif letter == "G":
        from seedmeta_g import NEEDS_G
        table = NEEDS_G
    elif letter == "H":
        from seedmeta_h import NEEDS_H
        table = NEEDS_H
    elif letter == "J":
        from seedmeta_j import NEEDS_J
        table = NEEDS_J
    elif letter == "K":
        from seedmeta_k import NEEDS_K
        table = NEEDS_K
    elif letter == "L":
        from seedmeta_l import NEEDS_L
        table = NEEDS_L
    elif letter == "M":
        from seedmeta_m import NEEDS_M
        table = NEEDS_M
    elif letter == "N":
        from seedmeta_n import NEEDS_N
        table = NEEDS_N
    else:
        table = NEEDS[letter]
    for pid, (needs, hist) in sorted(table.items()):
        d = f"/verif/seeded/{pid}-{letter}"
        res = os.path.join(resdir, f"{prefix}{pid}.txt")
        caught, lines = [], []
        if os.path.exists(res):
            lines = open(res).read().splitlines()
            for ln in lines:
                m = re.match(r"CHECK (C\d\d) exit=(\d+)", ln)
                if m and m.group(2) == "1":
                    caught.append(m.group(1))
        txt = "\n".join(lines)
        meta = {
            "id": f"{pid}-{letter}", "breaks_property": pid, "round": rnd,
            "written_by": "independent sub-agent given only the property text and a scratch worktree; asked for " + kinds[letter],
            "needs_to_manifest": needs,
            "confirmed": {
                "applies_to_repo_head": "MUTANT-ERROR" not in txt,
                "pinned_suite_passes_with_change": "suite: passes with the change" in txt,
                "demo_fails_with_change": "demo: fails with the change" in txt,
                "demo_passes_without_change": "demo: passes without the change" in txt,
                "how": f"tools/mutant2.sh seeded/{pid}-{letter}/patch.diff seeded/{pid}-{letter}/demo_test.go.txt <checks>  (scratch worktree; tools/mutant.sh does the same on /repo itself and restores it)",
            },
            "detected_by_quick_checks": sorted(set(caught), key=lambda c: (c != pid, c)),
            "history": hist,
        }
        os.makedirs(d, exist_ok=True)
        json.dump(meta, open(os.path.join(d, "meta.json"), "w"), indent=1, ensure_ascii=False)
        print(pid, meta["detected_by_quick_checks"], {k: v for k, v in meta["confirmed"].items() if k != "how"})

if __name__ == "__main__":
    main()
